/* RFC 3629 section 4 syntax table, written from the RFC, not from the code:
 *   UTF8-1 = %x00-7F
 *   UTF8-2 = %xC2-DF UTF8-tail
 *   UTF8-3 = %xE0 %xA0-BF UTF8-tail / %xE1-EC 2( UTF8-tail ) /
 *            %xED %x80-9F UTF8-tail / %xEE-EF 2( UTF8-tail )
 *   UTF8-4 = %xF0 %x90-BF 2( UTF8-tail ) / %xF1-F3 3( UTF8-tail ) /
 *            %xF4 %x80-8F 2( UTF8-tail )
 *   UTF8-tail = %x80-BF
 * Function form (used in function contracts) and macro form (loop invariants
 * may not contain calls); job `utf8_spec_forms_agree` proves the two forms
 * equal for every window. */
#ifndef VERIF_UTF8_SPEC_H
#define VERIF_UTF8_SPEC_H
#define UTF_ILLEGAL 0xFFFFFFFFu
#define UTF_INCOMPLETE 0xFFFFFFFEu
#define U8TAIL(x) ((x) >= 0x80 && (x) <= 0xBF)

/* length (1..4) of the well-formed sequence starting at q with av bytes
 * available, 0 if there is none (ill-formed or truncated) */
static inline unsigned spec_u8_len(const char *q, size_t av)
{
  if(av < 1) return 0;
  uint32_t b0 = (unsigned char)q[0];
  if(b0 <= 0x7F) return 1;
  if(b0 >= 0xC2 && b0 <= 0xDF) {
    if(av < 2) return 0;
    uint32_t b1 = (unsigned char)q[1];
    return U8TAIL(b1) ? 2 : 0;
  }
  if(b0 >= 0xE0 && b0 <= 0xEF) {
    if(av < 3) return 0;
    uint32_t b1 = (unsigned char)q[1], b2 = (unsigned char)q[2];
    bool second = b0 == 0xE0 ? (b1 >= 0xA0 && b1 <= 0xBF) : b0 == 0xED ? (b1 >= 0x80 && b1 <= 0x9F) : U8TAIL(b1);
    return (second && U8TAIL(b2)) ? 3 : 0;
  }
  if(b0 >= 0xF0 && b0 <= 0xF4) {
    if(av < 4) return 0;
    uint32_t b1 = (unsigned char)q[1], b2 = (unsigned char)q[2], b3 = (unsigned char)q[3];
    bool second = b0 == 0xF0 ? (b1 >= 0x90 && b1 <= 0xBF) : b0 == 0xF4 ? (b1 >= 0x80 && b1 <= 0x8F) : U8TAIL(b1);
    return (second && U8TAIL(b2) && U8TAIL(b3)) ? 4 : 0;
  }
  return 0;
}
/* scalar value of a sequence of length len (1..4), RFC 3629 section 3 */
static inline uint32_t spec_u8_cp(const char *q, unsigned len)
{
  uint32_t b0 = (unsigned char)q[0];
  if(len <= 1) return b0;
  uint32_t b1 = (unsigned char)q[1];
  if(len == 2) return ((b0 & 0x1F) << 6) | (b1 & 0x3F);
  uint32_t b2 = (unsigned char)q[2];
  if(len == 3) return ((b0 & 0x0F) << 12) | ((b1 & 0x3F) << 6) | (b2 & 0x3F);
  uint32_t b3 = (unsigned char)q[3];
  return ((b0 & 0x07) << 18) | ((b1 & 0x3F) << 12) | ((b2 & 0x3F) << 6) | (b3 & 0x3F);
}
/* HTML-safe mode of property C14: no C0 control except TAB LF CR, no DEL, no C1 */
#define SPEC_HTML_OK(cp) ( !((cp) < 0x20 && (cp) != 0x09 && (cp) != 0x0A && (cp) != 0x0D) && (cp) != 0x7F && !((cp) >= 0x80 && (cp) <= 0x9F) )
static inline bool spec_u8_seq_ok(const char *q, size_t av, bool html)
{
  unsigned len = spec_u8_len(q, av);
  if(len == 0) return false;
  if(!html) return true;
  uint32_t cp = spec_u8_cp(q, len);
  return SPEC_HTML_OK(cp);
}

/* the whole postcondition of a decoding step, evaluated with one pass over the window:
 *  accepted <=> accepted sequence at q;  if accepted: value and advance are those of the sequence */
static inline bool spec_u8_next_post(const char *q, size_t av, bool html, uint32_t ret, size_t adv)
{
  unsigned len = spec_u8_len(q, av);
  bool ok = len != 0;
  uint32_t cp = 0;
  if(ok) { cp = spec_u8_cp(q, len); if(html && !SPEC_HTML_OK(cp)) ok = false; }
  if(ok) return ret != UTF_ILLEGAL && ret == cp && adv == len;
  return ret == UTF_ILLEGAL;
}
/* same for the support library decoder (no html mode; `incomplete` only for a truncated window) */
static inline bool spec_u8_decode_post(const char *q, size_t av, uint32_t ret, size_t adv)
{
  unsigned len = spec_u8_len(q, av);
  if(len != 0) return ret == spec_u8_cp(q, len) && adv == len;
  return ret == UTF_ILLEGAL || (ret == UTF_INCOMPLETE && av < 4);
}
/* ---- macro form for loop invariants (lean: each byte read once per use) */
#define U8B(q,i) ((uint32_t)(unsigned char)((q)[i]))
#define U8SECOND3(b0,b1) ((b0)==0xE0 ? ((b1)>=0xA0 && (b1)<=0xBF) : (b0)==0xED ? ((b1)>=0x80 && (b1)<=0x9F) : U8TAIL(b1))
#define U8SECOND4(b0,b1) ((b0)==0xF0 ? ((b1)>=0x90 && (b1)<=0xBF) : (b0)==0xF4 ? ((b1)>=0x80 && (b1)<=0x8F) : U8TAIL(b1))
#define SPEC_U8_LEN_M(q,av) ( (av) < 1 ? 0u : \
   U8B(q,0) <= 0x7F ? 1u : \
   (U8B(q,0) >= 0xC2 && U8B(q,0) <= 0xDF) ? (((av) >= 2 && U8TAIL(U8B(q,1))) ? 2u : 0u) : \
   (U8B(q,0) >= 0xE0 && U8B(q,0) <= 0xEF) ? (((av) >= 3 && U8SECOND3(U8B(q,0),U8B(q,1)) && U8TAIL(U8B(q,2))) ? 3u : 0u) : \
   (U8B(q,0) >= 0xF0 && U8B(q,0) <= 0xF4) ? (((av) >= 4 && U8SECOND4(U8B(q,0),U8B(q,1)) && U8TAIL(U8B(q,2)) && U8TAIL(U8B(q,3))) ? 4u : 0u) : 0u )
/* HTML-unsafe well-formed sequences, byte level: C0 controls and DEL are the
 * one-byte sequences 00-1F (minus 09 0A 0D) and 7F; C1 controls U+0080..U+009F
 * are exactly the two-byte sequences C2 80 .. C2 9F */
#define SPEC_U8_HTML_BAD_M(q,av) ( (U8B(q,0) < 0x20 && U8B(q,0) != 0x09 && U8B(q,0) != 0x0A && U8B(q,0) != 0x0D) || U8B(q,0) == 0x7F || \
   (U8B(q,0) == 0xC2 && (av) >= 2 && U8B(q,1) <= 0x9F) )
#define SPEC_U8_SEQ_OK_M(q,av,html) ( SPEC_U8_LEN_M(q,av) != 0u && (!(html) || !SPEC_U8_HTML_BAD_M(q,av)) )
#define SPEC_U8_CP_M(q,len) ( (len)==1 ? U8B(q,0) : \
   (len)==2 ? (((U8B(q,0) & 0x1F) << 6) | (U8B(q,1) & 0x3F)) : \
   (len)==3 ? (((U8B(q,0) & 0x0F) << 12) | ((U8B(q,1) & 0x3F) << 6) | (U8B(q,2) & 0x3F)) : \
              (((U8B(q,0) & 0x07) << 18) | ((U8B(q,1) & 0x3F) << 12) | ((U8B(q,2) & 0x3F) << 6) | (U8B(q,3) & 0x3F)) )
#endif
