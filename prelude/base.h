/* /verif/prelude/base.h -- common ghost vocabulary for all extracted units.
 * Nothing in here is program code from /repo. */
#ifndef VERIF_BASE_H
#define VERIF_BASE_H
#include <stdbool.h>
#include <stdint.h>
#include <stddef.h>
#include <stdlib.h>
#include <string.h>
#include <limits.h>

/* R6: exception flag (throw X -> verif_thrown=1; return) */
int verif_thrown;

/* pointer vocabulary usable in contracts and loop invariants (macros only:
 * goto-instrument rejects function calls inside loop invariants) */
#define OFF(p)  __CPROVER_POINTER_OFFSET(p)
#define SAME(p,q) __CPROVER_same_object(p,q)
/* [b,e) is a readable range of one object */
#define VALID_RANGE(b,e) (SAME(b,e) && OFF(b)<=OFF(e) && __CPROVER_r_ok(b, OFF(e)-OFF(b)))
/* p lies in [b,e] of the same object */
#define IN_RANGE(p,b,e) (SAME(p,b) && SAME(p,e) && OFF(b)<=OFF(p) && OFF(p)<=OFF(e))

/* the same address as q, written relative to the pointer e of the same object:
 * when q was havocked by a loop contract and e was not, dereferencing REBASE(q,e)
 * lets cbmc resolve the object statically (huge difference in formula size) */
#define REBASE(q,e) ((e) - (OFF(e) - OFF(q)))

/* vacuity guard: must be reported FAILURE by cbmc (precondition satisfiable,
 * end of harness reachable); the driver treats SUCCESS here as exit 2 */
#define VERIF_REACH __CPROVER_assert(0, "VERIF_REACH")

/* witness capture for replay: only compiled into the witness re-run */
#define WIT_NB 4
#define WIT_NBYTES 24
#define WIT_NV 16
#ifdef VERIF_SMALL
unsigned long wit_len[WIT_NB];
unsigned char wit_byte[WIT_NB][WIT_NBYTES];
long long wit_val[WIT_NV];
#define WIT_CAP(n) __CPROVER_assume((n) <= WIT_NBYTES)
#define WIT(slot, expr) (wit_val[slot] = (long long)(expr))
#define WIT_B1(slot, ptr, n, i) if((unsigned long)(i) < (unsigned long)(n)) wit_byte[slot][i] = ((const unsigned char *)(ptr))[i];
#define WIT_BUF(slot, ptr, n) do { wit_len[slot] = (n); \
  WIT_B1(slot,ptr,n,0) WIT_B1(slot,ptr,n,1) WIT_B1(slot,ptr,n,2) WIT_B1(slot,ptr,n,3) WIT_B1(slot,ptr,n,4) WIT_B1(slot,ptr,n,5) \
  WIT_B1(slot,ptr,n,6) WIT_B1(slot,ptr,n,7) WIT_B1(slot,ptr,n,8) WIT_B1(slot,ptr,n,9) WIT_B1(slot,ptr,n,10) WIT_B1(slot,ptr,n,11) \
  WIT_B1(slot,ptr,n,12) WIT_B1(slot,ptr,n,13) WIT_B1(slot,ptr,n,14) WIT_B1(slot,ptr,n,15) WIT_B1(slot,ptr,n,16) WIT_B1(slot,ptr,n,17) \
  WIT_B1(slot,ptr,n,18) WIT_B1(slot,ptr,n,19) WIT_B1(slot,ptr,n,20) WIT_B1(slot,ptr,n,21) WIT_B1(slot,ptr,n,22) WIT_B1(slot,ptr,n,23) } while(0)
#else
#define WIT_CAP(n) ((void)0)
#define WIT(slot, expr) ((void)0)
#define WIT_BUF(slot, ptr, n) ((void)0)
#endif

/* object-size cap for symbolic buffers: far above every protocol limit in the
 * code, small enough for cbmc's default object-bits */
#ifndef BUF_CAP
#define BUF_CAP 1000000ul
#endif

/* allocate a symbolic buffer of symbolic size n<=cap */
#define SYM_BUF(T, name, n, cap) size_t n; __CPROVER_assume(n <= (cap)); WIT_CAP(n); T *name = malloc(n); __CPROVER_assume(name != NULL)

#endif
