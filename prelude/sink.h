/* R7: scalar ghost sink for append-only outputs (std::string +=, streambuf::sputc/sputn,
 * output iterators).  Only scalars: total length, the bytes of ONE segment (the puts made
 * while g_seg_on is set by a ghost statement of the loop under proof), a byte budget
 * that models a streambuf that accepts only a prefix, and a flag for writes after failure. */
#ifndef VERIF_SINK_H
#define VERIF_SINK_H
size_t snk_len;                 /* bytes accepted so far */
size_t snk_budget;              /* bytes the sink will still accept (streambuf variants) */
bool   snk_failed;              /* a put was refused */
bool   snk_put_after_fail;      /* a put was attempted after a refusal */
bool   g_seg_on; size_t g_seg_n; unsigned char g_seg[8];   /* the segment under observation */
size_t g_sum;                   /* ghost: expected total length */
size_t g_i;                     /* ghost: arbitrary input index / offset chosen by the harness */
bool   g_seen;                  /* ghost: the iteration for g_i happened */

static inline void snk_put(char c)
{
  if(g_seg_on) { if(g_seg_n < 8) g_seg[g_seg_n] = (unsigned char)c; g_seg_n++; }
  snk_len++;
}
/* streambuf::sputc: returns the character as unsigned char, or EOF(-1) when refused */
static inline int snk_sputc(char c)
{
  if(snk_failed) snk_put_after_fail = 1;
  if(snk_budget == 0) { snk_failed = 1; return -1; }
  snk_budget--; snk_put(c); return (unsigned char)c;
}
/* streambuf::sputn(s,n) for the short literals of the code (n <= 6): writes a prefix, returns its length */
static inline long snk_sputn(char const *s, long n)
{
  __CPROVER_assert(n >= 0 && n <= 6, "sink: literal length within the modelled bound");
  if(snk_failed) snk_put_after_fail = 1;
  long done = 0;
  if(done < n && snk_budget > 0) { snk_budget--; snk_put(s[0]); done++; }
  if(done < n && done == 1 && snk_budget > 0) { snk_budget--; snk_put(s[1]); done++; }
  if(done < n && done == 2 && snk_budget > 0) { snk_budget--; snk_put(s[2]); done++; }
  if(done < n && done == 3 && snk_budget > 0) { snk_budget--; snk_put(s[3]); done++; }
  if(done < n && done == 4 && snk_budget > 0) { snk_budget--; snk_put(s[4]); done++; }
  if(done < n && done == 5 && snk_budget > 0) { snk_budget--; snk_put(s[5]); done++; }
  if(done < n) snk_failed = 1;
  return done;
}
/* std::string += "literal" (never fails); the literal's length is taken from the string itself */
#define snk_lit(s) do { char const *l_ = (s); \
   if(l_[0]) { snk_put(l_[0]); if(l_[1]) { snk_put(l_[1]); if(l_[2]) { snk_put(l_[2]); if(l_[3]) { snk_put(l_[3]); \
   if(l_[4]) { snk_put(l_[4]); if(l_[5]) { snk_put(l_[5]); __CPROVER_assert(!l_[6], "sink: literal longer than 6"); } } } } } } } while(0)
#endif
