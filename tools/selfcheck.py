#!/usr/bin/env python3
"""setup_cmd: verify the tool chain is present and the spec files load; builds nothing of /repo."""
import subprocess, sys, os
sys.path.insert(0, os.path.dirname(os.path.abspath(__file__)))
ok = True
for tool in ('cbmc', 'goto-cc', 'goto-instrument', 'g++'):
    try:
        out = subprocess.run([tool, '--version'], stdout=subprocess.PIPE, stderr=subprocess.STDOUT, timeout=60).stdout.decode().splitlines()[0]
        print('%-16s %s' % (tool, out))
    except Exception as e:
        print('%-16s MISSING (%s)' % (tool, e)); ok = False
import prove
units = prove.load_units()
print('%d units, %d jobs' % (len(units), sum(len(u['jobs']) for u in units)))
os.makedirs(os.path.join(prove.VERIF, 'evidence'), exist_ok=True)
sys.exit(0 if ok else 1)
