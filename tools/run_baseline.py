#!/usr/bin/env python3
"""runs the repository's pinned test suite (ctest on /repo/_build after an incremental build) and checks that every
test in BASELINE.json stable_pass passes; stable tests that fail under -j8 are re-run once serially (port clashes)"""
import json, subprocess, re, sys
base = json.load(open('/root/.vp/BASELINE.json'))
stable = {t.split('::')[0] for t in base['stable_pass']}
subprocess.run(['cmake', '--build', '/repo/_build'], stdout=subprocess.DEVNULL, stderr=subprocess.STDOUT)
out = subprocess.run(['ctest', '--test-dir', '/repo/_build', '-j8', '--timeout', '900'], stdout=subprocess.PIPE, stderr=subprocess.STDOUT).stdout.decode()
passed = set(re.findall(r'Test\s+#\d+:\s+(\S+)\s+\.+\s+Passed', out))
missing = sorted(stable - passed)
for t in list(missing):
    o = subprocess.run(['ctest', '--test-dir', '/repo/_build', '-R', '^%s$' % t, '--timeout', '900'], stdout=subprocess.PIPE, stderr=subprocess.STDOUT).stdout.decode()
    if re.search(r'Passed', o): missing.remove(t); print('passed on serial re-run:', t)
print('%d/%d stable tests pass' % (len(stable) - len(missing), len(stable)))
if missing: print('FAILING stable tests:', missing); sys.exit(1)
