#!/usr/bin/env python3
"""writes /verif/MANIFEST.json from the table below (kept in one place so the
claimed set, the level notes and the not-applicable reasons cannot drift apart)"""
import json, os, sys
VERIF = os.path.dirname(os.path.dirname(os.path.abspath(__file__)))

TRUST = ('Trusted base: cbmc/goto-cc/goto-instrument 6.11.0 + SAT back end; the cxx2c extraction rules R1-R12 '
         '(C++ -> C dialect translation of the function bodies, re-done from /repo on every run; per-function diffs in evidence/extract); '
         'stubs with assumed contracts for collaborators cbmc cannot see (listed per property in the evidence file under trusted_base); '
         'bit-precise x86-64 LP64 arithmetic; symbolic buffers capped at 1e6 bytes. ')

CLAIMED = {
 'C01': dict(
    text='Slice: the FastCGI length/name-value decoder (read_len, parse_pairs), the FastCGI record cache (peek/skip/read_bytes, async_read_from_socket, on_some_read_from_socket, '
         'non_blocking_read_record: the delivered bytes are a prefix of the received bytes however the stream is cut), the FastCGI STDIN hand-over (async_read_some, on_some_input_recieved, on_read_stdin_eof_expected: '
         'the next min(s,unread) bytes of the current record are delivered in order and accounted once, exactly the rest stays buffered, the cursor never leaves the buffer, reading past CONTENT_LENGTH is refused), '
         'the SCGI netstring reader, and util::urldecode are under contract for all inputs. The embedded HTTP server: the request line is split at its first two spaces (method / URI without any space, protocol = the rest, HTTP/1.1 by exact comparison; fewer than two spaces = protocol violation), process_request splits the URI into QUERY_STRING (after the FIRST ?), SCRIPT_NAME (a configured name that prefixes the path on a segment boundary) and PATH_INFO (the decoded rest), and body bytes that arrived with the headers are handed over in order before the socket is read (http::async_read_some). The header splitter is under contract: RFC 2616 token / separators / LWS helpers, parse_single_header (the CGI variable name is the header\'s token upper-cased with - -> _, the value is the rest of the line after the colon and white space, verbatim; both copies fit their allocation - proved in the thorough tier, about 7 minutes) and, in the quick tier, the normalisation step of its loop (every letter a..z).',
    note=TRUST + 'Covered only as a slice: end-to-end equality of the request seen through HTTP/SCGI/FastCGI (goes through cppcms::service and the event loop), '
         'cookies/forms, REMOTE_ADDR / proxy variables, rewrite rules and keep-alive sequencing are NOT covered; of the script-name choice only soundness (the chosen name is a segment prefix) is under contract; script names are shorter than 256 bytes, at most 200 of them. std::vector buffers are modelled as a fixed-capacity object with a logical size; string pool / environment map are stubs.',
    design='4 (C01/C02/C12)', technique='cbmc code contracts (dfcc) + loop contracts on extracted C; representation invariant of the record cache'),
 'C02': dict(
    text='For arbitrary peer bytes every extracted FastCGI and SCGI protocol callback (on_start_request, params_record_expected, stdin_eof_expected, on_header_read, on_body_read, '
         'non_blocking_read_record, cache functions, scgi on_first_read / on_headers_chunk_read) is memory safe, keeps its buffers within a fixed bound, and uses the completion handler '
         'exactly once (ghost counter). The embedded HTTP server\'s header reader (http::some_headers_data_read, whole function): every invocation ends in exactly one continuation (the completion handler with an error, another header read, or process_request), more header bytes are requested only while at most 16 KiB were read, and the HTTP_<NAME> variable is built in a block that holds prefix + name + NUL. Five genuine defects were found by these obligations, replayed on the real code and fixed (known_findings.txt).',
    note=TRUST + 'Not covered: event-loop survival and isolation of other connections (whole-process/schedule property), the embedded HTTP front end, multipart upload errors. '
         'Collaborators (socket, string pool, env map, atoi/atoll, strlen, memcpy) are stubs with assumed contracts that assert the ranges they are given.',
    design='4 (C01/C02/C12)', technique='cbmc code contracts (dfcc) + loop contracts; ghost handler-exactly-once counter; stubs asserting buffer ranges'),
 'C04': dict(
    text='Slice: the tokeniser split_to_parts is proved for every input: the parts tile the input (contiguous, non-empty, ending at the end) and, at an arbitrary offset, a plain-text part contains none of < > &, '
         'an entity part is &...; with no earlier ;, a tag part is <...> with no earlier >, a comment part is <!--...--> with none of < > & inside. This is the stability argument of the filter: kept parts re-tokenise '
         'identically, removed or escaped parts contribute no markup. validate_nesting is under contract as well: for an arbitrary entry, a closing tag that keeps its type has found its partner, the partner is an EARLIER entry and links back to it (these links are what filter() uses to drop both halves of a rejected pair); the stack is drained. ends_with (the entity-literal matcher used for attribute values) reports a match only if the bytes at the cursor are exactly the literal and lie inside the value, and moves the cursor by exactly its length; validate_property_value: an accepted attribute value contains no < and no >, and every & in it starts one of the eight white-listed entities lying entirely inside the value (the callee is used through an executable restatement of its proved postcondition, DESIGN.md section 4).',
    note=TRUST + 'Not covered: the tag/attribute grammar functions (parse_html_tag, parse_properties, validate_property_value: contracts written, proofs parked in specs/wip), rule lookup (std::map/set), regex and URI validators, validate_nesting (std::stack), numeric entity ranges, the escape loop, character-encoding validation (units utf8/encoding), '
         'and the composition validate(filter(x)) over token vectors. std::vector<entry>::push_back is a stub asserting tiling and classification; the input is modelled inside an object with 4 bytes of slack (p+4<end).',
    design='4 (C04)', technique='cbmc loop contracts (goto-instrument --apply-loop-contracts) on extracted C, obligations solved in chunks; ghost-offset classification asserted at every push_back'),
 'C05': dict(
    text='Slice: hmac_cipher::equal is proved to return true exactly when all bytes are equal while visiting every byte (no data-dependent exit); hmac_cipher::decrypt and aes_cipher::decrypt are proved to '
         'accept only when the MAC was computed over the whole message part, compared in full with the trailing tag and matched, to decrypt only after that, and to keep every length derived from the cookie inside the buffers; '
         'base64url decode (unit base64) is exact. The combined-key constructor aes_factory(algo,key) is under contract: both keys are set exactly once with the lengths the primitives need; for a combined key the AES key and the MAC key tile the configured key (every key byte is used, none twice); any other accepted key is expanded with a keyed hash of the WHOLE key. session_cookies::load / save are under contract: a session is loaded only from a cookie "C" ++ base64url(cipher) that the encryptor authenticated, the expiry is the first sizeof(time_t) bytes of the plain text and is not in the past, the data is the rest, every rejected cookie is cleared, and save encrypts exactly expiry ++ data. session_interface::load: data the back end authenticated but that does not parse is rejected and cleared and no exception leaves load() (genuine defect F10, fixed).',
    note=TRUST + 'HMAC unforgeability and CBC confidentiality are ASSUMED (crypto objects are stubs that record/range-check arguments). Not covered: encrypt side of the ciphers, key derivation beyond the split, '
         'domain separation between algorithms that share an HMAC key (observation in DESIGN.md section 5), "reveals neither payload nor equality".',
    design='4 (C05/C06)', technique='cbmc code contracts (dfcc): loop contract for the constant-time compare, ghost-recorded MAC-then-decrypt protocol skeleton'),
 'C06': dict(
    text='Slice: session_sid::valid_sid accepts exactly the language I[0-9a-f]{32} and hands on exactly the 32 digits; new identifiers are 32 lower-case hex digits (tohex exact for 16 bytes); '
         'protocol skeletons of session_sid::save/load/clear: storage is addressed only with an identifier that passed valid_sid or was freshly generated, a reset removes the old id and issues a fresh one, '
         'a loaded session past its deadline is removed and not returned, clear removes the stored session and clears the cookie. The in-memory storage (session_memory_storage: save / load / remove / short_gc) is under contract over abstract containers: a session is returned only under the id it was saved under and only while its deadline has not passed, with the stored data and deadline; save keeps one deadline entry per session; remove takes the session out of both structures; the opportunistic collection never removes a live session.',
    note=TRUST + 'Identifiers in the skeletons are abstracted to tags; storage, cookie accessors, time() and the random device are stubs. The save policy of session_interface is under contract (unit sessintf): an empty session is never written (stored copy dropped, exposed values withdrawn); a changed / new / reset session is written exactly once with the serialised current data and the deadline of its expiration mode (fixed keeps the deadline it was created with, renew / browser and new sessions get now + period); an unchanged fixed session is left alone; an unchanged renew / browser session is renewed with a fresh deadline at the latest when 90% of its period is used up. Not covered: the value / exposed-flag accessors and update_exposed, load_data / save_data packing, '
         'session_dual, tcp storage, unpredictability of identifiers, histories over browsers and clocks.',
    design='4 (C05/C06)', technique='cbmc code contracts (dfcc) on extracted C: exact-language contract, protocol skeletons with ghost tags'),
 'C11': dict(
    text='Slice: the JSON string writer (generic_append, used for every key and string value): opening quote, every input byte represented exactly once and in order (verbatim only if it is not a quotation mark, '
         'reverse solidus or control character, otherwise by exactly its escape), closing quote. The string-token parser parse_string: terminates on every input without reading past the stream, and an accepted string '
         'contains no raw control character, only the RFC 8259 escapes, surrogate escapes only as first/second pairs, and passed UTF-8 validation. The tokenizer is under contract too: next() yields a structural character only for that very byte, true/false/null only when spelled in full, a string or number token only through parse_string/parse_number started at the deciding byte, otherwise an error or the end of input; check() consumes exactly the literal; read_4_digits accepts exactly four hexadecimal digits and returns their value. The parser state machine parse_stream (tokens from an oracle, value operations as recorders) terminates for every token sequence, replaces the target exactly when the parse succeeds (a failed parse leaves it untouched), fails on a duplicate key, never touches an empty stack and keeps the nesting within 512.',
    note=TRUST + 'Not covered: nesting bound, unique keys, number parsing/printing (iostream), tree construction, typed extraction, locale. The stream buffer, str, read_4_digits and utf8::validate are stubs.',
    design='4 (C11)', technique='cbmc code contracts (dfcc) + loop contracts; Appender/stream stubs asserting what each append may contain'),
 'C12': dict(
    text='Slice: multipart_parser::consume (all states) is memory safe for every chunk, keeps a well-formed (state, position) pair across chunks, reports a refusing file sink as no_room_left and never writes after it, '
         'and satisfies the conservation law bytes-in-file + pending partial boundary match == bytes consumed (unbounded, loop contracts); request::on_content_start refuses negative/over-limit Content-Length with 400/413; '
         'parse_form_urlencoded and util::urldecode are memory safe and exact per token. Exact reconstruction / first boundary occurrence / chunking independence: bounded stand-in (body <= 7 bytes). read_file (the copy of a form-field part into request().post()) returns the whole part from its first byte wherever the stream position was left. The multipart loop of request::on_content_progress: a chunk is either consumed completely with every parser event forwarded exactly once and in order (seek, then the size check against the content-length limit, then the filter call-back), the parser\'s eof coinciding with the declared length in both directions, or refused - 413 exactly for no_room_left and for a form field over the limit, 400 for everything malformed, early or late; size_ok limits form fields (no MIME type) and not files.',
    note=TRUST + 'Not covered: part-header parsing (process_header, parse_content_disposition: std::string iterator code), temp-file spill, the tail of on_content_progress (hand-over of finished parts, raw content filter, exception translation).',
    design='4 (C01/C02/C12)', technique='cbmc code contracts (dfcc) + nested loop contracts with a conservation invariant; bounded unwinding for byte-exactness'),
 'C13': dict(
    text='is_file_prefix is proved (unbounded) to match aliases / the document root only on whole path components. normalize_path is decided by a BOUNDED stand-in: for every request path of up to 8 bytes '
         'its result equals a reference component-stack normalisation (leading /, no ., .., empty component, never above the root). A genuine defect found this way (the / before the component after a .. was lost) is fixed. is_in_root: with symlink checking on, a path is accepted only if root/path was resolved and the RESOLVED name passes the whole-component prefix test against the root. file_server::main: whatever the request, the only paths ever opened, streamed or listed are results of a successful check_in_document_root (provenance bit per path), the index file of a directory included. check_in_document_root (unbounded number of aliases, loop contract): the path is normalised exactly once before any test; the root is the document root unless an alias is a whole-component prefix of the NORMALISED path, then it is that alias\' target with the prefix stripped (/ if nothing is left); the result is is_in_root(path, root) with symlink checking, root ++ path (non-empty, absolute) without.',
    note=TRUST + 'The check for path normalisation is a BOUNDED stand-in (two-pointer in-place compaction, outside the reach of cbmc 6.11 loop contracts) and is not counted among the discharged obligations; the other functions are proved without bound over opaque string ids with recorder / oracle collaborators. Not covered: std::string and realpath themselves, symlink resolution by the OS, '
         'percent-decoding order, directory listings, file-system behaviour.',
    design='4 (C13)', technique='cbmc code contracts (dfcc) + loop contract (is_file_prefix, is_in_root, check_in_document_root, main); bounded unwinding vs reference normalisation for normalize_path'),
 'C14': dict(
    text='Function contracts written from RFC 3629 and from the property text are enforced by cbmc (dfcc) on the mechanically extracted bodies of '
         'both UTF-8 decoders, utf8::validate, utf8::encode, all 17 single-byte validators and the two filter functions of encoding.cpp, for all inputs '
         'of every length up to the object cap (loop contracts close every loop); the two decoders agree as a lemma over their contracts.',
    note=TRUST + 'Not covered: iconv/ICU fallback path of encoding::valid / validate_or_filter (not compiled in this build), std::map dispatch by charset name, form.cpp call sites. '
         'validate_or_filter_utf8 is decided by a bounded stand-in in the quick tier (its unbounded proof is attempted in the thorough tier only).',
    design='4 (C14)', technique='cbmc code contracts (dfcc) + loop contracts on extracted C; ghost-index tiling argument'),
 'C15': dict(
    text='All three util::escape output paths, urlencode_impl and urldecode are under contract with loop contracts (unbounded): the output is the concatenation, over the input bytes, '
         'of the specified replacement (five entities / unreserved-or-%XX / token decoding), total length exact, streambuf failure reported and nothing written after it; '
         'urldecode(urlencode(c))==c for every byte on the real bodies; base64url block codec, alphabet table, size functions and their inverse are proved for all inputs; '
         'the two-pointer base64 loops are a bounded stand-in (<=12 bytes).',
    note=TRUST + 'Outputs (std::string, streambuf, output iterators) are a scalar ghost sink; sscanf(%x) is a stub with the C99 contract. Not covered: template filters and form widgets (call-site fact), '
         'the std::string wrappers of b64url, the string-level concatenation step of the URL round trip (meta-argument over the segment contracts). Bounded: b64url::encode/decode pointer loops up to 12 input bytes.',
    design='4 (C15)', technique='cbmc code contracts (dfcc) + loop contracts with a scalar ghost sink; bounded unwinding for the base64 pointer loops'),
 'C16': dict(
    text='The bundled MD5 compression function is proved equal to RFC 1321 (64 assert-then-assume cut points against a ghost state machine whose T table is computed from sin(i) as the RFC defines; '
         'both the aligned and the unaligned data path), the bundled SHA-1 compression function to FIPS 180-4 (message schedule at an arbitrary ghost index; round loop in lock step with a ghost FIPS round), '
         'plus initial values and rotate. All obligations are for every block and every chaining value. The streaming layer is under contract too, with the compression function replaced by a recorder of '
         'which bytes it is handed (ghost block index / byte index): md5_append and sha1::process_byte/process_block(range) advance the 64-bit length exactly and hand over exactly the completed 64-byte blocks of '
         '(buffered bytes ++ input) in order (chunking independence, for every split); md5_finish and sha1::get_digest hand over buffered bytes ++ 0x80 ++ zeros ++ bit length (little/big endian) '
         'in one or two final blocks for EVERY residue of the length mod 64 (RFC 1321 3.1-3.2 / FIPS 180-4 5.1.1), and emit the registers in the standard byte order. HMAC (crypto::hmac::init / readout over an abstract message_digest): K\' = key padded with zeros, or H(key) padded when the key is longer than a block; the inner hash starts with K\' xor 0x36.., the outer with K\' xor 0x5c.. (every byte, observed at an arbitrary index); the tag is the outer hash read out after it was fed exactly the inner digest; the object is re-armed afterwards (RFC 2104).',
    note=TRUST + 'Not covered: hex key parsing and the message_digest wrappers of src/crypto.cpp (virtual objects; abstract recorders in the HMAC jobs), SHA-2 and AES-CBC (OpenSSL/libgcrypt, external) and agreement of bundled vs. library '
         'implementations. md5_finish is proved with md5_append inlined and its constant 8/16-iteration loops unwound (complete). Message length restricted to < 2^28 bytes per md5_append call (int nbytes << 3) and '
         '<= 10^6 buffered bytes for SHA-1 (the 32-bit bit count written by get_digest is exact below 2^29 bytes; above that sha1.h truncates - observation). Overflow checks are off in the compression functions (modular arithmetic by definition).',
    design='4 (C16)', technique='cbmc: cut-point (assert-then-assume) equivalence per step, loop contracts with ghost lock-step state machine; dfcc contracts with a ghost block recorder for the streaming layer'),
 'C03': dict(
    text='Slice: the output path below the response stream. (1) Pending-output bookkeeping of connection::nonblocking_write / write / append_pending: with U = pending bytes ++ newly formatted bytes, the socket is offered all of U from its '
         'first byte, and for EVERY prefix the socket accepts (nothing, part, all; with or without an error or would-block) exactly the rest of U stays pending - nothing lost, duplicated or reordered; append_pending copies the chunks back to back behind the old content. '
         '(2) FastCGI STDOUT framing (fastcgi::format_output, prepare_eof): for every chunk list and every total length T the output is (T-1)/65535 full records (content 65535, padding 1) and one last record of 1..65535 bytes padded to a multiple of 8, '
         'each header on the wire = version 1, STDOUT, this request id, the content length of THAT record, big endian; the content byte at every stream offset comes from the right input byte; padding is zero; the response headers go in front of the first output only; '
         'a completed response ends with an empty STDOUT record and END_REQUEST(status 0, REQUEST_COMPLETE). (3) HTTP chunked transfer coding (make_chunked_wrapper): hex(size) CRLF data CRLF, last-chunk 0 CRLF CRLF exactly when completed, size announced = size of the data. '
         '(4) SCGI: header block exactly once in front of the first output. (5) HTTP format_output: one header block in front of the first output only, with exactly one Connection line and one terminating empty line; Content-Length added exactly when the length '
         'was unknown and the whole body is in the first output, equal to its size; chunked coding only for HTTP/1.1 keep-alive with unknown length; a connection that stays open always has a delimited body; writing past the announced Content-Length is a protocol violation.',
    note=TRUST + 'NOT covered: http::response and its streambuf chain (buffering, setbuf, flush), gzip, header/cookie assembly (response_headers.h), copy-to-cache, '
         'the asynchronous continuation (async_write_handler), stream_socket. booster::aio::const_buffer is abstract in the bookkeeping jobs (adjacent pieces of one stream; operator+ and operator+(n) = aio::details::advance are ASSUMED to denote concatenation / prefix removal - '
         'the attempted proof of advance is parked in specs/wip) and a chunk list with a ghost prefix-sum table in the byte-level jobs. The FastCGI framing job runs without dfcc (loop contracts only; pre/postcondition assumed/asserted by the harness) and with the kissat back end; '
         'each call is proved for an arbitrary state, the induction over a sequence of writes is a pen-and-paper step. Header bytes are required to come from the header_/full_header_ members the code uses (a refactoring that sends identical bytes from other storage needs EXPECT_PTR updated).',
    design='4 (C03)', technique='cbmc loop contracts + code contracts (dfcc) on extracted C; abstract stream-piece model of const_buffer, position-observing output with send-time reads, ghost prefix-sum tables, division-free ghost decomposition of lengths'),
 'C07': dict(
    text='Slice: the glue code of mem_cache<Setup> (src/cache_storage.cpp) over abstract containers. fetch: a hit is never an expired entry and a miss is never a live one; a hit returns exactly the value, deadline, generation and trigger list of the node '
         'found under the key and makes it the most recently used entry; nothing else changes. store: an entry already stored under the key is deleted first; the new node carries the value, a generation no earlier store had (the counter strictly increases) '
         'or the caller\'s, its deadline is registered, and the key itself plus every listed trigger are attached to it. remove deletes the node under the key and no other. rise deletes every entry on the trigger\'s list exactly once, in order, and nothing else. '
         'delete_node takes the node out of ALL four structures (LRU position, deadline entry, every trigger link it owns, key map) and the counters follow. Representation invariant size = |primary| = |lru| = |timeout|, triggers_count = number of links, kept by every function. cache_interface (trigger recording): add_trigger attaches the trigger to the page being built and hands it to EVERY active recorder exactly once; '
         'fetch of a cached frame inherits every trigger the back end reports (in order, once each; none on a miss or with notriggers); store adds the frame\'s triggers and its own key to the enclosing page and passes exactly key, data, trigger set and now+timeout (negative = never) to the back end. Whole-page caching: store_page attaches the page\'s own key BEFORE handing the page\'s whole trigger set to the back end, stores the output copied after finalize under the variant (compressed / plain) fetch_page chose; fetch_page looks the page up under the variant the client can take, writes exactly the cached bytes on a hit (gzip declared only for the compressed variant) and arranges the copy on a miss.',
    note=TRUST + 'NOT covered: the containers themselves (private/hash_map.h, std::list, std::multimap: iterators are opaque handles, every operation is a recorder with ghost cardinalities), hence the history-level statement '
         '(a fetch returns the value of the most recent store unless invalidated) which is a composition of these per-call contracts with container semantics; fetch_page/store_page (response stream) and the recorder objects\' own set operations; locks are dropped (C09 n/a); bad_alloc paths are cut. '
         'add_trigger and nl_clear are contract stubs. Deadline equal to now may count either way.',
    design='4 (C07/C08)', technique='cbmc code contracts (dfcc) + loop contracts on extracted C; abstract containers as recorders with ghost cardinalities; representation invariant'),
 'C08': dict(
    text='Slice: the limit/eviction glue of mem_cache<Setup>. check_limits: afterwards the cache is empty or strictly below its limit (limit 0 = unlimited), exactly size_before - size_after nodes were deleted, and EVERY victim was the one the policy prescribes: '
         'the entry with the smallest deadline if that deadline has passed, otherwise the least recently used one (checked as the precondition of delete_node at each call, against a ghost oracle fixed at the start of every iteration whether or not the code looks at it). '
         'store: with a limit of n entries the cache never holds more than n after a store; the new entry goes to the FRONT of the LRU list (fetch moves a hit to the front as well, job mc_fetch). delete_node releases the node from all four structures; '
         'the reported key and trigger counts equal the container cardinalities (representation invariant kept by every function). add_trigger (one more counted link, remembered by the node), nl_clear (everything emptied, both counters reset) and stats (reported counts = cardinalities) are under contract too. Buddy allocator arithmetic (unit buddy): containts_bits = floor(log2), get_bits = an order whose page holds n bytes, get_buddy = the other half of the enclosing page (same size, disjoint, one page size away, inside the arena) or none when it would stick out.',
    note=TRUST + 'NOT covered: that the back of std::list is the least recently used entry is list semantics (front insertion on store/fetch and back eviction are under contract); the free-list manipulation of the buddy allocator (page_alloc / free_page: linked pages, no inductive predicate within reach) and hence "memory of removed entries is released" for the process-shared cache; '
         'not_enough_memory()/size_limit() are arbitrary (when memory pressure was reported the size bound is not claimed); statistics over histories. Observation: store() compares the ENTRY COUNT `size` with Setup::size_limit() (bytes/20) - the per-item size guard is ineffective.',
    design='4 (C07/C08)', technique='cbmc code contracts (dfcc) + loop contracts; policy oracle as ghost candidate + callee precondition; chunked solving'),
 'C10': dict(
    text='Slice: the wire format, the key spreading and the per-call L1 handshake. Client tcp_cache::store builds exactly key ++ value ++ (trigger ++ NUL)* with the three length fields and size = their sum, deadline unchanged; '
         'server session::store accepts a message only if the three lengths add up to the payload size (in 64 bit - a genuine defect, the 32-bit sum wrapped, was repaired) and hands the cache exactly message[0,key_len), '
         'message[key_len,key_len+data_len) and the NUL-separated pieces of the rest (load_triggers = split at NULs, empty piece rejected); server session::fetch answers uptodate exactly when asked and the generation the cache '
         'holds NOW equals the client generation, otherwise value ++ trigger list with data_len/triggers_len/size/generation/timeout set consistently; client tcp_cache::fetch sends key/flags/generation and parses that reply inside its bounds; '
         'to_time_t is the identity (deadlines survive); tcp_connector::hash is a pure function of key bytes and server count with an in-range result (same key, same server on every node); cache_over_ip::fetch consults the server exactly '
         'once on EVERY fetch, serves the L1 copy only when the server confirmed its generation in that call, otherwise the server value, refreshes / drops the L1 entry accordingly; on_header_in sizes the payload buffer to the announced size. '
         'All for every key/value/trigger content (NUL bytes, empty values, any number of triggers) up to 10^6 bytes.',
    note=TRUST + 'NOT covered: the multi-node history statement itself (that no later fetch on any node returns an older value) is a pen-and-paper composition of the per-call contracts above with "mem_cache gives every store a fresh generation" '
         '(mem_cache is template/STL code, see C07) - no obligation states it; sockets, reconnect in messenger::transmit, broadcast of rise/clear, session opcodes. std::string / std::set / std::vector are (pointer,length) models with recorders; '
         'messenger::transmit is assumed to deliver bytes unchanged. The unsigned-wrap check is off in the two NUL splitters (int -= unsigned by design). Observation (not a violation of the statement): a fetch refreshed through L1 reports the union of old and new triggers.',
    design='4 (C10)', technique='cbmc code contracts (dfcc) + loop contracts; ghost recorders for cache/transmit calls, position-observing output sink, offset-table model of std::set<std::string>'),
 'C18': dict(
    text='read_from_file is proved against EVERY file content (hence every torn state of every save over every earlier state): a load succeeds only if the file holds a complete 16-byte header and '
         '`size` payload bytes, the stored deadline is not in the past, and the checksum verified is that of exactly those payload bytes; on failure the caller\'s data and timeout are untouched. '
         'read_all delivers exactly the next n bytes or fails; read_timestamp (used by gc) never reports a live session as dead. save_to_file writes the 16-byte header {deadline, CRC-32 of exactly the data, size} first and the data second, nothing else, and reports every failed write.',
    note=TRUST + 'POSIX read/lseek/time are stubs with regular-file semantics; zlib CRC-32 is an arbitrary fixed value of the payload: "a CRC-consistent record is one some save wrote" is the CRC collision assumption. '
         'Size fields >= 2^31 are outside the contract (observation recorded). Not covered: fsync/sector model of the crash, write_all (observation: does not advance after a short write), locking, unlink, directory walk of gc.',
    design='4 (C18)', technique='cbmc code contracts (dfcc) with a ghost file of arbitrary content; loop contract for read_all'),
 'C20': dict(
    text='Slice: booster::regex::match (both overloads) reports a match only if pcre_exec on the ANCHORED pattern compiled from "(?:p)\\z" succeeded with offsets 0..length of the subject (whole string, never a prefix), '
         'and hands on exactly the offsets pcre reported for each group; url_dispatcher::dispatch executes the first handler in registration order whose patterns match, tries none after it, and returns false only if none matches. option::matches selects a handler only if the WHOLE path matched its pattern and, with a method filter, the whole request method equals the filter word or is matched by the filter expression as a whole (regex_match, never regex_search); nothing that matches is turned away.',
    note=TRUST + 'pcre_exec is a stub with the PCRE 8 API contract; that "(?:p)\\z" cannot match short of the end is PCRE semantics (assumed). options[i]->dispatch is an oracle array (<= 16 options). '
         'mount_point::match is under contract over pattern oracles: selected only if EVERY configured pattern matched the entire respective string, sub-path = the selected part or capture group_ of its own match, nothing matching is turned away. Not covered: applications pool scan order, url_mapper and the mapper/dispatcher round trip.',
    design='4 (C20)', technique='cbmc code contracts (dfcc) + loop contracts with ghost-recorded pcre_exec arguments / dispatch oracle'),
 'C19': dict(
    text='The chunk reader/writer of cppcms::archive (next_chunk_size, read_chunk, read_chunk_as_string, write_chunk, eof) and the POD-vector load body are under contract: '
         'for every archive content, length and cursor a read either throws or stays inside the archive bytes and returns exactly the payload; '
         'write/read round trip at chunk level is a lemma over the two contracts. Loop-free code, so the proof is complete for all inputs.',
    note=TRUST + 'Not covered: user serialize() graphs, smart pointers, STL containers other than POD vectors, JSON values, session/cache convenience wrappers (templates over STL outside the C front end). '
         'std::string buffer_ is modelled as (pointer,length); write_chunk lengths above 2^32-1 are outside the contract.',
    design='4 (C19)', technique='cbmc code contracts (dfcc) on extracted C; loop-free full-domain proof'),
}

NOT_APPLICABLE = {
 'C09': 'concurrency / linearizability over thread schedules: cbmc code contracts are sequential; no contract within reach expresses interleavings of the templated cache code and booster mutexes.',
 'C17': 'exactly-once delivery under thread/event-loop schedules (io_service, reactor, thread_pool): a schedule property over C++ callback code; sequential contracts cannot express it.',
}

# properties whose contract units are not built yet in this round: listed as not applicable *for now* with that reason
PENDING = {
}

def main():
    props = [json.loads(l) for l in open(os.path.join(VERIF, 'properties.jsonl'))]
    checks = []; na = []
    for p in props:
        pid = p['id']
        if pid in CLAIMED:
            c = CLAIMED[pid]
            checks.append(dict(property_id=pid, quick_cmd='./check %s --tier quick' % pid, thorough_cmd='./check %s --tier thorough' % pid,
                               evidence_file='evidence/%s.json' % pid, replay_cmd_template='./check %s --replay {path}' % pid,
                               engine='cbmc-contracts',
                               level_claimed=dict(category=c.get('category', 'proof'), text=c['text'], design_ref=c['design']),
                               level_note=c['note'], technique=c['technique']))
        elif pid in NOT_APPLICABLE:
            na.append(dict(property_id=pid, reason=NOT_APPLICABLE[pid]))
        else:
            na.append(dict(property_id=pid, reason=PENDING.get(pid, 'contract units for this property are designed (DESIGN.md section 4) but not yet built; not claimed until the obligations are discharged on every run')))
    man = dict(version=1, setup_cmd='python3 tools/selfcheck.py',
               hooks=dict(guard='CPPCMS_VERIF', enable='no hooks: contracts live in /verif/specs and are attached to function bodies extracted from /repo on every run; nothing in /repo is built with a guard',
                          baseline_off_cmd='ctest --test-dir /repo/_build -j8 --timeout 900', source_commits=[], add_only=True),
               engines=[dict(name='cbmc-contracts', path='tools/prove.py', serves_properties=sorted(CLAIMED),
                             kind_free_text='contract-based deductive verification: cxx2c extraction of real function bodies to C, goto-instrument --dfcc contract enforcement, cbmc 6.11 SAT back end')],
               checks=checks, not_applicable=na,
               notes='See DESIGN.md. Exit codes of every check: 0 = all obligations discharged, 1 = VIOLATION line(s), 2 = undecided (timeout, extraction drift, ledger mismatch, vacuous contract).')
    json.dump(man, open(os.path.join(VERIF, 'MANIFEST.json'), 'w'), indent=1)
    print('MANIFEST.json: %d checks, %d not applicable' % (len(checks), len(na)))

if __name__ == '__main__':
    main()
