#!/usr/bin/env python3
"""prove.py -- driver: extract (cxx2c) -> goto-cc -> goto-instrument --dfcc -> cbmc,
obligation ledger, vacuity guards, witness extraction, native replay, evidence.

usage: prove.py <property-id> [--tier quick|thorough] [--replay FILE] [--bless]
                [--unit NAME] [--job NAME] [--keep] [--emit-only]
exit 0: every obligation discharged (known findings printed)
exit 1: VIOLATION line(s) printed
exit 2: undecided (timeout, extraction drift, ledger mismatch, vacuous contract, tool error)
"""
import sys, os, re, json, time, glob, shutil, tempfile, subprocess, importlib.util, resource, argparse, hashlib
from concurrent.futures import ThreadPoolExecutor

VERIF = os.path.dirname(os.path.dirname(os.path.abspath(__file__)))
REPO = os.environ.get('VERIF_REPO', '/repo')
sys.path.insert(0, os.path.join(VERIF, 'tools'))
import cxx2c

STD_CHECKS = ['--bounds-check', '--pointer-check', '--signed-overflow-check', '--unsigned-overflow-check',
              '--div-by-zero-check', '--no-pointer-primitive-check']
MEM_LIMIT = 16 << 30
# obligation classes whose number is fixed by the SPEC (not by the code): these are counted in the ledger
CONTRACT_CLASSES = ('postcondition', 'loop_invariant_base', 'loop_invariant_step', 'loop_decreases')

class Undecided(Exception):
    pass

def load_units():
    units = []
    for f in sorted(glob.glob(os.path.join(VERIF, 'specs', '*.py'))):
        spec = importlib.util.spec_from_file_location('spec_' + os.path.basename(f)[:-3], f)
        mod = importlib.util.module_from_spec(spec)
        spec.loader.exec_module(mod)
        for u in getattr(mod, 'UNITS', [getattr(mod, 'UNIT', None)]):
            if u:
                u['_specfile'] = f
                units.append(u)
    return units

def limit():
    resource.setrlimit(resource.RLIMIT_AS, (MEM_LIMIT, MEM_LIMIT))
    os.setsid()

def run(cmd, timeout, cwd, out=None):
    t0 = time.time()
    try:
        p = subprocess.run(cmd, cwd=cwd, stdout=subprocess.PIPE, stderr=subprocess.STDOUT,
                           timeout=timeout, preexec_fn=limit)
        return p.returncode, p.stdout.decode('latin-1'), time.time() - t0
    except subprocess.TimeoutExpired as e:
        return -9, (e.stdout or b'').decode('latin-1'), time.time() - t0

# ------------------------------------------------------------------ unit -> C file
def emit_unit(unit, workdir):
    """extract all functions of a unit; returns (c_path, info)"""
    fns = unit.get('functions', [])
    callees = cxx2c.callee_table(fns)
    parts = ['/* GENERATED on every run by /verif/tools/cxx2c.py from %s -- do not edit */' % REPO,
             '#include "%s/prelude/base.h"' % VERIF]
    for inc in unit.get('includes', []):
        parts.append('#include "%s/prelude/%s"' % (VERIF, inc))
    info = dict(functions=[], diff_lines=0, diffs={}, regions=[])
    pre = unit.get('pre', '')
    for reg in unit.get('regions', []):
        text = open(os.path.join(REPO, reg['file']), encoding='latin-1').read()
        line, body = cxx2c.cut_region(text, reg['start'], reg['end'], reg['name'])
        st = {}
        body = cxx2c.apply_rules(body, reg.get('rewrites', []), reg['name'], st)
        info['regions'].append(dict(name=reg['name'], file=reg['file'], line=line))
        pre = pre.replace('@@REGION:%s@@' % reg['name'], '/* region from %s:%d */\n%s\n' % (reg['file'], line, body))
    parts.append(pre)
    for fn in fns:
        ex = cxx2c.extract_function(REPO, fn, unit.get('rename', {}), callees)
        if fn.get('before'): parts.append(fn['before'])
        parts.append(ex['c_text'])
        if fn.get('after'): parts.append(fn['after'])
        info['functions'].append(dict(cname=fn['cname'], file=fn.get('file', '(stub)'), line=ex['line'],
                                      loops=ex['nloops'], loop_contracts=sorted(fn.get('loops', {}).keys()),
                                      rewrite_counts=ex['stats']))
        info['diff_lines'] += len(ex['diff'])
        info['diffs'][fn['cname']] = ex['diff']
    parts.append(unit.get('post', ''))
    for job in unit['jobs']:
        parts.append('void h_%s(void)\n{\n%s\n}\n' % (job['name'], job['harness'].strip('\n')))
    c_path = os.path.join(workdir, unit['name'] + '.c')
    open(c_path, 'w').write('\n'.join(parts))
    return c_path, info

# ------------------------------------------------------------------ one job
def parse_cbmc_json(text):
    try:
        data = json.loads(text)
    except Exception:
        # truncated output (timeout): try to salvage nothing
        return None, [], 0.0, 'unparsable'
    results = None; msgs = []; solver = 0.0; backend = ''
    for o in data:
        if 'result' in o: results = o['result']
        if 'messageText' in o:
            t = o['messageText']
            msgs.append(t)
            m = re.match(r'Runtime decision procedure: ([\d.]+)s', t)
            if m: solver += float(m.group(1))
            if t.startswith('Running with') or 'Running ' in t[:12] or t.startswith('Solving with'): backend = t
    return results, msgs, solver, backend

def obligation_class(pid):
    m = re.match(r'(.*)\.([a-z_A-Z\-]+)\.(\d+)$', pid)
    return (m.group(1), m.group(2)) if m else (pid, '')

def build_job(unit, job, c_path, workdir, small=False):
    name = job['name']; tag = name + ('.small' if small else '')
    h = 'h_' + name
    a = os.path.join(workdir, tag + '.a.gb'); b = os.path.join(workdir, tag + '.b.gb')
    cmds = []
    cc = ['goto-cc', '--function', h, c_path, '-o', a] + (['-DVERIF_SMALL'] if small else []) + job.get('defines', [])
    cmds.append(cc)
    rc, out, _ = run(cc, 300, workdir)
    if rc != 0:
        raise Undecided('goto-cc failed for %s: %s' % (name, out[-2000:]))
    kind = job.get('kind', 'enforce')
    if job.get('pre_unwind') is not None:
        # dfcc needs loop-free code wherever a loop has no contract: unwind before instrumenting
        a2 = os.path.join(workdir, tag + '.u.gb')
        gu = ['goto-instrument', '--unwind', str(job['pre_unwind']), '--unwinding-assertions', a, a2]
        cmds.append(gu)
        rc, out, _ = run(gu, 600, workdir)
        if rc != 0:
            raise Undecided('goto-instrument --unwind failed for %s: %s' % (name, out[-2000:]))
        a = a2
    if kind in ('enforce', 'lemma'):
        gi = ['goto-instrument', '--dfcc', h]
        if kind == 'enforce':
            gi += ['--enforce-contract', job['enforce']]
        for r in job.get('replace', []):
            gi += ['--replace-call-with-contract', r]
        if job.get('loop_contracts', kind == 'enforce'):
            gi += ['--apply-loop-contracts']
        gi += job.get('gi_flags', [])
        gi += [a, b]
        cmds.append(gi)
        rc, out, _ = run(gi, 600, workdir)
        if rc != 0:
            raise Undecided('goto-instrument failed for %s: %s' % (name, out[-3000:]))
    elif kind == 'plainloops':
        # loop contracts applied without the dfcc function-contract machinery (far fewer auxiliary objects: symex of
        # dereferences through loop-havocked pointers is ~40x faster); the harness asserts the postcondition itself
        gi = ['goto-instrument', '--apply-loop-contracts', a, b]
        cmds.append(gi)
        rc, out, _ = run(gi, 600, workdir)
        if rc != 0:
            raise Undecided('goto-instrument --apply-loop-contracts failed for %s: %s' % (name, out[-3000:]))
    else:
        b = a
    return b, cmds

def cbmc_cmd(job, binary, extra=()):
    cmd = ['cbmc', binary] + job.get('checks', STD_CHECKS) + ['--json-ui', '--object-bits', str(job.get('object_bits', 8))]
    if job.get('unwind') is not None:
        cmd += ['--unwind', str(job['unwind']), '--unwinding-assertions']
    if job.get('kind', 'enforce') in ('plain', 'plainloops'):
        cmd += ['--drop-unused-functions']
    cmd += job.get('cbmc_flags', [])
    cmd += list(extra)
    return cmd

def run_job(unit, job, c_path, workdir, tier):
    t0 = time.time()
    res = dict(unit=unit['name'], job=job['name'], kind=job.get('kind', 'enforce'), bounded=bool(job.get('bounded')),
               status='ok', results=[], cmds=[], solver_s=0.0, wall_s=0.0, note='')
    try:
        binary, cmds = build_job(unit, job, c_path, workdir)
        res['cmds'] = [' '.join(c) for c in cmds]
        timeout = job.get('timeout', 300) * (3 if tier == 'thorough' else 1)
        if job.get('per_property'):
            # long straight-line code: one cbmc process per assertion (DESIGN probe E)
            rc, out, _ = run(['cbmc', binary, '--show-properties', '--json-ui'] + job.get('checks', STD_CHECKS) +
                             (['--drop-unused-functions'] if job.get('kind', 'enforce') in ('plain', 'plainloops') else []) +
                             (['--unwind', str(job['unwind'])] if job.get('unwind') is not None else []), 300, workdir)
            props = []
            for o in json.loads(out):
                if 'properties' in o:
                    props = [p['name'] for p in o['properties']]
            sel = [p for p in props if re.search(job['per_property'], p)]
            rest = [p for p in props if p not in set(sel)]
            chunk = job.get('pp_chunk', 1)
            groups = [sel[i:i + chunk] for i in range(0, len(sel), chunk)] + ([rest] if rest else [])
            allres = []
            def one(grp):
                extra = []
                for pid in grp: extra += ['--property', pid]
                c = cbmc_cmd(job, binary, extra)
                return grp, run(c, timeout, workdir)
            with ThreadPoolExecutor(max_workers=job.get('pp_workers', 8)) as ex:
                outs = list(ex.map(one, groups))
            res['cmds'].append(' '.join(cbmc_cmd(job, binary, ['--property', '<one process per obligation for %d obligations, one more for the other %d>' % (len(sel), len(rest))])))
            for grp, (rc, out, w) in outs:
                if rc == -9:
                    res['status'] = 'timeout'; res['note'] = 'timeout on ' + grp[0]
                    allres += [dict(property=pid, description='(cbmc exceeded the time limit on this obligation)', status='TIMEOUT') for pid in grp]
                    continue
                results, msgs, solver, backend = parse_cbmc_json(out)
                if results is None:
                    res['status'] = 'error'; res['note'] = 'cbmc output unparsable for ' + grp[0] + out[-500:]; continue
                res['solver_s'] += solver
                gs = set(grp)
                allres += [r for r in results if r['property'] in gs]
            res['results'] = allres
            if res['status'] == 'timeout' and any(r['status'] == 'FAILURE' and r.get('description') != 'VERIF_REACH' for r in allres):
                res['status'] = 'ok'      # a refuted obligation decides the job; the timed-out ones are listed as undecided statuses
            res['backend'] = 'SAT (%s), one cbmc process per chunk of %d obligations' % ('kissat via --external-sat-solver' if 'kissat' in job.get('cbmc_flags', []) else 'minisat2, cbmc default', chunk)
        else:
            cmd = cbmc_cmd(job, binary)
            res['cmds'].append(' '.join(cmd))
            rc, out, w = run(cmd, timeout, workdir)
            if rc == -9:
                res['status'] = 'timeout'; res['note'] = 'cbmc exceeded %ds' % timeout
            else:
                results, msgs, solver, backend = parse_cbmc_json(out)
                if results is None:
                    errs = [m for m in (msgs or []) if 'rror' in m or 'too many' in m]
                    res['status'] = 'error'; res['note'] = 'cbmc rc=%d: %s' % (rc, ' | '.join(errs)[-600:] if errs else out[-600:])
                else:
                    res['results'] = results; res['solver_s'] = solver
                    res['backend'] = job.get('backend_note', 'SAT (kissat via --external-sat-solver)' if 'kissat' in job.get('cbmc_flags', []) else 'SAT (minisat2, cbmc default)')
                    ign = [m for m in msgs if 'ignoring' in m]
                    if ign:
                        res['status'] = 'error'; res['note'] = 'cbmc ignored a construct: ' + ign[0]
    except Undecided as e:
        res['status'] = 'error'; res['note'] = str(e)
    except cxx2c.ExtractionDrift as e:
        res['status'] = 'drift'; res['note'] = str(e)
    res['wall_s'] = time.time() - t0
    return res

# ------------------------------------------------------------------ witness + replay
def get_witness(unit, job, c_path, workdir, pid):
    """re-run the failing obligation on the VERIF_SMALL build with --trace and
    read the wit_* captures.  Returns (witness dict or None, verifier text)."""
    try:
        binary, _ = build_job(unit, job, c_path, workdir, small=True)
    except Undecided as e:
        return None, str(e)
    cmd = cbmc_cmd(job, binary, ['--property', pid, '--trace'])
    rc, out, w = run(cmd, job.get('timeout', 300), workdir)
    try:
        data = json.loads(out)
    except Exception:
        return None, out[-3000:]
    for o in data:
        for r in o.get('result', []) if isinstance(o, dict) else []:
            if r['property'] == pid and r['status'] == 'FAILURE':
                lens = {}; byts = {}; vals = {}
                steps = []
                for s in r.get('trace', []):
                    if s.get('stepType') != 'assignment': continue
                    lhs = s.get('lhs', ''); v = s.get('value', {}).get('data')
                    if v is None: continue
                    m = re.match(r'wit_len\[(\d+)l?\]$', lhs)
                    if m: lens[int(m.group(1))] = int(re.sub(r'[a-z]+$', '', v)); continue
                    m = re.match(r'wit_byte\[(\d+)l?\]\[(\d+)l?\]$', lhs)
                    if m: byts[(int(m.group(1)), int(m.group(2)))] = int(re.sub(r'[a-z]+$', '', v)) & 0xff; continue
                    m = re.match(r'wit_val\[(\d+)l?\]$', lhs)
                    if m: vals[int(m.group(1))] = int(re.sub(r'[a-z]+$', '', v)); continue
                    if not s.get('hidden') and not lhs.startswith('__CPROVER') and len(steps) < 60:
                        steps.append('%s=%s' % (lhs, v))
                wit = dict(bufs={}, vals={})
                names = job.get('witness', {})
                for i, nm in enumerate(names.get('bufs', [])):
                    n = lens.get(i, 0)
                    wit['bufs'][nm] = [byts.get((i, k), 0) for k in range(min(n, 24))]
                for i, nm in enumerate(names.get('vals', [])):
                    wit['vals'][nm] = vals.get(i, 0)
                return wit, 'trace (last assignments): ' + '; '.join(steps[-40:])
    return None, 'obligation did not fail on the small-input build (needs input longer than 24 bytes or is inductive)'

def run_replay(replay_file):
    """native replay against the real code; returns (confirmed: bool|None, text)"""
    rep = json.load(open(replay_file))
    name = rep.get('replay')
    if not name or rep.get('witness') is None:
        return None, 'no native replay available for this obligation'
    src = os.path.join(VERIF, 'tools', 'replay', name.split(':')[0] + '.cpp')
    if not os.path.exists(src):
        return None, 'replayer %s not written' % src
    wd = tempfile.mkdtemp(prefix='cppcms-verif-replay.', dir='/var/tmp')
    try:
        exe = os.path.join(wd, 'replay')
        inc = ['-I' + REPO, '-I' + REPO + '/private', '-I' + REPO + '/booster', '-I' + REPO + '/_build', '-I' + REPO + '/_build/booster',
               '-I' + os.path.join(VERIF, 'tools', 'replay'),
               # fallback copies of the two cmake-generated configuration headers (build configuration, not source)
               '-I' + os.path.join(VERIF, 'tools', 'replay', 'config')]
        cmd = ['g++', '-std=c++11', '-g', '-O0', '-fsanitize=address,undefined', '-fno-sanitize-recover=undefined',
               '-DVERIF_REPO="%s"' % REPO] + inc + [src, '-o', exe]
        bdir = REPO + '/_build' if os.path.isdir(REPO + '/_build/booster') else '/repo/_build'
        cmd += [x.replace('{BUILD}', bdir) for x in rep.get('replay_link', [])]
        rc, out, _ = run_nolimit(cmd, 600, wd)
        if rc != 0:
            return None, 'replayer does not build against the current tree: ' + out[-1500:]
        env = dict(os.environ, LD_LIBRARY_PATH=bdir + ':' + bdir + '/booster',
                   ASAN_OPTIONS='detect_leaks=0')
        wtxt = os.path.join(wd, 'witness.txt')
        with open(wtxt, 'w') as f:
            for k, v in rep['witness'].get('bufs', {}).items():
                f.write('buf %s %d %s\n' % (k, len(v), ' '.join('%02x' % b for b in v)))
            for k, v in rep['witness'].get('vals', {}).items():
                f.write('val %s %d\n' % (k, v))
        p = subprocess.run([exe, name.split(':', 1)[1] if ':' in name else '', wtxt], stdout=subprocess.PIPE,
                           stderr=subprocess.STDOUT, timeout=120, env=env, cwd=wd)
        text = p.stdout.decode('latin-1')[-3000:]
        if p.returncode == 0 and 'REPLAY-OK' in text:
            return False, text
        if 'REPLAY-VIOLATION' in text or 'AddressSanitizer' in text or 'runtime error' in text:
            return True, text
        return None, 'replayer exit %d: %s' % (p.returncode, text)
    finally:
        shutil.rmtree(wd, ignore_errors=True)

def run_nolimit(cmd, timeout, cwd):
    t0 = time.time()
    try:
        p = subprocess.run(cmd, cwd=cwd, stdout=subprocess.PIPE, stderr=subprocess.STDOUT, timeout=timeout)
        return p.returncode, p.stdout.decode('latin-1'), time.time() - t0
    except subprocess.TimeoutExpired as e:
        return -9, '', time.time() - t0

# ------------------------------------------------------------------ ledger / findings
def ledger_path(unit, job):
    return os.path.join(VERIF, 'specs', 'ledger', '%s.%s.json' % (unit['name'], job['name']))

def ledger_counts(results):
    cnt = {}
    for r in results:
        if r.get('description') == 'VERIF_REACH': continue
        f, c = obligation_class(r['property'])
        if f.startswith('__CPROVER'): continue
        if c in CONTRACT_CLASSES:
            cnt['%s.%s' % (f, c)] = cnt.get('%s.%s' % (f, c), 0) + 1
    return cnt

def load_findings():
    known = []; fixed = []
    p = os.path.join(VERIF, 'known_findings.txt')
    if os.path.exists(p):
        for line in open(p):
            line = line.strip()
            if line.startswith('KNOWN-FINDING:'):
                kv = dict(re.findall(r'(\w+)=(\S+)', line))
                known.append((kv, line))
            elif line.startswith('fixed:'):
                fixed.append(line)
    return known, fixed

# ------------------------------------------------------------------ main
def main():
    ap = argparse.ArgumentParser()
    ap.add_argument('prop')
    ap.add_argument('--tier', default=os.environ.get('VERIF_TIER', 'quick'))
    ap.add_argument('--replay')
    ap.add_argument('--bless', action='store_true')
    ap.add_argument('--unit'); ap.add_argument('--job')
    ap.add_argument('--keep', action='store_true')
    ap.add_argument('--emit-only', action='store_true')
    ap.add_argument('--no-evidence', action='store_true')
    args = ap.parse_args()
    prop = args.prop
    if args.replay:
        confirmed, text = run_replay(args.replay)
        print(text)
        if confirmed:
            print('VIOLATION property=%s replay=%s' % (prop, args.replay)); sys.exit(1)
        print('replay did not reproduce a violation' if confirmed is False else 'no native replay: ' + text[:200])
        sys.exit(0 if confirmed is False else 2)
    t0 = time.time()
    seed = int(os.environ.get('VERIF_SEED', '0') or 0)
    units = [u for u in load_units() if (not args.unit or u['name'] == args.unit)]
    workdir = tempfile.mkdtemp(prefix='cppcms-verif.', dir='/var/tmp')
    all_res = []; infos = {}; undecided = []
    try:
        todo = []
        for u in units:
            jobs = [j for j in u['jobs'] if (prop in j['props'] or prop == 'ALL') and (not args.job or j['name'] == args.job)
                    and (args.tier == 'thorough' or j.get('tier', 'quick') == 'quick')]
            if not jobs: continue
            try:
                c_path, info = emit_unit(u, workdir)
            except cxx2c.ExtractionDrift as e:
                undecided.append('extraction drift in unit %s: %s' % (u['name'], e)); continue
            infos[u['name']] = info
            if args.emit_only:
                print(open(c_path).read()); continue
            for j in jobs: todo.append((u, j, c_path))
        if args.emit_only: return 0
        # longest first
        todo.sort(key=lambda t: -t[1].get('cost', 1))
        with ThreadPoolExecutor(max_workers=int(os.environ.get('VERIF_JOBS', '12'))) as ex:
            futs = [ex.submit(run_job, u, j, c, workdir, args.tier) for (u, j, c) in todo]
            all_res = [f.result() for f in futs]
        jobmap = {(u['name'], j['name']): (u, j, c) for (u, j, c) in todo}
        # ---------------- judge
        obligations = discharged = 0; vac_total = vac_ok = 0
        failures = []   # (res, result-entry)
        bounded = []; samples = []; per_job = []; attempts = []
        for res in all_res:
            u, j, c = jobmap[(res['unit'], res['job'])]
            if res['status'] == 'timeout' and j.get('optional'):
                # thorough-tier proof attempt that may not close (DESIGN probe D shapes): recorded, never counted, never an alarm
                attempts.append(dict(job=res['job'], unit=res['unit'], result='did not close within %ss' % (j.get('timeout', 300) * (3 if args.tier == 'thorough' else 1))))
                continue
            if res['status'] != 'ok':
                undecided.append('%s.%s: %s %s' % (res['unit'], res['job'], res['status'], res['note'][:1500]))
                continue
            reach = [r for r in res['results'] if r.get('description') == 'VERIF_REACH']
            others = [r for r in res['results'] if r.get('description') != 'VERIF_REACH']
            vac_total += len(reach)
            for r in reach:
                if r['status'] == 'FAILURE': vac_ok += 1
                else: undecided.append('%s.%s: vacuity guard %s not reached (contract or harness is vacuous)' % (res['unit'], res['job'], r['property']))
            if not reach:
                undecided.append('%s.%s: harness has no VERIF_REACH guard' % (res['unit'], res['job']))
            if not others:
                undecided.append('%s.%s: zero obligations generated' % (res['unit'], res['job']))
            # ledger
            cnt = ledger_counts(others)
            lp = ledger_path(u, j)
            if args.bless:
                os.makedirs(os.path.dirname(lp), exist_ok=True)
                json.dump(cnt, open(lp, 'w'), indent=1, sort_keys=True)
            elif os.path.exists(lp):
                want = json.load(open(lp))
                for k, v in want.items():
                    if cnt.get(k, 0) < v:
                        undecided.append('%s.%s: ledger mismatch: obligation class %s has %d obligations, ledger expects >= %d (a contract was dropped?)'
                                         % (res['unit'], res['job'], k, cnt.get(k, 0), v))
            else:
                undecided.append('%s.%s: no ledger (run with --bless once)' % (res['unit'], res['job']))
            nfail = [r for r in others if r['status'] != 'SUCCESS']
            if res['bounded']:
                bounded.append(dict(job=res['job'], unit=res['unit'], bound=j.get('bound_note', 'unwind %s' % j.get('unwind')),
                                    checks=len(others), failed=len(nfail)))
            else:
                obligations += len(others); discharged += len(others) - len(nfail)
            unk = [r for r in nfail if r['status'] != 'FAILURE']
            for r in nfail:
                if r['status'] == 'FAILURE': failures.append((res, r))
            if unk and len(unk) == len(nfail):
                undecided.append('%s.%s: %d obligations with status %s (first: %s)' % (res['unit'], res['job'], len(unk), unk[0]['status'], unk[0]['property']))
            for r in others[:0]: pass
            cls = {}
            for r in others:
                f, cl = obligation_class(r['property']); cls[cl] = cls.get(cl, 0) + 1
            per_job.append(dict(unit=res['unit'], job=res['job'], kind=res['kind'], enforce=j.get('enforce'),
                                replaced=j.get('replace', []), bounded=res['bounded'], obligations=len(others),
                                failed=len(nfail), by_class=cls, solver_s=round(res['solver_s'], 2), wall_s=round(res['wall_s'], 2),
                                backend=res.get('backend', ''), unwind=j.get('unwind'), complete_note=j.get('complete_note', '')))
            picks = [r for r in others if obligation_class(r['property'])[1] in ('postcondition', 'loop_invariant_step', 'assertion')][:2]
            for r in picks:
                if len(samples) < 12:
                    samples.append(dict(job=res['job'], obligation=r['property'], description=r['description'][:160], status=r['status']))
        # ---------------- failures -> violations
        known, fixed = load_findings()
        violations = []; known_hits = []
        seen_jobs = {}
        for res, r in failures:
            u, j, c = jobmap[(res['unit'], res['job'])]
            key = (res['unit'], res['job'])
            # one replay file per failing job (first failing obligation), all failing ids listed
            seen_jobs.setdefault(key, []).append(r)
        for key, rs in seen_jobs.items():
            u, j, c = jobmap[key]
            # known finding?  match on property + job + obligation id
            unmatched = []
            for r in rs:
                hit = None
                for kv, line in known:
                    if kv.get('property') == prop and kv.get('job') == j['name'] and kv.get('obligation') == r['property']:
                        hit = line
                if hit: known_hits.append(hit)
                else: unmatched.append(r)
            if not unmatched: continue
            # prefer a contract-level obligation for the witness
            pref = sorted(unmatched, key=lambda r: 0 if obligation_class(r['property'])[1] in ('postcondition', 'assertion', 'precondition') else 1)
            rdir = os.path.join(VERIF, 'replays', prop); os.makedirs(rdir, exist_ok=True)
            chosen = None
            for r0 in pref[:4]:
                wit, vtext = get_witness(u, j, c, workdir, r0['property'])
                if wit is None and j.get('replay_exhaustive'):
                    # the replayer sweeps a finite domain itself (stated in the job) and needs no input from the verifier
                    wit = dict(bufs={}, vals={}); vtext += ' | replayer sweeps: ' + j['replay_exhaustive']
                rpath = os.path.join(rdir, '%s.%s.%s.json' % (u['name'], j['name'], r0['property']))
                rep = dict(property=prop, unit=u['name'], job=j['name'], function=j.get('enforce'),
                           obligation=r0['property'], description=r0['description'],
                           all_failed_obligations=[dict(id=r['property'], description=r['description']) for r in unmatched],
                           verifier='cbmc 6.11.0', verifier_output=vtext, witness=wit, replay=j.get('replay'),
                           replay_link=j.get('replay_link', []), source_files=sorted({f['file'] for f in u.get('functions', []) if 'file' in f}))
                json.dump(rep, open(rpath, 'w'), indent=1)
                confirmed, rtext = (None, 'no witness') if wit is None else run_replay(rpath)
                rep['replay_result'] = dict(confirmed=confirmed, output=rtext[-2000:])
                json.dump(rep, open(rpath, 'w'), indent=1)
                if chosen is None or confirmed:
                    if chosen is not None and chosen[0] != rpath:
                        try: os.remove(chosen[0])
                        except OSError: pass
                    chosen = (rpath, confirmed, r0)
                elif rpath != chosen[0]:
                    try: os.remove(rpath)
                    except OSError: pass
                if confirmed: break
            rpath, confirmed, r0 = chosen
            suffix = '' if confirmed else ' no-failing-input-found'
            violations.append('VIOLATION property=%s replay=%s%s' % (prop, rpath, suffix))
            print('failed obligation: %s.%s %s -- %s' % (u['name'], j['name'], r0['property'], r0['description'][:200]))
        for h in sorted(set(known_hits)): print(h)
        for v in violations: print(v)
        for m in undecided: print('UNDECIDED: ' + m, file=sys.stderr)
        # ---------------- evidence
        wall = time.time() - t0
        if not args.no_evidence and not args.unit and not args.job:
            write_evidence(prop, args.tier, seed, all_res, per_job, infos, obligations, discharged, vac_total, vac_ok,
                           bounded, samples, violations, known_hits, undecided, wall, units, jobmap, attempts)
        print('%s: %d obligations, %d discharged, %d vacuity guards ok, %d bounded stand-ins, %d violations, %d undecided, %.1fs'
              % (prop, obligations, discharged, vac_ok, len(bounded), len(violations), len(undecided), wall))
        if violations: return 1
        if undecided or not all_res: return 2
        return 0
    finally:
        if args.keep: print('workdir kept: ' + workdir)
        else: shutil.rmtree(workdir, ignore_errors=True)

def write_evidence(prop, tier, seed, all_res, per_job, infos, obligations, discharged, vac_total, vac_ok,
                   bounded, samples, violations, known_hits, undecided, wall, units, jobmap, attempts):
    used_units = sorted({r['unit'] for r in all_res})
    trusted = []; notcov = []; assumptions = []; observations = []
    fns = []
    for u in units:
        if u['name'] not in used_units: continue
        for t in u.get('trusted', []):
            if t not in trusted: trusted.append(t)
        for t in u.get('not_covered', {}).get(prop, []):
            notcov.append(t)
        for t in u.get('assumptions', []):
            if t not in assumptions: assumptions.append(t)
        for t in u.get('observations', []):
            observations.append(t)
        for f in infos.get(u['name'], {}).get('functions', []):
            modes = []
            for (un, jn), (uu, j, c) in jobmap.items():
                if un != u['name']: continue
                if j.get('enforce') == f['cname']: modes.append('E:' + jn)
                elif f['cname'] in j.get('replace', []): modes.append('R:' + jn)
            if modes:
                fns.append(dict(function=f['cname'], file=f['file'], line=f['line'], loops=f['loops'],
                                loop_contracts=f['loop_contracts'], used_as=modes))
    base_trusted = ['cbmc/goto-cc/goto-instrument 6.11.0 and the SAT back end (minisat2)',
                    'cxx2c extraction rules R1-R12 (per-function rule firing counts and source->C diffs are in this file / evidence/extract)',
                    'machine arithmetic is bit-precise for x86-64 LP64 little endian only',
                    'object-size cap of symbolic buffers (BUF_CAP, 1e6 bytes unless a job says otherwise)']
    checker_cmd = ''
    for r in all_res:
        if r['cmds']:
            checker_cmd = ' && '.join(r['cmds']); break
    os.makedirs(os.path.join(VERIF, 'evidence', 'extract'), exist_ok=True)
    difflines = 0
    for un in used_units:
        inf = infos.get(un)
        if not inf: continue
        difflines += inf['diff_lines']
        with open(os.path.join(VERIF, 'evidence', 'extract', un + '.diff'), 'w') as f:
            for cn, d in inf['diffs'].items():
                f.write('\n'.join(d) + '\n')
    only_bounded = obligations == 0
    level = 'other' if only_bounded else 'proof'
    cov = dict(obligations=obligations, discharged=discharged, checker_cmd=checker_cmd,
               trusted_base=base_trusted + trusted,
               functions_under_contract=fns, jobs=per_job, bounded=bounded, optional_attempts=list(attempts),
               vacuity_guards=dict(total=vac_total, failed_as_required=vac_ok),
               extraction_diff_lines=difflines,
               solver_seconds=round(sum(r['solver_s'] for r in all_res), 2),
               backend='cbmc 6.11.0 default SAT (minisat2) unless a job states otherwise',
               not_covered=notcov, observations=observations, known_findings=sorted(set(known_hits)),
               undecided=undecided, samples=samples,
               explanation='obligations/discharged count every cbmc property of the unbounded (contract-enforcing, lemma, or loop-free/constant-bound fully unwound) jobs; bounded stand-ins are listed under "bounded" and never counted')
    ev = dict(property_id=prop, tier=tier, seed=seed, level=level, coverage=cov,
              assumptions=assumptions + ['see coverage.trusted_base'], wall_s=round(wall, 2), violations=len(violations))
    json.dump(ev, open(os.path.join(VERIF, 'evidence', prop + '.json'), 'w'), indent=1)

if __name__ == '__main__':
    sys.exit(main())
