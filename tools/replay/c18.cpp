// native replay for unit sessfile (C18): the REAL src/session_posix_file_storage.cpp compiled into this program; the
// witness bytes are written to a real file and loaded through the real reader.  A successful load must satisfy the
// specification: complete header + payload, deadline not in the past, CRC-32 (zlib) of exactly the payload.
#include <string>
#include <vector>
#define private public
#define protected public
#include "src/session_posix_file_storage.cpp"
#undef private
#undef protected
#include "replay_common.h"
#include <zlib.h>
#include <fcntl.h>
#include <unistd.h>
#include <string.h>
int main(int argc,char **argv)
{
	if(argc<3) return 2;
	std::string what=argv[1];
	witness w; if(!w.load(argv[2])) return 2;
	std::vector<unsigned char> &f=w.bufs["file"];
	// the verifier's clock is symbolic: keep the RELATION between the stored deadline and `now` when moving to the real clock
	if(f.size()>=8) {
		int64_t to=0; memcpy(&to,&f[0],8);
		long long wn=w.vals["now"]; time_t rn=time(0);
		__int128 delta=(__int128)to-(__int128)wn; if(delta>1000000) delta=1000000; if(delta<-1000000) delta=-1000000;
		if(delta>=0) delta+=5; else delta-=5;      // stay clear of the second boundary while the test runs
		to=(int64_t)(rn+(long long)delta); memcpy(&f[0],&to,8);
	}
	char dir[]="/var/tmp/cppcms-verif-sess.XXXXXX"; if(!mkdtemp(dir)) return 2;
	std::string path=std::string(dir)+"/f";
	int fd=open(path.c_str(),O_CREAT|O_RDWR,0600); if(fd<0) return 2;
	if(!f.empty() && write(fd,&f[0],f.size())!=(ssize_t)f.size()) return 2;
	cppcms::sessions::session_file_storage st(std::string(dir)+"/store",1,1,false);
	int rc=0;
	time_t now=time(0);
	if(what=="read_from_file") {
		time_t t=12345; std::string data="untouched";
		bool r=st.read_from_file(fd,t,data);
		if(r) {
			bool ok=f.size()>=16;
			int64_t to=0; uint32_t crc=0,size=0;
			if(ok) { memcpy(&to,&f[0],8); memcpy(&crc,&f[8],4); memcpy(&size,&f[12],4); ok = size<=f.size()-16 && to>=now-1; }
			if(ok) { uint32_t real=size? crc32(0,&f[16],size):0; ok = real==crc && data==std::string((char*)&f[0]+16,size) && t==(time_t)to; }
			if(!ok) rc=replay_fail("read_from_file accepted a file that is not a complete, unexpired, CRC-consistent record");
		}
		else if(t!=12345 || data!="untouched") rc=replay_fail("failed load modified the caller's timeout or data");
		if(!rc) rc=replay_ok();
	}
	else if(what=="read_timestamp") {
		bool r=st.read_timestamp(fd);
		int64_t to=0; bool live = f.size()>=8; if(live) { memcpy(&to,&f[0],8); live = to>=now+1; }
		if(live && !r) rc=replay_fail("read_timestamp reports a live session as dead (gc would remove it)");
		else if(r && f.size()<8) rc=replay_fail("read_timestamp accepts a truncated header");
		else rc=replay_ok();
	}
	else rc=2;
	close(fd); unlink(path.c_str()); rmdir((std::string(dir)+"/store").c_str()); rmdir(dir);
	return rc;
}
