// native replay for unit fileserver (C13): the REAL src/internal_file_server.cpp compiled into this program.
// normalize_path is compared with a reference component-stack normalisation.
#include <string>
#include <vector>
#include <sstream>
#include <fstream>
#include <iostream>
#include <map>
#include <set>
#include <list>
#include <memory>
#include <algorithm>
#define private public
#define protected public
#include "src/internal_file_server.cpp"
#undef private
#undef protected
#include "replay_common.h"
static std::string spec_normalize(std::string const &in)
{
	std::vector<std::string> st; size_t i=0;
	while(i<=in.size()) {
		size_t j=in.find('/',i); if(j==std::string::npos) j=in.size();
		std::string c=in.substr(i,j-i);
		if(c.empty() || c==".") {}
		else if(c=="..") { if(!st.empty()) st.pop_back(); }
		else st.push_back(c);
		i=j+1;
	}
	std::string r;
	for(size_t k=0;k<st.size();k++) r+="/"+st[k];
	return r.empty() ? "/" : r;
}
int main(int argc,char **argv)
{
	if(argc<3) return 2;
	std::string what=argv[1];
	witness w; if(!w.load(argv[2])) return 2;
	if(what=="normalize_path") {
		std::vector<unsigned char> &b=w.bufs["path"];
		std::string in(b.begin(),b.end()), p=in;
		cppcms::impl::file_server::normalize_path(p);
		std::string s=spec_normalize(in);
		std::cout << "normalize_path -> [" << p << "] reference [" << s << "]" << std::endl;
		if(p!=s) return replay_fail("normalize_path differs from the reference resolution of '.', '..' and '//'");
		return replay_ok();
	}
	return 2;
}
