// native replay for unit fileserver (C13): the REAL src/internal_file_server.cpp compiled into this program.
// normalize_path is compared with a reference component-stack normalisation.
#include <string>
#include <vector>
#include <sstream>
#include <fstream>
#include <iostream>
#include <map>
#include <set>
#include <list>
#include <memory>
#include <algorithm>
#define private public
#define protected public
#include "src/internal_file_server.cpp"
#undef private
#undef protected
#include "replay_common.h"
static std::string spec_normalize(std::string const &in)
{
	std::vector<std::string> st; size_t i=0;
	while(i<=in.size()) {
		size_t j=in.find('/',i); if(j==std::string::npos) j=in.size();
		std::string c=in.substr(i,j-i);
		if(c.empty() || c==".") {}
		else if(c=="..") { if(!st.empty()) st.pop_back(); }
		else st.push_back(c);
		i=j+1;
	}
	std::string r;
	for(size_t k=0;k<st.size();k++) r+="/"+st[k];
	return r.empty() ? "/" : r;
}
// ---- sweep: the REAL file_server::check_in_document_root (normalize_path, alias loop, is_in_root / canonical) on a sandbox on disk.
// Oracle, from the property: N = normalised request; the root is the document root unless an alias URL is a whole-component prefix of N
// (then the alias target, with the prefix stripped); without symlink checking the name served is root ++ rest, with it the name is
// realpath(root ++ rest) and must lie inside that root.
#include <sys/stat.h>
#include <unistd.h>
#include <limits.h>
#include <cppcms/service.h>
#include <cppcms/json.h>
static void put(std::string const &p,std::string const &c) { std::ofstream f(p.c_str()); f << c; }
static bool comp_prefix(std::string const &pre,std::string const &full) { return full==pre || (full.size()>pre.size() && full.compare(0,pre.size(),pre)==0 && full[pre.size()]=='/'); }
static int sweep_docroot()
{
	char cwd[PATH_MAX]; if(!getcwd(cwd,sizeof(cwd))) return 2;
	std::string box=std::string(cwd)+"/box";
	mkdir(box.c_str(),0755); mkdir((box+"/root").c_str(),0755); mkdir((box+"/root/sub").c_str(),0755); mkdir((box+"/alias_t").c_str(),0755); mkdir((box+"/outside").c_str(),0755); mkdir((box+"/rootx").c_str(),0755);
	put(box+"/root/a.txt","a"); put(box+"/root/sub/b.txt","b"); put(box+"/alias_t/c.txt","c"); put(box+"/outside/secret.txt","s"); put(box+"/rootx/x.txt","x"); put(box+"/root/.hidden","h");
	if(symlink("../outside",(box+"/root/link_out").c_str())!=0 || symlink("sub",(box+"/root/link_in").c_str())!=0 || symlink("../outside/secret.txt",(box+"/alias_t/link_file").c_str())!=0) return 2;
	char rp[PATH_MAX]; if(!realpath(box.c_str(),rp)) return 2; box=rp;
	char const *seg[]={"a.txt","sub","b.txt",".","..","","al","alx","link_out","link_in","secret.txt","c.txt","link_file","rootx","outside"};
	int const nseg=sizeof(seg)/sizeof(seg[0]);
	long checked=0;
	for(int cfgno=0;cfgno<6;cfgno++) {
		bool symcheck=cfgno%2==0; int nal=cfgno/2;
		cppcms::json::value cfg; cfg["service"]["api"]="scgi"; cfg["service"]["socket"]=box+"/s.sock"; cfg["service"]["worker_threads"]=1;
		cfg["file_server"]["document_root"]=box+"/root"; cfg["file_server"]["check_symlink"]=symcheck;
		std::vector<std::pair<std::string,std::string> > al;
		if(nal>=1) { al.push_back(std::make_pair(std::string("/al"),box+"/alias_t")); }
		if(nal>=2) { al.push_back(std::make_pair(std::string("/sub/alx"),box+"/root/sub")); }
		for(size_t i=0;i<al.size();i++) { cfg["file_server"]["alias"][i]["url"]=al[i].first+(i==0?"/":""); cfg["file_server"]["alias"][i]["path"]=al[i].second; }
		cppcms::service srv(cfg);
		cppcms::impl::file_server fs(srv,false);
		for(int len=0;len<=4;len++) {
			int idx[4]={0,0,0,0};
			for(;;) {
				for(int lead=0;lead<2;lead++) for(int trail=0;trail<2;trail++) {
					std::string P=lead?"/":"";
					for(int k=0;k<len;k++) { if(k) P+="/"; P+=seg[idx[k]]; }
					if(trail) P+="/";
					std::string N=spec_normalize(P);
					std::string root=box+"/root",rest=N; 
					for(size_t i=0;i<al.size();i++) if(comp_prefix(al[i].first,N)) { root=al[i].second; rest=N.substr(al[i].first.size()); if(rest.empty()) rest="/"; break; }
					bool want; std::string want_real;
					if(!symcheck) { want=true; want_real=root+rest; if(!want_real.empty() && want_real[want_real.size()-1]=='/') want_real.resize(want_real.size()-1); }
					else {
						char buf[PATH_MAX];
						if(!realpath((root+rest).c_str(),buf)) want=false;
						else { want_real=buf; want=comp_prefix(root,want_real); }
					}
					std::string real; bool got=fs.check_in_document_root(P,real);
					checked++;
					std::ostringstream m; m << "request [" << P << "] check_symlink=" << symcheck << " aliases=" << al.size() << ": ";
					if(got && !want) return replay_fail(m.str()+"accepted as ["+real+"], which is not inside the document root / alias target the request selects");
					if(!got && want) return replay_fail(m.str()+"rejected although it names ["+want_real+"] inside its root");
					if(got && real!=want_real) return replay_fail(m.str()+"mapped to ["+real+"], the property allows only ["+want_real+"]");
				}
				int k=len-1; while(k>=0 && ++idx[k]==nseg) { idx[k]=0; k--; }
				if(k<0) break;
			}
		}
	}
	std::ostringstream m; m << checked << " (request, configuration) pairs on the sandbox"; return replay_ok(m.str());
}
int main(int argc,char **argv)
{
	if(argc<3) return 2;
	std::string what=argv[1];
	witness w; if(!w.load(argv[2])) return 2;
	if(what=="normalize_path") {
		std::vector<unsigned char> &b=w.bufs["path"];
		std::string in(b.begin(),b.end()), p=in;
		cppcms::impl::file_server::normalize_path(p);
		std::string s=spec_normalize(in);
		std::cout << "normalize_path -> [" << p << "] reference [" << s << "]" << std::endl;
		if(p!=s) return replay_fail("normalize_path differs from the reference resolution of '.', '..' and '//'");
		return replay_ok();
	}
	if(what=="docroot") return sweep_docroot();
	return 2;
}
