// native replay for unit routing (C20): the REAL mount_point::match (src/mount_point.cpp), url_dispatcher (src/url_dispatcher.cpp)
// and booster::regex (booster/lib/regex/src/pcre_regex.cpp), working tree, against an independent oracle: std::regex
// (ECMAScript) whole-string matching on patterns both engines read the same way.
//  1. mount points: every combination of host / script / path patterns, group and selection over a grid of request triples:
//     selected iff every configured pattern matches the ENTIRE respective string; sub-path = the selected part or the
//     configured capture of its own match.
//  2. dispatcher: handlers registered in order with and without method filters; every (method, path) of a grid must reach
//     the FIRST handler whose pattern matches the whole path and whose filter matches the whole method, with the captured
//     group as argument, and none otherwise.
#include <sstream>
#include <vector>
#include <string>
#include <map>
#include <set>
#include <memory>
#include <iostream>
#include <regex>
#include "booster/lib/regex/src/pcre_regex.cpp"     // the working-tree sources, not the prebuilt libraries
#include "src/mount_point.cpp"
#include "src/url_dispatcher.cpp"
#include <cppcms/service.h>
#include <cppcms/application.h>
#include <cppcms/http_context.h>
#include <cppcms/http_response.h>
#include <cppcms/json.h>
#include "tests/dummy_api.h"
#include "replay_common.h"

static bool whole(std::string const &pat,std::string const &s,std::smatch &m) { std::regex r(pat,std::regex::ECMAScript); return std::regex_match(s,m,r); }
static bool whole(std::string const &pat,std::string const &s) { std::smatch m; return whole(pat,s,m); }
static int groups_of(std::string const &pat) { return (int)std::regex(pat).mark_count(); }

static int sweep_mount_points(long &checked,std::string &msg)
{
	char const *hostp[]={"","www\\.example\\.com","(www\\.)?example\\.(com|org)"};
	char const *scriptp[]={"","/foo","/foo(/.*)?","(/a|/ab)(/x)?"};
	char const *pathp[]={"","/bar","(/bar)(/.*)?","/a|/ab",".*\\.html"};
	char const *hosts[]={"www.example.com","example.org","wwwxexample.com","www.example.com.evil.org",""};
	char const *scripts[]={"","/foo","/foo/","/foo/x","/foobar","x/foo","/a","/ab/x","/abc"};
	char const *paths[]={"","/","/bar","/bar/","/bar/baz","/barx","x/bar","/a","/ab","/abc","index.html","index.htmlx"};
	for(int hi=0;hi<3;hi++) for(int si=0;si<4;si++) for(int pi=0;pi<5;pi++) for(int sel=0;sel<2;sel++) for(int group=0;group<3;group++) {
		std::string selpat = sel==0 ? pathp[pi] : scriptp[si];
		if(group>0 && (selpat.empty() || groups_of(selpat)<group)) continue;
		cppcms::mount_point mp(sel==0 ? cppcms::mount_point::match_path_info : cppcms::mount_point::match_script_name,
			*hostp[hi] ? booster::regex(hostp[hi]) : booster::regex(), *scriptp[si] ? booster::regex(scriptp[si]) : booster::regex(), *pathp[pi] ? booster::regex(pathp[pi]) : booster::regex(), group);
		for(int a=0;a<5;a++) for(int b=0;b<9;b++) for(int c=0;c<12;c++) {
			std::string h=hosts[a],s=scripts[b],p=paths[c];
			bool want = (!*hostp[hi] || whole(hostp[hi],h)) && (!*scriptp[si] || whole(scriptp[si],s)) && (!*pathp[pi] || whole(pathp[pi],p));
			std::string want_sub;
			if(want) {
				std::string const &part = sel==0 ? p : s;
				if(group==0 || selpat.empty()) want_sub=part; else { std::smatch m; whole(selpat,part,m); want_sub=m[group]; }
			}
			std::pair<bool,std::string> got=mp.match(h,s,p); checked++;
			if(got.first!=want || (want && got.second!=want_sub)) {
				std::ostringstream o; o << "mount point (host [" << hostp[hi] << "] script [" << scriptp[si] << "] path [" << pathp[pi] << "] " << (sel?"match_script_name":"match_path_info") << " group " << group << ") on request (host [" << h << "] script [" << s << "] path [" << p << "]): "
					<< (got.first ? "selected, sub-path ["+got.second+"]" : std::string("not selected")) << "; whole-string matching gives " << (want ? "selected, sub-path ["+want_sub+"]" : std::string("not selected"));
				msg=o.str(); return 1;
			}
		}
	}
	return 0;
}

struct rule { char const *method; char const *path; };
static rule const rules[]={
	{"(PUT|PATCH)","/item/(\\d+)"}, {"PROPPATCH","/item/(\\d+)"}, {"GET","/item/(\\d+)"}, {"","/item/(\\d+)/edit"}, {"POST","/(a|ab)"}, {"","/(a|ab)"}, {"(GET|HEAD)","/files(/.*)?"}, {"","/(.*)\\.html"},
};
static int const nrules=sizeof(rules)/sizeof(rules[0]);

class router : public cppcms::application {
public:
	router(cppcms::service &s) : cppcms::application(s), hit_(-1)
	{
		for(int i=0;i<nrules;i++) {
			if(*rules[i].method) dispatcher().map_generic(rules[i].method,booster::regex(rules[i].path),handler(this,i));
			else dispatcher().map_generic(booster::regex(rules[i].path),handler(this,i));
		}
	}
	struct handler { router *r; int i; handler(router *rr,int ii) : r(rr), i(ii) {} bool operator()(cppcms::application &,booster::cmatch const &m) const { r->hit_=i; r->arg_=m[1]; return true; } };
	std::string route(std::string const &method,std::string const &path,int &hit,std::string &arg)
	{
		std::map<std::string,std::string> env; env["HTTP_HOST"]="www.example.com"; env["SCRIPT_NAME"]="/app"; env["PATH_INFO"]=path; env["REQUEST_METHOD"]=method;
		booster::shared_ptr<dummy_api> api(new dummy_api(service(),env,output_));
		booster::shared_ptr<cppcms::http::context> cnt(new cppcms::http::context(api));
		assign_context(cnt);
		response().io_mode(cppcms::http::response::normal);
		hit_=-1; arg_.clear();
		bool found=dispatcher().dispatch(path);
		release_context(); output_.clear();
		hit=hit_; arg=arg_;
		if(found!=(hit_>=0)) return "dispatch() result and handler invocation disagree";
		return "";
	}
	int hit_; std::string arg_,output_;
};

static bool method_ok(char const *filter,std::string const &method)
{
	if(!*filter) return true;
	return whole(filter,method);     // an upper-case word is a pattern that matches exactly itself
}

static int sweep_dispatcher(cppcms::service &srv,long &checked,std::string &msg)
{
	router r(srv);
	char const *methods[]={"GET","HEAD","POST","PUT","PATCH","PROPPATCH","XPUT","PUTS","GETX","get","DELETE",""};
	char const *paths[]={"/item/1","/item/12/edit","/item/","/item/1x","x/item/1","/item/1/","/a","/ab","/abc","/files","/files/x/y","/filesx","/index.html","/index.htmlx","/x.html/","","/"};
	for(int a=0;a<12;a++) for(int b=0;b<17;b++) {
		std::string method=methods[a],path=paths[b];
		int want=-1; std::string want_arg;
		for(int i=0;i<nrules && want<0;i++) { std::smatch m; if(whole(rules[i].path,path,m) && method_ok(rules[i].method,method)) { want=i; want_arg=m[1]; } }
		int hit; std::string arg; std::string e=r.route(method,path,hit,arg); checked++;
		std::ostringstream o; o << "request " << (method.empty()?"<no method>":method) << " [" << path << "]: ";
		if(!e.empty()) { msg=o.str()+e; return 1; }
		if(hit!=want) {
			if(hit>=0) o << "reached handler #" << hit << " (" << rules[hit].method << " " << rules[hit].path << ")"; else o << "reached no handler";
			if(want>=0) o << ", the first whole-string match in registration order is #" << want << " (" << rules[want].method << " " << rules[want].path << ")"; else o << ", nothing matches it as a whole";
			msg=o.str(); return 1;
		}
		if(hit>=0 && arg!=want_arg) { msg=o.str()+"handler received ["+arg+"], the captured group is ["+want_arg+"]"; return 1; }
	}
	return 0;
}

int main(int argc,char **argv)
{
	if(argc<3) return 2;
	std::string what=argv[1];
	witness w; w.load(argv[2]);
	if(what!="routing") return 2;
	cppcms::json::value cfg; cfg["service"]["api"]="scgi"; cfg["service"]["socket"]="/var/tmp/cppcms-verif-replay20.sock"; cfg["service"]["worker_threads"]=1;
	cppcms::service srv(cfg);
	long checked=0; std::string msg;
	if(sweep_dispatcher(srv,checked,msg)) return replay_fail(msg);
	if(sweep_mount_points(checked,msg)) return replay_fail(msg);
	std::ostringstream o; o << checked << " routing decisions against the whole-string oracle"; return replay_ok(o.str());
}
