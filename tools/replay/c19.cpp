// native replay for unit archive (property C19): the REAL src/archive.cpp is
// compiled into this program; the witness archive is loaded with str() and the
// operation is run under ASan/UBSan.  A read outside the archive bytes is the violation.
#include "replay_common.h"
#include "src/archive.cpp"
#include <cppcms/archive_traits.h>
#include <stdint.h>

int main(int argc,char **argv)
{
	if(argc<3) return 2;
	std::string what=argv[1];
	witness w; if(!w.load(argv[2])) return 2;
	std::vector<unsigned char> &b=w.bufs["archive"];
	size_t n=b.size();
	size_t ptr=(size_t)w.vals["ptr"];
	if(ptr>n) ptr=n; // the cursor of a real archive never exceeds what earlier reads left; clamp for replay
	// independent reference: does a complete chunk start at ptr?
	bool fits=false; uint32_t sz=0;
	if(ptr<n && n-ptr>=4) { sz = b[ptr] | (b[ptr+1]<<8) | (b[ptr+2]<<16) | ((uint32_t)b[ptr+3]<<24); fits = sz <= n-ptr-4; }
	// exact-size heap string so that ASan sees any over-read: build archive content with the cursor at ptr by
	// prefixing nothing: we position the cursor by reading ptr bytes worth of chunks is not possible in general,
	// so construct the archive from the suffix [ptr,n) (cursor 0): chunk arithmetic is relative to the cursor.
	std::string content((char const *)(n?&b[0]:(unsigned char const*)""),n);
	std::string suffix=content.substr(ptr);
	suffix.shrink_to_fit();
	cppcms::archive a;
	a.str(suffix);
	bool thrown=false;
	try {
		if(what=="next_chunk_size") {
			size_t r=a.next_chunk_size();
			if(!fits) return replay_fail("next_chunk_size accepted a chunk that does not fit inside the archive (header announces more bytes than present)");
			if(r!=sz) return replay_fail("next_chunk_size returned a wrong size");
		}
		else if(what=="read_chunk_as_string") {
			std::string s=a.read_chunk_as_string();
			if(!fits) return replay_fail("read_chunk_as_string read a chunk that does not fit inside the archive");
			if(s!=suffix.substr(4,sz)) return replay_fail("read_chunk_as_string returned wrong bytes");
		}
		else if(what=="read_chunk") {
			size_t len=(size_t)w.vals["len"];
			std::vector<char> out(len+1);
			a.read_chunk(&out[0],len);
			if(!fits || sz!=len) return replay_fail("read_chunk accepted a chunk that does not fit / has another length");
			if(len && memcmp(&out[0],suffix.data()+4,len)!=0) return replay_fail("read_chunk returned wrong bytes");
		}
		else return 2;
	}
	catch(cppcms::archive_error const &e) { thrown=true; }
	if(thrown && fits && (what!="read_chunk" || sz==(size_t)w.vals["len"])) return replay_fail("a complete chunk was rejected");
	return replay_ok();
}
