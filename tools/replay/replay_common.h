// common witness reader for native replayers (tools/replay/*.cpp).
// witness text file: lines "buf <name> <len> <hex bytes...>" and "val <name> <int>"
#ifndef REPLAY_COMMON_H
#define REPLAY_COMMON_H
#include <map>
#include <string>
#include <vector>
#include <fstream>
#include <sstream>
#include <iostream>
#include <cstdio>
#include <cstdlib>
struct witness {
	std::map<std::string,std::vector<unsigned char> > bufs;
	std::map<std::string,long long> vals;
	bool load(char const *path) {
		std::ifstream f(path);
		if(!f) return false;
		std::string line;
		while(std::getline(f,line)) {
			std::istringstream ss(line);
			std::string kind,name; ss >> kind >> name;
			if(kind=="buf") { size_t n; ss >> n; std::vector<unsigned char> v; for(size_t i=0;i<n;i++){ std::string h; ss >> h; v.push_back((unsigned char)strtoul(h.c_str(),0,16)); } bufs[name]=v; }
			else if(kind=="val") { long long v; ss >> v; vals[name]=v; }
		}
		return true;
	}
	// an exactly-sized heap copy so ASan sees over-reads
	char *heap(std::string const &name,size_t &n) { std::vector<unsigned char> &v=bufs[name]; n=v.size(); char *p=(char*)malloc(n?n:1); if(n==0){ free(p); p=(char*)malloc(0);} for(size_t i=0;i<n;i++) p[i]=(char)v[i]; return p; }
};
static int replay_fail(std::string const &msg) { std::cout << "REPLAY-VIOLATION: " << msg << std::endl; return 1; }
static int replay_ok(std::string const &msg="") { std::cout << "REPLAY-OK " << msg << std::endl; return 0; }
#endif
