// native replay for unit request (C12): the REAL cppcms::http::request (src/http_request.cpp + private/multipart_parser.h, working tree)
// fed multipart/form-data bodies through prepare / on_content_start / get_buffer / on_content_progress exactly as
// connection::load_content does, under many read-buffer sizes.  Oracle, from the property: a well-formed body within the
// limits is delivered byte for byte (form fields through post(), parts with a MIME type through files()) whatever the
// chunking; a form field over content_length_limit, a body that ends early, goes on after its final boundary or is
// malformed is refused with 413 / 400 and never becomes ready - identically for every chunking.
#include <sstream>
#include <vector>
#include <string>
#include <map>
#include <memory>
#include <iostream>
#include <cppcms/http_request.h>
#include "src/http_request.cpp"   // the working-tree source, not the prebuilt library
#include "src/scgi_api.cpp"
#include "replay_common.h"
#include <cppcms/service.h>
#include <cppcms/http_file.h>
#include <cppcms/json.h>
using namespace cppcms::impl::cgi;

static unsigned long long rnd_state=88172645463325252ull;
static unsigned long long rnd() { rnd_state^=rnd_state<<13; rnd_state^=rnd_state>>7; rnd_state^=rnd_state<<17; return rnd_state; }

struct part { std::string name,filename,mime,content; };

static std::string encode(std::vector<part> const &ps,std::string const &b)
{
	std::string r;
	for(size_t i=0;i<ps.size();i++) {
		r+="--"+b+"\r\nContent-Disposition: form-data; name=\""+ps[i].name+"\"";
		if(!ps[i].filename.empty()) r+="; filename=\""+ps[i].filename+"\"";
		r+="\r\n";
		if(!ps[i].mime.empty()) r+="Content-Type: "+ps[i].mime+"\r\n";
		r+="\r\n"+ps[i].content+"\r\n";
	}
	r+="--"+b+"--\r\n";
	return r;
}

// returns the first non-zero status (or 0), sets ready
static int feed(cppcms::service &srv,std::string const &body,long long declared,std::string const &boundary,size_t chunk,long long field_limit,
		bool &ready,std::map<std::string,std::string> &post,std::vector<std::pair<std::string,std::string> > &files,std::string &err)
{
	booster::shared_ptr<scgi> c(new scgi(srv));
	std::ostringstream cl; cl << declared;
	c->env_.add(c->pool_.add("CONTENT_LENGTH"),c->pool_.add(cl.str().c_str()));
	c->env_.add(c->pool_.add("CONTENT_TYPE"),c->pool_.add(("multipart/form-data; boundary="+boundary).c_str()));
	c->env_.add(c->pool_.add("QUERY_STRING"),c->pool_.add(""));
	c->env_.add(c->pool_.add("REQUEST_METHOD"),c->pool_.add("POST"));
	cppcms::http::request req(*c);
	ready=false;
	try {
		req.prepare();
		req.limits().content_length_limit(field_limit);
		req.limits().multipart_form_data_limit(1000000);
		req.setbuf((int)chunk);
		int r=req.on_content_start();
		if(r) return r;
		size_t pos=0;
		while(pos<body.size()) {
			std::pair<char *,size_t> b=req.get_buffer();
			if(b.second==0) break;                              // the request does not want more than it declared
			size_t n=body.size()-pos; if(n>b.second) n=b.second;
			memcpy(b.first,body.data()+pos,n); pos+=n;
			r=req.on_content_progress(n);
			if(r) return r;
			if(req.is_ready()) break;
		}
		ready=req.is_ready();
		if(ready) {
			for(cppcms::http::request::form_type::const_iterator p=req.post().begin();p!=req.post().end();++p) post[p->first]=p->second;
			cppcms::http::request::files_type fs=req.files();
			for(size_t i=0;i<fs.size();i++) { std::ostringstream ss; ss << fs[i]->data().rdbuf(); files.push_back(std::make_pair(fs[i]->name(),ss.str())); }
		}
		return 0;
	}
	catch(std::exception const &e) { err=e.what(); return -1; }
}

int main(int argc,char **argv)
{
	if(argc<3) return 2;
	std::string what=argv[1];
	witness w; w.load(argv[2]);
	rnd_state+=(unsigned long long)w.vals["seed"];
	if(what!="limits") return 2;
	cppcms::json::value cfg; cfg["service"]["api"]="scgi"; cfg["service"]["socket"]="/var/tmp/cppcms-verif-replay12.sock"; cfg["service"]["worker_threads"]=1;
	cppcms::service srv(cfg);
	size_t chunks[]={1,2,3,7,16,50,64,101,128,512,4096,65536};
	size_t sizes[]={0,1,99,100,101,130,300,5000};
	std::string boundary="XyZ123";
	long checked=0;
	for(int si=0;si<8;si++) for(int mime=0;mime<2;mime++) for(int extra=0;extra<2;extra++) {
		std::vector<part> ps;
		part f; f.name="f"; for(size_t i=0;i<sizes[si];i++) f.content+=(char)('a'+rnd()%26);
		if(sizes[si]>=40) f.content.replace(10,12,"\r\n--XyZ12\r\n-");                     // a boundary look-alike inside the content
		if(mime) { f.mime="application/octet-stream"; f.filename="x.bin"; }
		if(extra) { part g; g.name="g"; g.content="small"; ps.push_back(g); }
		ps.push_back(f);
		std::string body=encode(ps,boundary);
		bool over = !mime && f.content.size()>100;
		for(int ci=0;ci<12;ci++) {
			std::ostringstream where; where << "[field of " << f.content.size() << " bytes" << (mime?" with a MIME type (a file)":"") << (extra?", after a small field":"") << ", content_length_limit 100, read buffer " << chunks[ci] << "] ";
			bool ready; std::map<std::string,std::string> post; std::vector<std::pair<std::string,std::string> > files; std::string err;
			int r=feed(srv,body,(long long)body.size(),boundary,chunks[ci],100,ready,post,files,err); checked++;
			if(r==-1) return replay_fail(where.str()+"exception: "+err);
			if(over) {
				if(r!=413 || ready) { std::ostringstream o; o << "a form field over the limit must be refused with 413 whatever the chunking: status " << r << (ready?", request ready":"") << (post.count("f")?", field DELIVERED through post()":""); return replay_fail(where.str()+o.str()); }
				continue;
			}
			if(r!=0 || !ready) { std::ostringstream o; o << "a well-formed body within the limits was refused or left incomplete: status " << r; return replay_fail(where.str()+o.str()); }
			if(extra && post["g"]!="small") return replay_fail(where.str()+"the first field was not delivered exactly");
			if(!mime) { if(!post.count("f") || post["f"]!=f.content) return replay_fail(where.str()+"the field was not delivered byte for byte"); }
			else { if(files.size()!=1 || files[0].first!="f" || files[0].second!=f.content) return replay_fail(where.str()+"the file was not delivered byte for byte"); }
		}
	}
	// declared length vs parser end
	{
		std::vector<part> ps; part f; f.name="f"; f.content="hello world"; ps.push_back(f);
		std::string good=encode(ps,boundary);
		struct { char const *what; std::string body; } bad[]={
			{"bytes after the final boundary",good+"trailing garbage"},
			{"body cut before the final boundary",good.substr(0,good.size()-12)},
			{"content without the closing boundary",good.substr(0,good.size()-10)+"0123456789"},
			{"no boundary at all",std::string(good.size(),'x')},
		};
		for(int k=0;k<4;k++) for(int ci=0;ci<12;ci++) {
			bool ready; std::map<std::string,std::string> post; std::vector<std::pair<std::string,std::string> > files; std::string err;
			int r=feed(srv,bad[k].body,(long long)bad[k].body.size(),boundary,chunks[ci],100,ready,post,files,err); checked++;
			std::ostringstream where; where << "[" << bad[k].what << ", read buffer " << chunks[ci] << "] ";
			if(r==-1) return replay_fail(where.str()+"exception: "+err);
			if(r!=400 || ready) { std::ostringstream o; o << "a malformed body must be refused with 400: status " << r << (ready?", request ready":""); return replay_fail(where.str()+o.str()); }
		}
	}
	std::ostringstream o; o << checked << " (body, read buffer size) runs through the real http::request"; return replay_ok(o.str());
}
