// native replay for unit utf8 / validators (property C14): runs the REAL code
// from the repository on the verifier's witness and evaluates the same
// postcondition, with the RFC 3629 spec taken from /verif/prelude/utf8_spec.h.
#include "replay_common.h"
#include <stdint.h>
#include <stddef.h>
#include "../../prelude/utf8_spec.h"
#include <cppcms/defs.h>
#include "utf_iterator.h"
#include "encoding_validators.h"
#include <booster/locale/utf.h>

int main(int argc,char **argv)
{
	if(argc<3) return 2;
	std::string what=argv[1];
	witness w; if(!w.load(argv[2])) return 2;
	using namespace cppcms;
	if(what=="utf_valid") {
		uint32_t v=w.vals["v"];
		bool spec = v<=0x10FFFF && !(v>=0xD800 && v<=0xDFFF);
		return utf::valid(v)==spec ? replay_ok() : replay_fail("utf::valid disagrees with RFC 3629 scalar range");
	}
	if(what=="utf8_trail_length") {
		unsigned char c=w.vals["c"];
		int spec = c<=0x7F ? 0 : (c>=0xC2 && c<=0xDF) ? 1 : (c>=0xE0 && c<=0xEF) ? 2 : (c>=0xF0 && c<=0xF4) ? 3 : -1;
		return utf8::trail_length(c)==spec ? replay_ok() : replay_fail("utf8::trail_length disagrees with RFC 3629 lead byte classes");
	}
	if(what=="utf8_width") {
		uint32_t v=w.vals["v"];
		int spec = v<=0x7F ? 1 : v<=0x7FF ? 2 : v<=0xFFFF ? 3 : 4;
		return utf8::width(v)==spec ? replay_ok() : replay_fail("utf8::width disagrees with RFC 3629 section 3");
	}
	if(what=="utf8_encode") {
		uint32_t v=w.vals["v"];
		utf8::seq s=utf8::encode(v);
		if(s.len<1 || s.len>4 || spec_u8_len(s.c,s.len)!=s.len || spec_u8_cp(s.c,s.len)!=v) return replay_fail("utf8::encode output does not decode to the value");
		return replay_ok();
	}
	if(what=="utf8_next" || what=="bl_decode") {
		size_t n; char *b=w.heap("in",n); bool html=w.vals["html"]!=0;
		char const *p=b; char const *e=b+n;
		bool ok; uint32_t r;
		if(what=="utf8_next") { r=utf8::next(p,e,html); ok = r!=utf::illegal; }
		else { html=false; r=booster::locale::utf::utf_traits<char>::decode(p,e); ok = r!=booster::locale::utf::illegal && r!=booster::locale::utf::incomplete; }
		bool sok=spec_u8_seq_ok(b,n,html);
		if(ok!=sok) return replay_fail("decoder accepts/rejects differently from RFC 3629");
		if(ok) { unsigned len=spec_u8_len(b,n); if(r!=spec_u8_cp(b,len) || size_t(p-b)!=len) return replay_fail("decoder value/length differs from RFC 3629"); }
		if(p<b || p>e || p-b>4 || (n>0 && p==b)) return replay_fail("cursor out of range / no progress");
		return replay_ok();
	}
	if(what=="utf8_validate") {
		size_t n; char *b=w.heap("in",n); bool html=w.vals["html"]!=0;
		size_t count=0;
		bool r=utf8::validate(b,b+n,count,html);
		// reference: iterate the spec
		size_t pos=0,cps=0; bool sok=true;
		while(pos<n) { if(!spec_u8_seq_ok(b+pos,n-pos,html)) { sok=false; break; } pos+=spec_u8_len(b+pos,n-pos); cps++; }
		if(r!=sok) return replay_fail("utf8::validate verdict differs from RFC 3629 tiling");
		if(r && count!=cps) return replay_fail("utf8::validate count differs from number of code points");
		return replay_ok();
	}
	if(what.compare(0,3,"sb:")==0) {
		// single byte validators: routine name "sb:<validator>"
		typedef bool (*tester)(char const *,char const *,size_t &);
		std::map<std::string,tester> t;
		using namespace cppcms::encoding;
		t["ascii_valid"]=&ascii_valid<char const *>;
		t["iso_8859_1_2_4_5_9_10_13_14_15_16_valid"]=&iso_8859_1_2_4_5_9_10_13_14_15_16_valid<char const *>;
		t["iso_8859_3_valid"]=&iso_8859_3_valid<char const *>; t["iso_8859_6_valid"]=&iso_8859_6_valid<char const *>;
		t["iso_8859_7_valid"]=&iso_8859_7_valid<char const *>; t["iso_8859_8_valid"]=&iso_8859_8_valid<char const *>;
		t["iso_8859_11_valid"]=&iso_8859_11_valid<char const *>;
		t["windows_1250_valid"]=&windows_1250_valid<char const *>; t["windows_1251_valid"]=&windows_1251_valid<char const *>;
		t["windows_1252_valid"]=&windows_1252_valid<char const *>; t["windows_1253_valid"]=&windows_1253_valid<char const *>;
		t["windows_1254_valid"]=&windows_1254_valid<char const *>; t["windows_1255_valid"]=&windows_1255_valid<char const *>;
		t["windows_1256_valid"]=&windows_1256_valid<char const *>; t["windows_1257_valid"]=&windows_1257_valid<char const *>;
		t["windows_1258_valid"]=&windows_1258_valid<char const *>; t["koi8_valid"]=&koi8_valid<char const *>;
		std::string name=what.substr(3);
		if(!t.count(name)) return 2;
		bool iso = name.compare(0,3,"iso")==0;
		size_t n; char *b=w.heap("in",n);
		size_t count=0; bool r=t[name](b,b+n,count);
		// property C14: printable ASCII + TAB LF CR accepted, other C0/DEL (ISO: C1) rejected, each byte on its own
		bool all_single=true; bool has_forbidden=false, all_ascii_ok=true;
		for(size_t i=0;i<n;i++) {
			unsigned char c=b[i]; size_t k=0;
			bool single=t[name](b+i,b+i+1,k);
			if(!single) all_single=false;
			bool forbidden = (c<0x20 && c!=9 && c!=10 && c!=13) || c==0x7F || (iso && c>=0x80 && c<=0x9F);
			bool printable = (c>=0x20 && c<=0x7E) || c==9 || c==10 || c==13;
			if(forbidden && single) return replay_fail("validator accepts a control byte");
			if(printable && !single) return replay_fail("validator rejects printable ASCII");
		}
		if(r!=all_single) return replay_fail("verdict on the string differs from the per-byte verdicts (context dependence)");
		if(r && count!=n) return replay_fail("count differs from number of bytes");
		return replay_ok();
	}
	return 2;
}
