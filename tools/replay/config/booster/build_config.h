//
//  Copyright (C) 2009-2012 Artyom Beilis (Tonkikh)
//
//  Distributed under the Boost Software License, Version 1.0. (See
//  accompanying file LICENSE_1_0.txt or copy at
//  http://www.boost.org/LICENSE_1_0.txt)
//
#ifndef BOOSTER_BUILD_CONFIG_H
#define BOOSTER_BUILD_CONFIG_H

//
// Have <stdint.h>
//

#define BOOSTER_HAVE_STDINT_H

//
// Have <inttypes.h>
//

#define BOOSTER_HAVE_INTTYPES_H

//
// Have IPv6 support
//

#define BOOSTER_AIO_HAVE_PF_INET6
 
#define BOOSTER_HAVE_EXECINFO

#define BOOSTER_HAVE_UNWIND_BACKTRACE

/* #undef BOOSTER_HAVE_UNWIND_BACKTRACE_BUILTIN */
/* Define to module suffix. */
#define BOOSTER_LIBRARY_SUFFIX ".so"

/* Define to module suffix. */
#define BOOSTER_LIBRARY_PREFIX "lib"

#endif
