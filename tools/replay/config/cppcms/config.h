///////////////////////////////////////////////////////////////////////////////
//                                                                             
//  Copyright (C) 2008-2012  Artyom Beilis (Tonkikh) <artyomtnk@yahoo.com>     
//                                                                             
//  See accompanying file COPYING.TXT file for licensing details.
//
///////////////////////////////////////////////////////////////////////////////
#ifndef CPPCMS_CONFIG_H
#define CPPCMS_CONFIG_H

/* Have stdint.h */
#define CPPCMS_HAVE_STDINT_H

/* Have _atol64 */
/* #undef CPPCMS_HAVE_ATOI64 */

/* Have atoll */
#define CPPCMS_HAVE_ATOLL

#if !defined(CPPCMS_HAVE_ATOLL) && defined(CPPCMS_HAVE_ATOI64)
#define atoll _atoi64
#endif

/* Have stat */

#define CPPCMS_HAVE_STAT

/* Have _stat */

/* #undef CPPCMS_HAVE__STAT */

/* Have tm.tm_zone */

#define CPPCMS_HAVE_BSD_TM

/* Have snprintf */
#define CPPCMS_HAVE_SNPRINTF


/* Have inttypes.h */
#define CPPCMS_HAVE_INTTYPES_H

/* "Have C++0x std::uXXstring" */
#define CPPCMS_HAVE_CPP0X_UXSTRING

#ifdef CPPCMS_HAVE_CPP0X_UXSTRING
# define CPPCMS_HAS_CHAR16_T
# define CPPCMS_HAS_CHAR32_T
#endif

/* "Have C++0x auto" */
#define CPPCMS_HAVE_CPP_0X_AUTO

/* "Have C++0x decltype" */
#define CPPCMS_HAVE_CPP_0X_DECLTYPE

/* "Have g++ typeof" */
/* #undef CPPCMS_HAVE_GCC_TYPEOF */

/* "Enable ICU support" */
/* #undef CPPCMS_HAVE_ICU */

/* Use STD locales instead of ICU ones */
/* #undef CPPCMS_DISABLE_ICU_LOCALIZATION */

/* "Enable ICONV support" */
/* #undef CPPCMS_HAVE_ICONV */

/* "Enable GNU GCrypt library */
/* #undef CPPCMS_HAVE_GCRYPT */

/* "Enable OpenSSL library */
#define CPPCMS_HAVE_OPENSSL

/* "Have std::wstring" */
#define CPPCMS_HAVE_STD_WSTRING

#ifndef CPPCMS_HAVE_STD_WSTRING
# define CPPCMS_NO_STD_WSTRING
#endif 

/* Have canonicalize_file_name */

#define CPPCMS_HAVE_CANONICALIZE_FILE_NAME

/* "Have g++ typeof" */
#define CPPCMS_HAVE_UNDERSCORE_TYPEOF

/* Define to the full name of this package. */
#define CPPCMS_PACKAGE_NAME "CppCMS"

/* Define to the full name and version of this package. */
#define CPPCMS_PACKAGE_STRING "CppCMS/2.0.0.beta2"

/* Define to the version of this package. */
#define CPPCMS_PACKAGE_VERSION "2.0.0.beta2"

/* Define to module suffix. */
#define CPPCMS_LIBRARY_SUFFIX ".so"

/* Define to module suffix. */
#define CPPCMS_LIBRARY_PREFIX "lib"

#define CPPCMS_HAS_FCGI
#define CPPCMS_HAS_SCGI
#define CPPCMS_HAS_HTTP
/* #undef CPPCMS_NO_TCP_CACHE */
/* #undef CPPCMS_NO_CACHE */
/* #undef CPPCMS_NO_PREFOK_CACHE */
/* #undef CPPCMS_NO_GZIP */
/* #undef CPPCMS_SQLITE_LINK_STATIC */
#define CPPCMS_HAS_THREAD_PSHARED
/* #undef CPPCMS_HAVE_FSEEKI64 */
#define CPPCMS_HAVE_FSEEKO


#endif
