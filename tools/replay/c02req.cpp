// native replay for unit request (C02/C12): the REAL cppcms::http::request from libcppcms driven through a real
// SCGI connection object; the peer-supplied CONTENT_LENGTH of the witness is put into the connection environment.
// The caller of on_content_start (connection::load_content, run from the event loop) has no try/catch, so an
// exception escaping on_content_start is the failure.
#include <sstream>
#include <vector>
#include <string>
#include <map>
#include <memory>
#define private public
#define protected public
#include <cppcms/http_request.h>
#include "src/http_request.cpp"   // the working-tree source, not the prebuilt library
#include "src/scgi_api.cpp"
#undef private
#undef protected
#include "replay_common.h"
#include <cppcms/service.h>
#include <cppcms/json.h>
using namespace cppcms::impl::cgi;
int main(int argc,char **argv)
{
	if(argc<3) return 2;
	std::string what=argv[1];
	witness w; if(!w.load(argv[2])) return 2;
	cppcms::json::value cfg; cfg["service"]["api"]="scgi"; cfg["service"]["socket"]="/var/tmp/cppcms-verif-replay.sock"; cfg["service"]["worker_threads"]=1;
	cppcms::service srv(cfg);
	booster::shared_ptr<scgi> c(new scgi(srv));
	std::ostringstream cl; cl << (long long)w.vals["content_length"];
	c->env_.add(c->pool_.add("CONTENT_LENGTH"),c->pool_.add(cl.str().c_str()));
	c->env_.add(c->pool_.add("CONTENT_TYPE"),c->pool_.add(w.vals["is_multipart"] ? "multipart/form-data; boundary=xyz" : "application/x-www-form-urlencoded"));
	c->env_.add(c->pool_.add("QUERY_STRING"),c->pool_.add(""));
	cppcms::http::request req(*c);
	try {
		req.prepare();
		int r=req.on_content_start();
		std::cout << "on_content_start returned " << r << std::endl;
		if(r!=0 && r!=400 && r!=413) return replay_fail("unexpected status");
		if(r==0 && (long long)w.vals["content_length"]<0) return replay_fail("negative Content-Length accepted");
	}
	catch(std::exception const &e) {
		return replay_fail(std::string("exception escapes request::on_content_start into the event loop: ")+e.what());
	}
	return replay_ok();
}
