// native replay for unit sesssid (C06): the REAL src/session_sid.cpp compiled into this program.
#include <string>
#include <sstream>
#include <memory>
#include <map>
#define private public
#define protected public
#include "src/session_sid.cpp"
#undef private
#undef protected
#include "replay_common.h"
int main(int argc,char **argv)
{
	if(argc<3) return 2;
	std::string what=argv[1];
	witness w; if(!w.load(argv[2])) return 2;
	if(what=="valid_sid") {
		std::vector<unsigned char> &b=w.bufs["cookie"];
		std::string cookie(b.begin(),b.end()),id="untouched";
		cppcms::sessions::session_sid s((booster::shared_ptr<cppcms::sessions::session_storage>()));
		bool r=s.valid_sid(cookie,id);
		bool spec = cookie.size()==33 && cookie[0]=='I';
		for(size_t i=1;spec && i<33;i++) { char c=cookie[i]; if(!(('0'<=c&&c<='9')||('a'<=c&&c<='f'))) spec=false; }
		if(r!=spec) return replay_fail("valid_sid accepts/rejects differently from the language I[0-9a-f]{32}");
		if(r && id!=cookie.substr(1)) return replay_fail("valid_sid hands on a different identifier");
		if(!r && id!="untouched") return replay_fail("rejected cookie modified the id");
		return replay_ok();
	}
	return 2;
}
