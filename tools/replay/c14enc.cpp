// native replay for the filter functions of src/encoding.cpp (anonymous
// namespace => the real .cpp is included into this translation unit).
#include "replay_common.h"
#include <stdint.h>
#include <stddef.h>
#include "../../prelude/utf8_spec.h"
#include "src/encoding.cpp"

static bool spec_valid_u8(std::string const &s)
{
	size_t pos=0;
	while(pos<s.size()) { if(!spec_u8_seq_ok(s.data()+pos,s.size()-pos,true)) return false; pos+=spec_u8_len(s.data()+pos,s.size()-pos); }
	return true;
}
int main(int argc,char **argv)
{
	if(argc<3) return 2;
	std::string what=argv[1];
	witness w; if(!w.load(argv[2])) return 2;
	if(what=="filter_utf8") {
		size_t n; char *b=w.heap("in",n); char repl=(char)w.vals["repl"];
		std::string in(b,n);
		std::string out="untouched";
		bool r=cppcms::encoding::validate_or_filter_utf8(b,b+n,out,repl);
		if(r!=spec_valid_u8(in)) return replay_fail("verdict differs from RFC 3629 / HTML-safe validity");
		if(r && out!="untouched") return replay_fail("valid input but output was modified");
		if(!r && !spec_valid_u8(out)) return replay_fail("filtered text is not valid");
		return replay_ok();
	}
	if(what.compare(0,10,"filter_sb:")==0) {
		std::string enc=what.substr(10);
		size_t n; char *b=w.heap("in",n); char repl=(char)w.vals["repl"];
		cppcms::encoding::impl::validators_set::encoding_tester_type t=cppcms::encoding::impl::all_validators.get(enc);
		if(!t) return 2;
		std::string out="untouched"; size_t c=0;
		bool valid_in=t(b,b+n,c);
		bool r=cppcms::encoding::validate_or_filter_single_byte_charset(t,b,b+n,out,repl);
		if(r!=valid_in) return replay_fail("verdict differs from validator");
		if(r && out!="untouched") return replay_fail("valid input but output was modified");
		c=0;
		if(!r && !t(out.data(),out.data()+out.size(),c)) return replay_fail("filtered text is not valid");
		return replay_ok();
	}
	return 2;
}
