// native replay for unit respout (C03): the REAL connection classes of src/cgi_api.cpp + src/scgi_api.cpp + src/fastcgi_api.cpp
// (working tree) write a response through nonblocking_write into a socketpair whose send buffer is tiny, so the kernel
// accepts arbitrary prefixes and reports would-block; the peer drains in random amounts.  The bytes the peer received
// must be: SCGI  -> header block ++ body;  FastCGI -> well-formed STDOUT records whose payloads concatenate to header
// block ++ body, then an empty STDOUT record and END_REQUEST.  The replayer sweeps write patterns itself.
#include <sstream>
#include <vector>
#include <string>
#include <map>
#include <memory>
#include <iostream>
#include <sys/types.h>
#include <sys/socket.h>
#include <unistd.h>
#include <fcntl.h>
#include <errno.h>
#define private public
#define protected public
#include "src/cgi_api.cpp"
#include "src/scgi_api.cpp"
#include "src/fastcgi_api.cpp"
#undef private
#undef protected
#include "replay_common.h"
#include <cppcms/service.h>
#include <cppcms/json.h>
using namespace cppcms::impl::cgi;

static unsigned long long rnd_state=88172645463325252ull;
static unsigned long long rnd() { rnd_state^=rnd_state<<13; rnd_state^=rnd_state>>7; rnd_state^=rnd_state<<17; return rnd_state; }

static void drain(int fd,std::string &got,size_t max)
{
	std::vector<char> b(max?max:1);
	for(;;) {
		ssize_t n=recv(fd,&b[0],b.size(),MSG_DONTWAIT);
		if(n<=0) return;
		got.append(&b[0],n);
		if(max) return;
	}
}

static void set_headers(scgi &c,std::string const &h) { c.headers_=h; c.headers_written_=false; }
static void set_headers(fastcgi &c,std::string const &h) { c.response_headers_=h; c.response_headers_written_=false; c.request_id_=1+(int)(rnd()%65000); }

static int req_id(scgi &) { return 0; }
static int req_id(fastcgi &c) { return c.request_id_; }

template<typename Conn>
static int run_one(cppcms::service &srv,bool is_fcgi,int pattern,std::string &msg)
{
	int sv[2];
	if(socketpair(AF_UNIX,SOCK_STREAM,0,sv)!=0) { msg="socketpair failed"; return 2; }
	int small=4096; setsockopt(sv[0],SOL_SOCKET,SO_SNDBUF,&small,sizeof(small)); setsockopt(sv[1],SOL_SOCKET,SO_RCVBUF,&small,sizeof(small));
	booster::shared_ptr<Conn> c(new Conn(srv));
	c->socket_.assign(sv[0]);
	std::string headers="Content-Type: text/plain\r\nX-Test: 1\r\n\r\n";
	set_headers(*c,headers);
	std::string want=headers,got; int my_rid=req_id(*c);
	std::vector<std::vector<char> > keep;   // const_buffer only points to the data: keep every chunk alive
	int nwrites=1+rnd()%8;
	for(int i=0;i<nwrites;i++) {
		size_t len;
		switch((pattern+i)%6) { case 0: len=0; break; case 1: len=1+rnd()%10; break; case 2: len=65535; break; case 3: len=65536+rnd()%3; break; case 4: len=rnd()%200000; break; default: len=131070+rnd()%4; }
		keep.push_back(std::vector<char>(len?len:1));
		std::vector<char> &d=keep.back();
		for(size_t k=0;k<len;k++) d[k]=(char)(rnd()>>11);
		want.append(&d[0],len);
		bool last=(i==nwrites-1);
		booster::system::error_code e;
		booster::aio::const_buffer buf; if(len) buf=booster::aio::buffer(&d[0],len);
		bool r=c->nonblocking_write(buf,last,e);
		if(e) { std::ostringstream m; m << "nonblocking_write reported an error: " << e.message(); msg=m.str(); close(sv[1]); return 1; }
		int guard=0;
		while(!r && guard++<100000) {
			// would-block: the peer reads an arbitrary amount, then the pending output is flushed (as async_write_handler does)
			drain(sv[1],got,1+rnd()%20000);
			r=c->nonblocking_write(booster::aio::const_buffer(),false,e);
			if(e) { msg="flush reported an error: "+e.message(); close(sv[1]); return 1; }
		}
		if(!r) { msg="pending output never drained"; close(sv[1]); return 1; }
		if(c->has_pending()) { msg="nonblocking_write returned true with output still pending"; close(sv[1]); return 1; }
		if(rnd()%2) drain(sv[1],got,1+rnd()%50000);
	}
	drain(sv[1],got,0);
	c->socket_.close();          // closes sv[0]
	drain(sv[1],got,0);
	close(sv[1]);
	std::string body;
	if(!is_fcgi) body=got;
	else {
		// decode FastCGI records
		size_t p=0; bool seen_empty_stdout=false,seen_end=false;
		while(p<got.size()) {
			if(got.size()-p<8) { msg="truncated record header"; return 1; }
			unsigned char const *h=(unsigned char const *)got.data()+p;
			unsigned ver=h[0],type=h[1],rid=(h[2]<<8)|h[3],len=(h[4]<<8)|h[5],pad=h[6];
			if(ver!=1) { std::ostringstream m; m << "record at " << p << ": version " << ver; msg=m.str(); return 1; }
			if(rid!=(unsigned)(my_rid&0xffff)) { msg="record with a foreign request id"; return 1; }
			if(got.size()-p-8<len+pad) { msg="record announces more bytes than were sent"; return 1; }
			if(seen_end) { msg="bytes after END_REQUEST"; return 1; }
			if(type==6) {
				if(seen_empty_stdout) { msg="STDOUT record after the empty STDOUT record"; return 1; }
				if(len==0) seen_empty_stdout=true;
				body.append(got,p+8,len);
			}
			else if(type==3) {
				if(!seen_empty_stdout || len!=8) { msg="END_REQUEST malformed or before end of STDOUT"; return 1; }
				for(unsigned k=0;k<8;k++) if(got[p+8+k]!=0) { msg="END_REQUEST body not app_status 0 / REQUEST_COMPLETE"; return 1; }
				seen_end=true;
			}
			else { std::ostringstream m; m << "unexpected record type " << type << " at offset " << p; msg=m.str(); return 1; }
			for(unsigned k=0;k<pad;k++) if(got[p+8+len+k]!=0) { msg="non-zero padding"; return 1; }
			p+=8+len+pad;
		}
		if(!seen_end) { msg="no END_REQUEST at the end of the response"; return 1; }
	}
	if(body!=want) {
		size_t k=0; while(k<body.size() && k<want.size() && body[k]==want[k]) k++;
		std::ostringstream m; m << "peer received " << body.size() << " body bytes, application wrote " << want.size() << "; first difference at offset " << k << " (pattern " << pattern << ", " << nwrites << " writes)";
		msg=m.str(); return 1;
	}
	return 0;
}

int main(int argc,char **argv)
{
	if(argc<3) return 2;
	std::string what=argv[1];
	witness w; w.load(argv[2]);
	rnd_state+=(unsigned long long)w.vals["seed"];
	cppcms::json::value cfg; cfg["service"]["api"]="scgi"; cfg["service"]["socket"]="/var/tmp/cppcms-verif-replay.sock"; cfg["service"]["worker_threads"]=1;
	cppcms::service srv(cfg);
	std::string msg;
	if(what=="stream") {
		for(int pattern=0;pattern<60;pattern++) {
			int r;
			r=run_one<scgi>(srv,false,pattern,msg);
			if(r) return replay_fail("scgi: "+msg);
			r=run_one<fastcgi>(srv,true,pattern,msg);
			if(r) return replay_fail("fastcgi: "+msg);
		}
		return replay_ok("60 write patterns x {scgi, fastcgi} through a 4 KiB socket buffer");
	}
	return 2;
}
