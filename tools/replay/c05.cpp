// native replay for unit sesscrypto (C05): the REAL client-side session stack -- session_interface over session_cookies
// (src/session_cookies.cpp), hmac_cipher / aes_cipher (src/hmac_encryptor.cpp, src/aes_encryptor.cpp) and base64url, working
// tree -- through the cookie-adapter interface, without a network.  For every configured encryptor: save a session, then
// present (a) the genuine cookie (must load the saved values), (b) every single-bit flip of it, every truncation, a range
// of extensions, block swaps, splices of two genuine cookies, a cookie made under another key / algorithm and arbitrary
// strings (must be rejected without crashing, the cookie cleared, no value visible), (c) an expired genuine cookie.
#include <sstream>
#include <vector>
#include <string>
#include <map>
#include <set>
#include <memory>
#include <iostream>
#include <time.h>
#include <unistd.h>
#include "src/session_cookies.cpp"     // the working-tree sources, not the prebuilt library
#include "src/hmac_encryptor.cpp"
#include "src/aes_encryptor.cpp"
#include "src/session_interface.cpp"
#include <cppcms/session_interface.h>
#include <cppcms/session_pool.h>
#include <cppcms/http_cookie.h>
#include <cppcms/json.h>
#include "replay_common.h"

static unsigned long long rnd_state=88172645463325252ull;
static unsigned long long rnd() { rnd_state^=rnd_state<<13; rnd_state^=rnd_state>>7; rnd_state^=rnd_state<<17; return rnd_state; }

struct jar : public cppcms::session_interface_cookie_adapter {
	std::map<std::string,std::string> cookies; std::set<std::string> deleted;
	virtual void set_cookie(cppcms::http::cookie const &c)
	{
		// max_age 0 / negative or empty value = deletion
		std::ostringstream ss; ss << c;
		std::string text=ss.str();
		bool del = c.value().empty() || text.find("Max-Age=0")!=std::string::npos;
		if(del) { cookies.erase(c.name()); deleted.insert(c.name()); } else { cookies[c.name()]=c.value(); deleted.erase(c.name()); }
	}
	virtual std::string get_session_cookie(std::string const &name) { std::map<std::string,std::string>::iterator p=cookies.find(name); return p==cookies.end() ? std::string() : p->second; }
	virtual std::set<std::string> get_cookie_names() { std::set<std::string> r; for(std::map<std::string,std::string>::iterator p=cookies.begin();p!=cookies.end();++p) r.insert(p->first); return r; }
};

struct config { char const *name; char const *enc,*mac,*cbc; char const *key,*mackey,*cbckey; };

// every configuration has its own key material (byte i of configuration n is 17*i+29*n+salt) unless the same-key probe asks otherwise
static std::string hexkey(char const *like,int n,int salt) { static char const hx[]="0123456789abcdef"; std::string r; for(size_t i=0;i<strlen(like)/2;i++) { unsigned v=(17*i+29*n+salt)&0xff; r+=hx[v>>4]; r+=hx[v&15]; } return r; }
static cppcms::json::value settings(config const &c0,int n,bool same_keys=false)
{
	config c=c0; std::string k1,k2,k3;
	if(!same_keys) { if(c.key) { k1=hexkey(c.key,n,1); c.key=k1.c_str(); } if(c.mackey) { k2=hexkey(c.mackey,n,2); c.mackey=k2.c_str(); } if(c.cbckey) { k3=hexkey(c.cbckey,n,3); c.cbckey=k3.c_str(); } }
	cppcms::json::value v;
	v["session"]["location"]="client"; v["session"]["timeout"]=1000; v["session"]["expire"]="fixed";
	if(c.enc) { v["session"]["client"]["encryptor"]=c.enc; v["session"]["client"]["key"]=c.key; }
	else { v["session"]["client"]["hmac"]=c.mac; v["session"]["client"]["hmac_key"]=c.mackey; if(c.cbc) { v["session"]["client"]["cbc"]=c.cbc; v["session"]["client"]["cbc_key"]=c.cbckey; } }
	return v;
}

static std::string make_cookie(cppcms::session_pool &pool,std::string const &payload,std::string &name)
{
	jar j; cppcms::session_interface s(pool,j);
	s.load(); s.set("user",payload); s.set("role","admin"); s.save();
	if(j.cookies.size()!=1) return std::string();
	name=j.cookies.begin()->first; return j.cookies.begin()->second;
}

// present a cookie; returns 0 accepted with the right data, 1 rejected, 2 accepted with other data
static int present(cppcms::session_pool &pool,std::string const &name,std::string const &cookie,std::string const &payload,bool &cleared,std::string &seen)
{
	jar j; j.cookies[name]=cookie;
	cppcms::session_interface s(pool,j);
	try { s.load(); } catch(std::exception const &e) { seen=std::string("exception: ")+e.what(); cleared=false; return 3; }
	bool has=s.is_set("user") || s.is_set("role");
	if(has) seen=s.is_set("user") ? s.get("user") : std::string("<role only>");
	bool ok=s.is_set("user") && s.get("user")==payload && s.is_set("role") && s.get("role")=="admin";
	s.save();
	cleared = j.cookies.count(name)==0;
	if(ok) return 0;
	return has ? 2 : 1;
}

int main(int argc,char **argv)
{
	if(argc<3) return 2;
	std::string what=argv[1];
	witness w; w.load(argv[2]);
	rnd_state+=(unsigned long long)w.vals["seed"];
	if(what!="cookies") return 2;
	char const *k16="0123456789abcdef0123456789abcdef", *k20="0123456789abcdef0123456789abcdef01234567", *k32="000102030405060708090a0b0c0d0e0f101112131415161718191a1b1c1d1e1f";
	char const *k24="000102030405060708090a0b0c0d0e0f1011121314151617";
	config cfgs[]={
		{"hmac-sha1","hmac",0,0,k20,0,0}, {"hmac-md5","hmac-md5",0,0,k16,0,0}, {"hmac-sha256","hmac-sha256",0,0,k32,0,0}, {"hmac-sha512","hmac-sha512",0,0,k32,0,0},
		{"aes128","aes",0,0,k16,0,0}, {"aes256","aes256",0,0,k32,0,0}, {"aes192","aes192",0,0,k24,0,0},
		{"split sha1+aes128",0,"sha1","aes",0,k20,k16}, {"split sha256+aes256",0,"sha256","aes256",0,k32,k32},
	};
	int const ncfg=sizeof(cfgs)/sizeof(cfgs[0]);
	long checked=0;
	std::vector<std::string> genuine_of_cfg(ncfg); std::string cname;
	for(int ci=0;ci<ncfg;ci++) {
		cppcms::session_pool pool(settings(cfgs[ci],ci)); pool.init();
		size_t lens[]={0,1,15,16,17,31,32,33,100,1000,65000};
		for(int li=0;li<11;li++) {
			std::string payload; for(size_t i=0;i<lens[li];i++) payload+=(char)(rnd()>>7);
			std::string name,cookie=make_cookie(pool,payload,name);
			std::ostringstream where; where << "[" << cfgs[ci].name << ", payload " << lens[li] << " bytes] ";
			if(cookie.empty()) return replay_fail(where.str()+"saving a session produced no cookie");
			if(lens[li]==17) { genuine_of_cfg[ci]=cookie; cname=name; }
			bool cleared; std::string seen;
			int r=present(pool,name,cookie,payload,cleared,seen); checked++;
			if(r!=0) return replay_fail(where.str()+"the genuine, unexpired cookie was "+(r==1?"rejected":"loaded with other data than was saved"));
			if(cookie.find(payload)!=std::string::npos && payload.size()>=15 && cfgs[ci].name[0]!='h') return replay_fail(where.str()+"the encrypting backend shows the payload in the cookie");
			if(lens[li]>1000) continue;     // the mutation sweep is quadratic: keep it to the small payloads
			std::vector<std::pair<std::string,std::string> > forged;
			size_t stride = cookie.size()>400 ? 7 : 1;
			for(size_t i=0;i<cookie.size();i+=stride) for(int b=0;b<6;b++) {
				// base64url alphabet: flip one of the 6 payload bits of character i
				static char const abc[]="ABCDEFGHIJKLMNOPQRSTUVWXYZabcdefghijklmnopqrstuvwxyz0123456789-_";
				char const *pos=strchr(abc,cookie[i]); if(!pos || i==0) continue;
				std::string f=cookie; f[i]=abc[(pos-abc)^(1<<b)];
				if(i+1==cookie.size() && ((cookie.size()-1)%4)!=0) continue;   // the last character of an unpadded group carries unused bits
				std::ostringstream d; d << "bit " << b << " of character " << i << " flipped"; forged.push_back(std::make_pair(d.str(),f));
			}
			for(size_t i=0;i<cookie.size();i+=stride) { std::ostringstream d; d << "truncated to " << i << " characters"; forged.push_back(std::make_pair(d.str(),cookie.substr(0,i))); }
			for(size_t i=1;i<=44;i++) { std::ostringstream d; d << "extended by " << i << " characters"; forged.push_back(std::make_pair(d.str(),cookie+std::string(i,'A'))); }
			if(cookie.size()>1+44) for(size_t a=1;a+44<=cookie.size();a+=22) {
				std::string f=cookie; f.replace(a,22,cookie.substr(cookie.size()-22,22)); if(f!=cookie) { std::ostringstream d; d << "block at " << a << " replaced by the last block"; forged.push_back(std::make_pair(d.str(),f)); }
			}
			{ std::string n2,other=make_cookie(pool,payload+"x",n2); size_t h=cookie.size()/2; std::string f=cookie.substr(0,h)+other.substr(h<other.size()?h:other.size()); if(f!=other) forged.push_back(std::make_pair("first half spliced with the second half of another genuine cookie",f)); }
			for(int k=0;k<40;k++) { std::string f="C"; size_t n=rnd()%200; static char const abc[]="ABCDEFGHIJKLMNOPQRSTUVWXYZabcdefghijklmnopqrstuvwxyz0123456789-_=+/ %"; for(size_t i=0;i<n;i++) f+=abc[rnd()%69]; forged.push_back(std::make_pair("arbitrary string",f)); }
			forged.push_back(std::make_pair("first character changed","I"+cookie.substr(1)));
			for(size_t f=0;f<forged.size();f++) {
				if(forged[f].second==cookie) continue;
				int fr=present(pool,name,forged[f].second,payload,cleared,seen); checked++;
				if(fr==3) return replay_fail(where.str()+"a cookie this server did not issue got past the encryptor and blew up the session loader ("+forged[f].first+"; "+seen+")");
				if(fr!=1) return replay_fail(where.str()+"a cookie this server did not issue was accepted ("+forged[f].first+")");
				if(!forged[f].second.empty() && !cleared) return replay_fail(where.str()+"a rejected cookie was not cleared ("+forged[f].first+")");
			}
		}
	}
	// cross-key / cross-algorithm transplant
	for(int a=0;a<ncfg;a++) for(int b=0;b<ncfg;b++) if(a!=b) {
		cppcms::session_pool pool(settings(cfgs[b],b)); pool.init();
		bool cleared; std::string seen; std::string payload;
		int r=present(pool,cname,genuine_of_cfg[a],"\x01 no such payload",cleared,seen); checked++;
		if(r!=1) return replay_fail(std::string("a cookie issued under ")+cfgs[a].name+" was accepted by a server configured for "+cfgs[b].name);
	}
	// the operator keeps the HMAC key and hash but switches between signed-only and signed+encrypted cookies (either direction): the old cookies carry a
	// valid MAC for the new configuration, so what the encryptor returns is noise -- it must be refused like any other foreign cookie
	for(int dir=0;dir<2;dir++) for(int t=0;t<40;t++) {
		cppcms::session_pool a(settings(cfgs[dir?7:0],0,true)); a.init();     // hmac-sha1 (key k20)  /  hmac sha1 (same key) + cbc aes
		cppcms::session_pool b(settings(cfgs[dir?0:7],0,true)); b.init();
		std::string payload; for(int i=0;i<t;i++) payload+=(char)(rnd()>>7);
		std::string name,cookie=make_cookie(a,payload,name);
		bool cleared; std::string seen; int r=present(b,name,cookie,"\x01 no such payload",cleared,seen); checked++;
		std::string which=std::string("a cookie issued under ")+cfgs[dir?7:0].name+" presented to a server using the same HMAC key for "+cfgs[dir?0:7].name;
		if(r==3) return replay_fail(which+" got past the MAC and made session load throw ("+seen+") instead of being rejected and cleared");
		if(r!=1) return replay_fail(which+" was accepted");
		if(!cleared) return replay_fail(which+" was rejected but not cleared");
	}
	// expiry: a genuine cookie with a one-second lifetime is refused (and cleared) after it ran out
	{
		cppcms::json::value v=settings(cfgs[0],0); v["session"]["timeout"]=1;
		cppcms::session_pool pool(v); pool.init();
		std::string name,cookie=make_cookie(pool,"short-lived",name);
		sleep(3);
		bool cleared; std::string seen; int r=present(pool,name,cookie,"short-lived",cleared,seen); checked++;
		if(r!=1) return replay_fail("a genuine cookie was accepted after its expiry time had passed");
		if(!cleared) return replay_fail("an expired cookie was not cleared");
	}
	std::ostringstream o; o << checked << " cookies presented to " << ncfg << " encryptor configurations"; return replay_ok(o.str());
}
