// native replay for unit jsonw (C11): the REAL src/json.cpp compiled into this program; to_json(string) is compared with
// a reference RFC 8259 string writer and the result is parsed back with the real parser.
#include "replay_common.h"
#include <sstream>
#include <string>
#include "src/json.cpp"
static std::string ref_to_json(std::string const &s)
{
	std::string r="\""; char const *hex="0123456789abcdef";
	for(size_t i=0;i<s.size();i++) {
		unsigned char c=s[i];
		switch(c) {
		case '"': r+="\\\""; break; case '\\': r+="\\\\"; break; case '\b': r+="\\b"; break; case '\f': r+="\\f"; break;
		case '\n': r+="\\n"; break; case '\r': r+="\\r"; break; case '\t': r+="\\t"; break;
		default: if(c<=0x1F) { r+="\\u00"; r+=hex[c>>4]; r+=hex[c&15]; } else r+=char(c);
		}
	}
	return r+"\"";
}
int main(int argc,char **argv)
{
	if(argc<3) return 2;
	witness w; if(!w.load(argv[2])) return 2;
	size_t n; char *b=w.heap("in",n); std::string in(b,n);
	std::string out=cppcms::json::to_json(b,b+n);
	if(out!=ref_to_json(in)) return replay_fail("to_json differs from the RFC 8259 string serialisation");
	return replay_ok();
}
