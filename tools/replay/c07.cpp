// native replay for unit memcache (C07/C08): the REAL mem_cache of src/cache_storage.cpp and the REAL cache_interface glue
// (working tree) driven through pseudo-random histories of store / fetch / rise / remove / clear with and without a size
// limit, against a reference model (map + LRU list + deadlines): every fetch result, and the key / trigger counts after
// every operation, must agree.  Expired entries are created with deadlines in the past (no sleeping).
#include <sstream>
#include <vector>
#include <string>
#include <map>
#include <set>
#include <list>
#include <memory>
#include <iostream>
#include <time.h>
#include "src/cache_storage.cpp"   // the working-tree source, not the prebuilt library
#include "replay_common.h"
using namespace cppcms::impl;

static unsigned long long rnd_state=88172645463325252ull;
static unsigned long long rnd() { rnd_state^=rnd_state<<13; rnd_state^=rnd_state>>7; rnd_state^=rnd_state<<17; return rnd_state; }

struct ref_entry { std::string val; std::set<std::string> trig; time_t deadline; };
struct ref_cache {
	unsigned limit;
	std::map<std::string,ref_entry> m;
	std::list<std::string> lru;   // front = most recent
	ref_cache(unsigned l) : limit(l) {}
	void erase(std::string const &k) { m.erase(k); lru.remove(k); }
	void store(std::string const &k,ref_entry const &e,time_t now)
	{
		if(m.count(k)) erase(k);
		while(limit>0 && m.size()>=limit) {
			// expired first (smallest deadline), otherwise least recently used
			std::string victim; time_t best=0; bool have=false;
			for(std::map<std::string,ref_entry>::iterator p=m.begin();p!=m.end();++p)
				if(!have || p->second.deadline<best) { best=p->second.deadline; victim=p->first; have=true; }
			if(!(have && best<now)) victim=lru.back();
			erase(victim);
		}
		m[k]=e; lru.push_front(k);
	}
	bool fetch(std::string const &k,ref_entry &out,time_t now)
	{
		std::map<std::string,ref_entry>::iterator p=m.find(k);
		if(p==m.end() || p->second.deadline<now) return false;
		out=p->second; lru.remove(k); lru.push_front(k); return true;
	}
	void rise(std::string const &t)
	{
		std::vector<std::string> kill;
		for(std::map<std::string,ref_entry>::iterator p=m.begin();p!=m.end();++p) if(p->first==t || p->second.trig.count(t)) kill.push_back(p->first);
		for(size_t i=0;i<kill.size();i++) erase(kill[i]);
	}
	unsigned links() const { unsigned n=0; for(std::map<std::string,ref_entry>::const_iterator p=m.begin();p!=m.end();++p) { std::set<std::string> s=p->second.trig; s.insert(p->first); n+=s.size(); } return n; }
};

int main(int argc,char **argv)
{
	if(argc<3) return 2;
	std::string what=argv[1];
	witness w; w.load(argv[2]);
	rnd_state+=(unsigned long long)w.vals["seed"];
	if(what!="history") return 2;
	char const *keys[]={"k0","k1","k2","k3","k4","k5","k6","t0"};   // "t0" is both a key and a trigger name
	char const *trigs[]={"t0","t1","t2","k1"};                      // "k1" is both a trigger name and a key
	unsigned limits[]={0,1,2,3,5};
	for(unsigned li=0;li<5;li++) {
		booster::intrusive_ptr<base_cache> c=thread_cache_factory(limits[li]);
		ref_cache ref(limits[li]);
		time_t base=time(0);
		long serial=0;
		for(int step=0;step<4000;step++) {
			time_t now=time(0);
			std::ostringstream where; where << "limit " << limits[li] << " step " << step << ": ";
			int op=rnd()%20; std::string key=keys[rnd()%8];
			if(op<9) {
				ref_entry e; size_t len=rnd()%12; for(size_t i=0;i<len;i++) e.val+=(char)('a'+rnd()%26);
				int nt=rnd()%4; for(int i=0;i<nt;i++) e.trig.insert(trigs[rnd()%4]);
				serial++;
				// distinct deadlines: about one in four already expired
				e.deadline=(rnd()%4==0) ? base-100000+serial : base+100000+serial;
				c->store(key,e.val,e.trig,e.deadline);
				ref.store(key,e,now);
			}
			else if(op<16) {
				std::string got; std::set<std::string> tg; time_t dl=0; uint64_t gen=0;
				bool r=c->fetch(key,&got,&tg,&dl,&gen);
				ref_entry e; bool want=ref.fetch(key,e,now);
				if(r!=want) return replay_fail(where.str()+(r ? "fetch hit on a key that is absent, removed, invalidated or expired: " : "fetch missed a live key: ")+key);
				if(r) {
					std::set<std::string> wt=e.trig; wt.insert(key);
					if(got!=e.val) return replay_fail(where.str()+"value differs from the most recent store of "+key);
					if(tg!=wt) return replay_fail(where.str()+"trigger set differs for "+key);
					if(dl!=e.deadline) return replay_fail(where.str()+"deadline differs for "+key);
				}
			}
			else if(op<18) { std::string t=trigs[rnd()%4]; c->rise(t); ref.rise(t); }
			else if(op<19) { c->remove(key); ref.erase(key); }
			else { c->clear(); ref.m.clear(); ref.lru.clear(); }
			unsigned k=0,t=0; c->stats(k,t);
			if(limits[li]>0 && k>limits[li]) { where << "cache holds " << k << " entries"; return replay_fail(where.str()+", more than its limit"); }
			if(k!=ref.m.size()) { where << "key count " << k << ", history implies " << ref.m.size(); return replay_fail(where.str()); }
			if(t!=ref.links()) { where << "trigger count " << t << ", history implies " << ref.links(); return replay_fail(where.str()); }
		}
	}
	return replay_ok("5 limits x 4000-step histories against the reference model");
}
