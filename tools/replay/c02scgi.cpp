// native replay for unit scgi (C01/C02): the REAL src/scgi_api.cpp compiled into this program.
#include <sstream>
#include <vector>
#include <string>
#include <map>
#include <memory>
#define private public
#define protected public
#include "src/scgi_api.cpp"
#undef private
#undef protected
#include "replay_common.h"
#include <cppcms/service.h>
#include <cppcms/json.h>
#include <booster/aio/io_service.h>
using namespace cppcms::impl::cgi;
static int calls=0;
static void on_done(booster::system::error_code const &) { calls++; }
struct stopper { booster::aio::io_service *s; void operator()() const { s->stop(); } };
int main(int argc,char **argv)
{
	if(argc<3) return 2;
	std::string what=argv[1];
	witness w; if(!w.load(argv[2])) return 2;
	cppcms::json::value cfg; cfg["service"]["api"]="scgi"; cfg["service"]["socket"]="/var/tmp/cppcms-verif-replay.sock"; cfg["service"]["worker_threads"]=1;
	cppcms::service srv(cfg);
	booster::shared_ptr<scgi> c(new scgi(srv));
	booster::system::error_code e; if(w.vals["e"]) e=std::make_error_code(std::errc::io_error);
	handler h(on_done);
	if(what=="on_first_read") {
		std::vector<unsigned char> &b=w.bufs["first16"];
		c->buffer_.assign(b.begin(),b.end()); c->buffer_.resize(16);
		c->on_first_read(e,(size_t)w.vals["n"],h);
	}
	else if(what=="on_headers_chunk_read") {
		std::vector<unsigned char> &b=w.bufs["buffer"];
		std::vector<char> exact(b.begin(),b.end());   // exact-size storage: ASan sees reads past the end
		c->buffer_.swap(exact);
		c->sep_=(size_t)w.vals["sep"];
		c->on_headers_chunk_read(e,0,h);
	}
	else return 2;
	booster::aio::io_service &ios=srv.impl().get_io_service();
	stopper st; st.s=&ios; ios.post(st);
	ios.run();
	std::cout << "handler invocations: " << calls << std::endl;
	if(calls>1) return replay_fail("completion handler invoked more than once");
	return replay_ok();
}
