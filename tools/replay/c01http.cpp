// native replay for unit httpparser (C01/C02): the REAL embedded HTTP front-end (class http of src/http_api.cpp with
// private/http_parser.h, private/http_protocol.h, working tree) reads generated requests from a loopback TCP connection
// into which the peer writes the request in many different segmentations (every two-way split, byte by byte, random
// multi-splits).  After the header handler fires, the CGI environment the application would see (method, protocol,
// SCRIPT_NAME / PATH_INFO / QUERY_STRING, every header incl. mixed case names, leading blanks, folded and quoted values,
// CONTENT_TYPE / CONTENT_LENGTH) and the body delivered through async_read_some are compared with what the peer encoded.
#include <sstream>
#include <vector>
#include <string>
#include <map>
#include <set>
#include <memory>
#include <iostream>
#include <sys/types.h>
#include <sys/socket.h>
#include <sys/ioctl.h>
#include <netinet/in.h>
#include <netinet/tcp.h>
#include <arpa/inet.h>
#include <unistd.h>
#include <fcntl.h>
#include <errno.h>
#define private public
#define protected public
#include "src/http_api.cpp"
#undef private
#undef protected
#include "replay_common.h"
#include <cppcms/service.h>
#include <cppcms/json.h>
using namespace cppcms::impl::cgi;

static unsigned long long rnd_state=88172645463325252ull;
static unsigned long long rnd() { rnd_state^=rnd_state<<13; rnd_state^=rnd_state>>7; rnd_state^=rnd_state<<17; return rnd_state; }

struct request_case {
	std::string wire;                          // what the peer sends
	std::map<std::string,std::string> env;     // what the application must observe
	std::set<std::string> absent;              // variables that must not be set (or be empty)
	std::string body;
};

static std::string cgi_name(std::string n) { for(size_t i=0;i<n.size();i++) { if(n[i]=='-') n[i]='_'; else if(n[i]>='a' && n[i]<='z') n[i]=n[i]-'a'+'A'; } return n; }

static request_case make_case(int no)
{
	request_case c;
	char const *methods[]={"GET","POST","PUT","DELETE","OPTIONS","M-SEARCH"};
	std::string method=methods[rnd()%6];
	char const *scripts[]={"","/app","/app2","/appx"};     // "/app" and "/app2" are configured; "/appx" is not
	std::string script=scripts[rnd()%4];
	std::string raw_path,dec_path;
	int nseg=rnd()%4;
	for(int i=0;i<nseg;i++) {
		raw_path+="/"; dec_path+="/";
		switch(rnd()%6) {
		case 0: raw_path+="index.html"; dec_path+="index.html"; break;
		case 1: raw_path+="a%20b"; dec_path+="a b"; break;
		case 2: raw_path+="%41%2fz"; dec_path+="A/z"; break;
		case 3: raw_path+="x+y"; dec_path+="x y"; break;
		case 4: raw_path+="app"; dec_path+="app"; break;
		default: raw_path+="~user.name-1"; dec_path+="~user.name-1"; break;
		}
	}
	if(script.empty() && raw_path.empty()) { raw_path="/"; dec_path="/"; }
	std::string uri=script+raw_path;
	bool has_q=rnd()%2; std::string q;
	if(has_q) { char const *qs[]={"","a=1","a=1&b=%20x","x?y=z","p=/app/q"}; q=qs[rnd()%5]; uri+="?"+q; }
	bool v11=rnd()%2;
	c.wire=method+" "+uri+" "+(v11?"HTTP/1.1":"HTTP/1.0")+"\r\n";
	c.env["REQUEST_METHOD"]=method;
	c.env["SERVER_PROTOCOL"]=v11?"HTTP/1.1":"HTTP/1.0";
	if(has_q) c.env["QUERY_STRING"]=q; else c.absent.insert("QUERY_STRING");
	{
		// the first configured script name that prefixes the path on a segment boundary (the names contain no escapes, so raw and decoded prefixes coincide)
		std::string raw_full=script+raw_path,dec_full=script+dec_path; char const *conf[]={"/app","/app2"}; bool found=false;
		for(int i=0;i<2 && !found;i++) {
			std::string n=conf[i];
			if(raw_full.size()>=n.size() && raw_full.compare(0,n.size(),n)==0 && (raw_full.size()==n.size() || raw_full[n.size()]=='/')) { c.env["SCRIPT_NAME"]=n; c.env["PATH_INFO"]=dec_full.substr(n.size()); found=true; }
		}
		if(!found) { c.absent.insert("SCRIPT_NAME"); c.env["PATH_INFO"]=dec_full; }
	}
	// headers
	c.wire+="Host: www.example.com\r\n"; c.env["HTTP_HOST"]="www.example.com";
	int nh=rnd()%4;
	for(int i=0;i<nh;i++) {
		std::ostringstream nm; char const *names[]={"X-Custom-Header","accept-language","x_under","User-Agent","X-a1-b2","Authorization","x-lazy-Zz"}; nm << names[rnd()%7] << (no*4+i);
		std::string name=nm.str(),wire_val,val;
		switch(rnd()%6) {
		case 0: wire_val="plain value"; val=wire_val; break;
		case 1: wire_val="first\r\n second\r\n\tthird"; val="first second\tthird"; break;          // folded: CR LF dropped, the blank kept
		case 2: wire_val="\"quoted: (not a comment) \\\" still quoted\""; val=wire_val; break;
		case 3: wire_val="text (comment (nested) \"x\") tail"; val=wire_val; break;
		case 4: wire_val=""; val=""; break;
		default: wire_val="a:b:c; q=0.5, */*"; val=wire_val; break;
		}
		char const *seps[]={": ",":",":  \t ",":\t"};
		c.wire+=name+seps[rnd()%4]+wire_val+"\r\n";
		c.env["HTTP_"+cgi_name(name)]=val;
	}
	bool has_body=(method=="POST" || method=="PUT") && rnd()%4!=0;
	if(has_body) {
		size_t len=rnd()%3==0 ? rnd()%8 : rnd()%300;
		for(size_t i=0;i<len;i++) { unsigned r=rnd()%40; c.body+= r==0 ? '\r' : r==1 ? '\n' : r==2 ? '\0' : (char)(rnd()>>9); }
		if(rnd()%3==0) c.body+="\r\n\r\n";
		std::ostringstream cl; cl << c.body.size();
		c.wire+=std::string(rnd()%2 ? "Content-Length" : "content-length")+": "+cl.str()+"\r\n"; c.env["CONTENT_LENGTH"]=cl.str();
		c.wire+="Content-Type: application/octet-stream\r\n"; c.env["CONTENT_TYPE"]="application/octet-stream";
	}
	c.wire+="\r\n";
	c.wire+=c.body;
	return c;
}

struct runner {
	cppcms::service &srv;
	booster::aio::io_service &ios;
	booster::shared_ptr<http_watchdog> wd;
	runner(cppcms::service &s) : srv(s), ios(s.impl().get_io_service()), wd(new http_watchdog(s.impl().get_io_service())) {}

	// state of one run
	booster::shared_ptr<http> conn;
	int peer,server_fd;
	std::string wire; std::vector<size_t> cuts; size_t next_cut,sent;
	bool headers_done,failed,finished; std::string msg;
	request_case const *rc;
	std::string body_got; std::vector<char> buf;
	long idle;

	bool tcp_pair()
	{
		int l=socket(AF_INET,SOCK_STREAM,0); if(l<0) return false;
		sockaddr_in a; memset(&a,0,sizeof(a)); a.sin_family=AF_INET; a.sin_addr.s_addr=htonl(INADDR_LOOPBACK); a.sin_port=0;
		if(bind(l,(sockaddr*)&a,sizeof(a))!=0 || listen(l,1)!=0) { close(l); return false; }
		socklen_t sl=sizeof(a); getsockname(l,(sockaddr*)&a,&sl);
		peer=socket(AF_INET,SOCK_STREAM,0);
		if(connect(peer,(sockaddr*)&a,sizeof(a))!=0) { close(l); close(peer); return false; }
		server_fd=accept(l,0,0); close(l);
		if(server_fd<0) { close(peer); return false; }
		int one=1; setsockopt(peer,IPPROTO_TCP,TCP_NODELAY,&one,sizeof(one));
		return true;
	}
	void fail(std::string const &m) { if(!failed) { failed=true; msg=m; } finished=true; ios.stop(); }
	void done() { finished=true; ios.stop(); }

	void feeder()
	{
		if(finished) return;
		int pending=0; ioctl(server_fd,FIONREAD,&pending);
		if(pending==0 && sent<wire.size()) {
			size_t upto = next_cut<cuts.size() ? cuts[next_cut++] : wire.size();
			if(upto>sent) { ssize_t n=::send(peer,wire.data()+sent,upto-sent,0); if(n>0) sent+=n; }
			idle=0;
		}
		else if(++idle>3000000) { fail(headers_done ? "the body was never delivered completely" : "the request was never reported complete (nor refused)"); return; }
		ios.post([this]{ feeder(); });
	}
	void on_headers(booster::system::error_code const &e)
	{
		if(e) { fail("well-formed request refused: "+e.message()); return; }
		headers_done=true;
		for(std::map<std::string,std::string>::const_iterator p=rc->env.begin();p!=rc->env.end();++p) {
			char const *v=conn->cgetenv(p->first.c_str());
			std::string got=v?v:"";
			if(got!=p->second) { fail("application sees "+p->first+"=["+got+"], the peer sent ["+p->second+"]"); return; }
		}
		for(std::set<std::string>::const_iterator p=rc->absent.begin();p!=rc->absent.end();++p) {
			char const *v=conn->cgetenv(p->c_str());
			if(v && *v) { fail("application sees "+*p+"=["+std::string(v)+"], the request has none"); return; }
		}
		if(rc->env.count("CONTENT_LENGTH") && conn->env_content_length()!=(long long)rc->body.size()) { fail("content length differs"); return; }
		read_body();
	}
	void read_body()
	{
		if(body_got.size()>=rc->body.size()) {
			if(body_got!=rc->body) fail("the body the application reads differs from the body the peer sent"); else done();
			return;
		}
		size_t want=rc->body.size()-body_got.size(); size_t chunk=1+rnd()%64; if(chunk>want) chunk=want;
		buf.assign(chunk,0);
		conn->async_read_some(&buf[0],chunk,[this](booster::system::error_code const &e,size_t n) {
			if(e) { fail("reading the body failed: "+e.message()); return; }
			if(n==0 || n>buf.size()) { fail("async_read_some reported an impossible byte count"); return; }
			body_got.append(&buf[0],n);
			if(body_got.compare(0,body_got.size(),rc->body,0,body_got.size())!=0) { fail("the body the application reads differs from the body the peer sent"); return; }
			read_body();
		});
	}
	int run(request_case const &c,std::vector<size_t> const &cutv,std::string &out)
	{
		if(!tcp_pair()) { out="cannot create a loopback connection"; return 2; }
		rc=&c; wire=c.wire; cuts=cutv; next_cut=0; sent=0; headers_done=false; failed=false; finished=false; msg.clear(); body_got.clear(); idle=0;
		ios.reset();
		conn.reset(new http(srv,"127.0.0.1",8080,wd,booster::shared_ptr<cppcms::impl::url_rewriter>()));
		conn->socket_.assign(server_fd);
		conn->async_read_headers([this](booster::system::error_code const &e){ on_headers(e); });
		ios.post([this]{ feeder(); });
		ios.run();
		conn->remove_from_watchdog();
		booster::system::error_code e; conn->socket_.close(e);
		conn.reset();
		close(peer);
		if(failed) { out=msg; return 1; }
		return 0;
	}
};

int main(int argc,char **argv)
{
	if(argc<3) return 2;
	std::string what=argv[1];
	witness w; w.load(argv[2]);
	rnd_state+=(unsigned long long)w.vals["seed"];
	if(what!="requests") return 2;
	cppcms::json::value cfg; cfg["service"]["api"]="http"; cfg["service"]["port"]=18080; cfg["service"]["worker_threads"]=1;
	cfg["http"]["script_names"][0]="/app"; cfg["http"]["script_names"][1]="/app2";
	cppcms::service srv(cfg);
	runner r(srv);
	long runs=0;
	for(int no=0;no<1500;no++) {
		request_case c=make_case(no);
		std::vector<std::vector<size_t> > plans;
		plans.push_back(std::vector<size_t>());                                   // one piece
		if(no<60) { std::vector<size_t> v; for(size_t i=1;i<c.wire.size();i++) v.push_back(i); plans.push_back(v); }   // byte by byte
		if(no%8==0) for(size_t i=1;i<c.wire.size() && i<160;i++) plans.push_back(std::vector<size_t>(1,i));            // every two-way split of the head
		for(int k=0;k<6;k++) { std::vector<size_t> v; size_t pos=0; for(;;) { pos+=1+rnd()%(k<3?12:90); if(pos>=c.wire.size()) break; v.push_back(pos); } plans.push_back(v); }
		for(size_t p=0;p<plans.size();p++) {
			std::string m; int rcode=r.run(c,plans[p],m); runs++;
			if(rcode==2) { std::cout << m << std::endl; return 2; }
			if(rcode==1) {
				std::ostringstream o; o << "request #" << no << " sent in " << plans[p].size()+1 << " segments";
				if(plans[p].size()==1) o << " (split after byte " << plans[p][0] << ")";
				std::string head=c.wire.substr(0,c.wire.find("\r\n"));
				return replay_fail(o.str()+" [" + head + " ...]: "+m);
			}
		}
	}
	std::ostringstream o; o << runs << " (request, segmentation) runs through the real HTTP front-end"; return replay_ok(o.str());
}
