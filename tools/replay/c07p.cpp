// native replay for the cache_interface part of unit memcache (C07): the REAL src/cache_interface.cpp (working tree) used the way an
// application uses it -- pages built from frames, with triggers added directly, through stored frames, through nested
// triggers_recorders and inherited from cached frames -- over pseudo-random histories of build / rise / clear, in both the gzip and the
// plain variant, against a reference that tracks for every cached page and frame the set of triggers it depends on.
// Every fetch_page / fetch_frame result, the bytes served on a hit, every recorder's detach() set and the key count after every
// step must agree with the reference.
#include <sstream>
#include <vector>
#include <string>
#include <map>
#include <set>
#include <memory>
#include <iostream>
#include "src/cache_interface.cpp"   // the working-tree source, not the prebuilt library
#include <cppcms/service.h>
#include <cppcms/application.h>
#include <cppcms/http_response.h>
#include <cppcms/http_context.h>
#include <cppcms/json.h>
#include "tests/dummy_api.h"
#include "replay_common.h"

static unsigned long long rnd_state=88172645463325252ull;
static unsigned long long rnd() { rnd_state^=rnd_state<<13; rnd_state^=rnd_state>>7; rnd_state^=rnd_state<<17; return rnd_state; }

struct ref_entry { std::string body; std::set<std::string> deps; };
typedef std::map<std::string,ref_entry> ref_type;

class app : public cppcms::application {
public:
	app(cppcms::service &s) : cppcms::application(s), srv_(s) {}
	~app() { release_context(); }
	void set_context(bool gzip)
	{
		std::map<std::string,std::string> env;
		env["HTTP_HOST"]="www.example.com"; env["SCRIPT_NAME"]="/foo"; env["PATH_INFO"]="/bar"; env["REQUEST_METHOD"]="GET";
		if(gzip) env["HTTP_ACCEPT_ENCODING"]="gzip, deflate";
		booster::shared_ptr<dummy_api> api(new dummy_api(srv_,env,output_));
		booster::shared_ptr<cppcms::http::context> cnt(new cppcms::http::context(api));
		assign_context(cnt);
		response().io_mode(cppcms::http::response::normal);
		output_.clear();
	}
	std::string body(bool &gz)
	{
		response().finalize();
		size_t from=output_.find("\r\n\r\n"); std::string r;
		if(from==std::string::npos) { r=output_; gz=false; }
		else { r=output_.substr(from+4); gz=output_.substr(0,from).find("gzip")!=std::string::npos; }
		output_.clear();
		return r;
	}
	cppcms::service &srv_;
	std::string output_;
};

static char const *frames[]={"f0","f1","f2","t1"};   // "t1" is a frame key and a trigger name
static char const *trigs[]={"t0","t1","t2","f0","p1"};  // "f0" / "p1": a frame key / page key used as trigger names
static char const *pages[]={"p0","p1","p2"};
static long serial=0;

// build (or take from the cache) one frame inside the page being built; returns its text, adds what the page now depends on to `deps`
static int use_frame(app &a,ref_type &ref,std::string const &fk,int depth,std::string &text,std::set<std::string> &deps,std::string &msg)
{
	bool notrig=(rnd()%8==0);
	std::string got;
	bool hit=a.cache().fetch_frame(fk,got,notrig);
	bool want=ref.count(fk)!=0;
	if(hit!=want) { msg=std::string(hit ? "fetch_frame hit on a frame that was invalidated or never stored: " : "fetch_frame missed a live frame: ")+fk; return 1; }
	if(hit) {
		if(got!=ref[fk].body) { msg="fetch_frame returned other data than the most recent store of "+fk; return 1; }
		if(!notrig) deps.insert(ref[fk].deps.begin(),ref[fk].deps.end());   // inherited
		text=got; return 0;
	}
	std::set<std::string> mine,rec_want;
	std::ostringstream t; t << "[" << fk << "#" << ++serial;
	{
		cppcms::triggers_recorder rec(a.cache());
		int nt=rnd()%3;
		for(int i=0;i<nt;i++) { std::string tr=trigs[rnd()%5]; a.cache().add_trigger(tr); rec_want.insert(tr); }
		if(depth<2 && rnd()%2) {
			std::string sub=frames[rnd()%4];
			if(sub!=fk) {
				std::string st; std::set<std::string> sd;
				if(use_frame(a,ref,sub,depth+1,st,sd,msg)) return 1;
				t << st; rec_want.insert(sd.begin(),sd.end());
			}
		}
		mine=rec.detach();
		if(mine!=rec_want) { std::ostringstream m; m << "triggers_recorder::detach() returned " << mine.size() << " triggers while building " << fk << ", the build added or inherited " << rec_want.size(); msg=m.str(); return 1; }
	}
	t << "]";
	text=t.str();
	bool nt2=(rnd()%8==0);
	a.cache().store_frame(fk,text,mine,-1,nt2);
	ref_entry e; e.body=text; e.deps=mine; e.deps.insert(fk);
	// what had been recorded inside the frame reached the page already; the store adds the frame's triggers and key again unless notriggers
	deps.insert(rec_want.begin(),rec_want.end());
	if(!nt2) deps.insert(e.deps.begin(),e.deps.end());
	ref[fk]=e;
	return 0;
}

int main(int argc,char **argv)
{
	if(argc<3) return 2;
	std::string what=argv[1];
	witness w; w.load(argv[2]);
	rnd_state+=(unsigned long long)w.vals["seed"];
	if(what!="pages") return 2;
	cppcms::json::value cfg; cfg["cache"]["backend"]="thread_shared"; cfg["cache"]["limit"]=100000;
	cppcms::service srv(cfg);
	app a(srv);
	ref_type ref;
	std::string msg;
	for(int step=0;step<6000;step++) {
		std::ostringstream where; where << "step " << step << ": ";
		int op=rnd()%10;
		if(op<7) {
			bool gzip=rnd()%2; std::string key=pages[rnd()%3]; std::string vk=(gzip?"_Z:":"_U:")+key;
			a.set_context(gzip);
			bool hit=a.cache().fetch_page(key);
			bool want=ref.count(vk)!=0;
			if(hit!=want) return replay_fail(where.str()+(hit ? "fetch_page hit on a page that was invalidated (or stored for the other variant): " : "fetch_page missed a live page: ")+vk);
			if(hit) {
				bool gz; std::string b=a.body(gz);
				if(b!=ref[vk].body) return replay_fail(where.str()+"page served from the cache differs from the page that was stored: "+vk);
				if(gz!=gzip) return replay_fail(where.str()+"cached page served with the wrong Content-Encoding: "+vk);
			}
			else {
				std::set<std::string> deps;
				int nf=rnd()%3;
				for(int i=0;i<nf;i++) {
					std::string text;
					if(use_frame(a,ref,frames[rnd()%4],0,text,deps,msg)) return replay_fail(where.str()+msg);
					a.response().out() << text;
				}
				if(rnd()%2) { std::string tr=trigs[rnd()%5]; a.cache().add_trigger(tr); deps.insert(tr); }
				a.response().out() << "<page " << key << " #" << ++serial << ">";
				a.cache().store_page(key);
				deps.insert(key);
				bool gz; ref_entry e; e.body=a.body(gz); e.deps=deps;
				if(gz!=gzip) return replay_fail(where.str()+"page built with the wrong Content-Encoding");
				ref[vk]=e;
			}
		}
		else if(op<9) {
			std::string tr=(rnd()%3==0) ? pages[rnd()%3] : trigs[rnd()%5];
			a.set_context(false);
			a.cache().rise(tr);
			for(ref_type::iterator p=ref.begin();p!=ref.end();) { ref_type::iterator q=p++; if(q->second.deps.count(tr) || q->first==tr) ref.erase(q); }
		}
		else { a.set_context(false); a.cache().clear(); ref.clear(); }
		unsigned k=0,t=0; a.set_context(false);
		if(!a.cache().stats(k,t)) return replay_fail(where.str()+"stats() failed");
		if(k!=ref.size()) { where << "cache holds " << k << " entries, the history implies " << ref.size() << " (a page or frame survived a trigger it depended on, or was lost)"; return replay_fail(where.str()); }
	}
	return replay_ok("6000-step page/frame histories against the dependency reference");
}
