// native replay for unit fastcgi (properties C01/C02): the REAL src/fastcgi_api.cpp is compiled into this
// program (class fastcgi is local to that file); private members are reached with the usual test trick.
// The connection object is put into the state of the verifier's witness, the real callback is invoked with a
// counting completion handler, the io_service queue is drained, and the handler must have run exactly once.
#include <sstream>
#include <vector>
#include <string>
#include <map>
#include <memory>
#define private public
#define protected public
#include "src/fastcgi_api.cpp"
#undef private
#undef protected
#include "replay_common.h"
#include <cppcms/service.h>
#include <cppcms/json.h>
#include <booster/aio/io_service.h>

using namespace cppcms::impl::cgi;
static int calls=0;
static void on_done(booster::system::error_code const &) { calls++; }
struct stopper { booster::aio::io_service *s; void operator()() const { s->stop(); } };

int main(int argc,char **argv)
{
	if(argc<3) return 2;
	std::string what=argv[1];
	witness w; if(!w.load(argv[2])) return 2;
	if(what=="read_len" || what=="parse_pairs") {
		// pure decoders: run on an exact-size heap copy under ASan
		cppcms::json::value cfg; cfg["service"]["api"]="fastcgi"; cfg["service"]["socket"]="/var/tmp/cppcms-verif-replay.sock"; cfg["service"]["worker_threads"]=1;
		cppcms::service srv(cfg);
		booster::shared_ptr<fastcgi> c(new fastcgi(srv));
		size_t n; char *b=w.heap(what=="read_len" ? "in" : "body",n);
		if(what=="read_len") {
			unsigned char const *p=(unsigned char const *)b; unsigned char const *e=p+n;
			uint32_t r=c->read_len(p,e);
			uint32_t spec; size_t adv;
			unsigned char const *u=(unsigned char const *)b;
			if(n>=1 && u[0]<0x80) { spec=u[0]; adv=1; }
			else if(n>=4 && u[0]>=0x80) { spec=((u[0]&0x7fu)<<24)|(u[1]<<16)|(u[2]<<8)|u[3]; adv=4; }
			else { spec=0xFFFFFFFFu; adv=0; }
			if(r!=spec || size_t(p-(unsigned char const*)b)!=adv) return replay_fail("read_len differs from FastCGI 3.4 length decoding");
			return replay_ok();
		}
		c->body_.assign(b,b+n);
		c->body_.shrink_to_fit();
		c->parse_pairs();
		return replay_ok("(memory safety only; ASan)");
	}
	if(what=="stdin_stream") {
		// the body hand-over: two consecutive STDIN record payloads of N and M bytes placed in body_ the way on_body_read leaves them,
		// read with buffers of every size; the application must receive payload1 ++ payload2, each byte once, in order (sweep N,M,s in 1..6)
		cppcms::json::value cfg; cfg["service"]["api"]="fastcgi"; cfg["service"]["socket"]="/var/tmp/cppcms-verif-replay.sock"; cfg["service"]["worker_threads"]=1;
		cppcms::service srv(cfg);
		booster::aio::io_service &ios=srv.impl().get_io_service();
		for(size_t N=1;N<=6;N++) for(size_t M=1;M<=6;M++) for(size_t S=1;S<=7;S++) {
			booster::shared_ptr<fastcgi> c(new fastcgi(srv));
			std::string want,got;
			c->content_length_=1000; c->read_length_=0; c->body_ptr_=0;
			for(int rec=0;rec<2;rec++) {
				size_t L=rec==0?N:M;
				// arrival of the next record: on_header_read/on_body_read append the payload to body_ (empty at this point)
				if(!c->body_.empty()) return replay_fail("body_ not empty when the next record arrives");
				for(size_t i=0;i<L;i++) { char ch=(char)('a'+rec*8+i); c->body_.push_back(ch); want+=ch; }
				size_t guard=0;
				while(c->body_ptr_ < c->body_.size() && guard++<20) {
					std::vector<char> buf(S,'?'); size_t n_rep=(size_t)-1; int calls2=0;
					struct cb { size_t *n; int *calls; void operator()(booster::system::error_code const &,size_t n_) const { *n=n_; ++*calls; } } f={&n_rep,&calls2};
					c->async_read_some(&buf[0],S,io_handler(f));
					stopper st; st.s=&ios; ios.post(st); ios.run(); ios.reset();
					if(calls2!=1) return replay_fail("io handler not invoked exactly once");
					if(n_rep>S) return replay_fail("reported more bytes than the buffer holds");
					got.append(&buf[0],n_rep);
				}
				if(c->body_ptr_ > c->body_.size()) { std::ostringstream m; m << "read cursor body_ptr_=" << c->body_ptr_ << " beyond body_.size()=" << c->body_.size() << " after a record of " << L << " bytes"; return replay_fail(m.str()); }
			}
			if(got!=want) { std::ostringstream m; m << "records of " << N << " and " << M << " bytes read with a " << S << "-byte buffer delivered \"" << got << "\" instead of \"" << want << "\""; return replay_fail(m.str()); }
		}
		return replay_ok("STDIN hand-over: N,M in 1..6, buffer 1..7");
	}
	cppcms::json::value cfg; cfg["service"]["api"]="fastcgi"; cfg["service"]["socket"]="/var/tmp/cppcms-verif-replay.sock"; cfg["service"]["worker_threads"]=1;
	cppcms::service srv(cfg);
	booster::shared_ptr<fastcgi> c(new fastcgi(srv));
	c->body_.assign((size_t)w.vals["body_n"],0);
	c->cache_.assign((size_t)w.vals["cached"],0); c->cache_start_=0; c->cache_end_=c->cache_.size();
	{ std::vector<unsigned char> &cb=w.bufs["cache"]; for(size_t i=0;i<cb.size() && i<c->cache_.size();i++) c->cache_[i]=(char)cb[i]; }
	c->header_.type=(unsigned char)w.vals["type"];
	booster::system::error_code e; if(w.vals["e"]) e=std::make_error_code(std::errc::io_error);
	handler h(on_done);
	if(what=="params_record_expected") {
		c->header_.request_id=(uint16_t)w.vals["hdr_request_id"]; c->request_id_=(int)w.vals["request_id"]; c->header_.content_length=(uint16_t)w.vals["content_length"];
		c->params_record_expected(e,h);
	}
	else if(what=="on_start_request") {
		c->header_.version=(unsigned char)w.vals["version"];
		c->on_start_request(e,h);
	}
	else return 2;
	// drain queued continuations (socket is not open: they complete with an error and must pass it to h)
	booster::aio::io_service &ios=srv.impl().get_io_service();
	stopper st; st.s=&ios; ios.post(st);
	ios.run();
	std::cout << "handler invocations: " << calls << std::endl;
	if(calls>1) return replay_fail("completion handler invoked more than once for one request");
	return replay_ok();
}
