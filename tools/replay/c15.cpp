// native replay for units util / base64 (property C15): the REAL src/util.cpp,
// src/base64.cpp (and md5.cpp, which util.cpp needs) are compiled into this program.
#include "replay_common.h"
#include "src/md5.cpp"
#include "src/util.cpp"
#include "src/base64.cpp"
#include <sstream>

static std::string spec_escape(std::string const &s)
{
	std::string r;
	for(size_t i=0;i<s.size();i++) {
		switch(s[i]) { case '<': r+="&lt;"; break; case '>': r+="&gt;"; break; case '&': r+="&amp;"; break; case '"': r+="&quot;"; break; case '\'': r+="&#39;"; break; default: r+=s[i]; }
	}
	return r;
}
static bool unreserved(unsigned char c) { return (c>='a'&&c<='z')||(c>='A'&&c<='Z')||(c>='0'&&c<='9')||c=='-'||c=='_'||c=='.'||c=='~'; }
static std::string spec_urlencode(std::string const &s)
{
	std::string r; char const *hex="0123456789abcdef";
	for(size_t i=0;i<s.size();i++) { unsigned char c=s[i]; if(unreserved(c)) r+=char(c); else { r+='%'; r+=hex[c>>4]; r+=hex[c&15]; } }
	return r;
}
// a streambuf that accepts only `budget` bytes
struct limited_buf : public std::streambuf {
	std::string data; size_t budget;
	limited_buf(size_t b) : budget(b) {}
	int overflow(int c) { if(c==EOF) return 0; if(budget==0) return EOF; budget--; data+=char(c); return c; }
	std::streamsize xsputn(char const *s,std::streamsize n) { std::streamsize i=0; for(;i<n && budget>0;i++,budget--) data+=s[i]; return i; }
};
int main(int argc,char **argv)
{
	if(argc<3) return 2;
	std::string what=argv[1];
	witness w; if(!w.load(argv[2])) return 2;
	if(what=="b64size") {
		size_t s=(size_t)w.vals["s"];
		long e=cppcms::b64url::encoded_size(s), d=cppcms::b64url::decoded_size(s);
		long se=(4*s+2)/3; long sd = (s%4==1) ? -1 : (long)(3*s/4);
		if(e!=se) return replay_fail("encoded_size differs from ceil(4n/3)");
		if(d!=sd) return replay_fail("decoded_size differs from floor(3n/4) / -1");
		return replay_ok();
	}
	size_t n; char *b=w.heap("in",n); std::string in(b,n);
	if(what=="escape_str") {
		return cppcms::util::escape(in)==spec_escape(in) ? replay_ok() : replay_fail("util::escape(string) differs from the five-entity specification");
	}
	if(what=="escape_sb") {
		size_t budget=(size_t)w.vals["budget"];
		limited_buf lb(budget);
		int r=cppcms::util::escape(b,b+n,lb);
		std::string spec=spec_escape(in);
		if(budget>=spec.size()) { if(r!=0 || lb.data!=spec) return replay_fail("util::escape(streambuf) output differs from specification"); }
		else { if(r!=-1) return replay_fail("util::escape(streambuf) does not report a refused write"); if(spec.compare(0,lb.data.size(),lb.data)!=0) return replay_fail("partial output is not a prefix of the specification"); }
		return replay_ok();
	}
	if(what=="urlencode") {
		if(cppcms::util::urlencode(in)!=spec_urlencode(in)) return replay_fail("util::urlencode differs from unreserved/%XX specification");
		if(cppcms::util::urldecode(cppcms::util::urlencode(in))!=in) return replay_fail("urldecode(urlencode(s)) != s");
		return replay_ok();
	}
	if(what=="urldecode") {
		std::string out=cppcms::util::urldecode(b,b+n);
		// reference decoder
		std::string r;
		for(size_t i=0;i<n;i++) {
			char c=b[i];
			if(c=='+') r+=' ';
			else if(c=='%') { if(n-i>=3 && isxdigit((unsigned char)b[i+1]) && isxdigit((unsigned char)b[i+2])) { char t[3]={b[i+1],b[i+2],0}; r+=char(strtol(t,0,16)); i+=2; } }
			else r+=c;
		}
		if(out!=r) return replay_fail("util::urldecode differs from the token specification");
		if(cppcms::util::urldecode(spec_urlencode(in))!=in) return replay_fail("urldecode(urlencode(s)) != s");
		return replay_ok();
	}
	if(what=="b64") {
		std::string e=cppcms::b64url::encode(in);
		if((int)e.size()!=cppcms::b64url::encoded_size(n)) return replay_fail("encoded_size is not exact");
		for(size_t i=0;i<e.size();i++) { unsigned char c=e[i]; if(!((c>='A'&&c<='Z')||(c>='a'&&c<='z')||(c>='0'&&c<='9')||c=='-'||c=='_')) return replay_fail("character outside the URL-safe alphabet"); }
		std::string d;
		if(!cppcms::b64url::decode(e,d) || d!=in) return replay_fail("decode(encode(x)) != x");
		// exact-size raw buffers (ASan guards the ends)
		unsigned char *t=(unsigned char*)malloc(e.size());
		unsigned char *r=cppcms::b64url::encode((unsigned char const*)b,(unsigned char const*)b+n,t);
		if(size_t(r-t)!=e.size()) return replay_fail("pointer encode wrote a different number of bytes than encoded_size");
		free(t);
		return replay_ok();
	}
	return 2;
}
