// native replay for unit tcpcache (C10): the REAL session class of src/tcp_cache_server.cpp (working tree) and the REAL
// tcp_connector::hash, driven with the header fields and message bytes of the witness, under ASan/UBSan.
#include <sstream>
#include <vector>
#include <string>
#include <map>
#include <set>
#include <memory>
#include <iostream>
#include <unistd.h>
#include <booster/shared_ptr.h>
#include <booster/enable_shared_from_this.h>
#include <booster/aio/io_service.h>
#include <booster/aio/socket.h>
#define private public
#define protected public
#include "src/tcp_cache_server.cpp"   // the working-tree sources, not the prebuilt library
#include "src/tcp_cache_client.cpp"
#include "src/tcp_connector.cpp"
#include "src/tcp_messenger.cpp"
#include "src/cache_over_ip.cpp"
#undef private
#undef protected
#include "replay_common.h"
using namespace cppcms::impl;
int main(int argc,char **argv)
{
	if(argc<3) return 2;
	std::string what=argv[1];
	witness w; if(!w.load(argv[2])) return 2;
	booster::aio::io_service srv;
	booster::intrusive_ptr<base_cache> cache=thread_cache_factory(10);
	booster::shared_ptr<cppcms::sessions::session_storage_factory> none;
	booster::shared_ptr<tcp_cache_service::session> s(new tcp_cache_service::session(srv,cache,none));
	if(what=="srv_store") {
		memset(&s->hin_,0,sizeof(s->hin_)); memset(&s->hout_,0,sizeof(s->hout_));
		s->hin_.opcode=opcodes::store;
		s->hin_.size=(uint32_t)w.vals["size"];
		s->hin_.operations.store.key_len=(uint32_t)w.vals["key_len"];
		s->hin_.operations.store.data_len=(uint32_t)w.vals["data_len"];
		s->hin_.operations.store.triggers_len=(uint32_t)w.vals["triggers_len"];
		s->hin_.operations.store.timeout=time(0)+100;
		std::vector<unsigned char> &m=w.bufs["msg"];
		// what on_header_in does: the payload buffer has exactly the announced size
		s->data_in_.clear(); s->data_in_.resize(s->hin_.size);
		for(size_t i=0;i<m.size() && i<s->data_in_.size();i++) s->data_in_[i]=(char)m[i];
		std::cout << "store: key_len=" << s->hin_.operations.store.key_len << " data_len=" << s->hin_.operations.store.data_len
			  << " triggers_len=" << s->hin_.operations.store.triggers_len << " size=" << s->hin_.size << std::endl;
		s->store();
		std::cout << "reply opcode " << s->hout_.opcode << std::endl;
		if(s->hout_.opcode==opcodes::done) {
			// accepted: the three pieces must be exactly the message
			unsigned long long sum=(unsigned long long)s->hin_.operations.store.key_len+s->hin_.operations.store.data_len+s->hin_.operations.store.triggers_len;
			if(sum!=s->hin_.size) return replay_fail("store accepted a message whose pieces do not add up to its size");
			std::string key(s->data_in_.begin(),s->data_in_.begin()+s->hin_.operations.store.key_len),val;
			std::set<std::string> tags;
			if(!cache->fetch(key,&val,&tags,0,0)) return replay_fail("stored entry not found");
			std::string want(s->data_in_.begin()+s->hin_.operations.store.key_len,s->data_in_.begin()+s->hin_.operations.store.key_len+s->hin_.operations.store.data_len);
			if(val!=want) return replay_fail("stored value differs from message[key_len,key_len+data_len)");
		}
		return replay_ok();
	}
	if(what=="loopback") {
		// a real server on the loopback interface, two real nodes each with a local L1 cache and one without, driven through a
		// pseudo-random history (values with NUL bytes, empty values, 0..6 triggers) against a reference map
		int port=6100+2*(getpid()%800);
		// two servers: generations are per server, so a node-local stamp can only be confused with a server stamp when keys are spread
		std::vector<std::string> ips(2,"127.0.0.1"); std::vector<int> ports(1,port); ports.push_back(port+1);
		std::unique_ptr<tcp_cache_service> server(new tcp_cache_service(thread_cache_factory(1000),none,1,"127.0.0.1",port));
		std::unique_ptr<tcp_cache_service> server2(new tcp_cache_service(thread_cache_factory(1000),none,1,"127.0.0.1",port+1));
		int rc=0;
		try {
			booster::intrusive_ptr<base_cache> node[3];
			node[0]=tcp_cache_factory(ips,ports,thread_cache_factory(50));
			node[1]=tcp_cache_factory(ips,ports,thread_cache_factory(50));
			node[2]=tcp_cache_factory(ips,ports,0);
			struct ent { std::string val; std::set<std::string> trig; };
			std::map<std::string,ent> ref;
			unsigned long long rnd=88172645463325252ull+(unsigned long long)w.vals["seed"];
			#define RND() (rnd^=rnd<<13,rnd^=rnd>>7,rnd^=rnd<<17,rnd)
			char const *keys[]={"k0","k1","k2","a-much-longer-key-with-some-text-in-it"};
			char const *trigs[]={"t0","t1","t2","t3","trigger-with-a-long-name","x"};
			// directed probe first: a node-local L1 stamp must never be mistaken for a server generation.  Two keys on different servers,
			// the L1 node fills its cache twice, then another node replaces the second key (server generation 1 == number of L1 fills - 1)
			{
				tcp_connector probe(ips,ports); std::string ka,kb;
				for(int i=0;i<100 && (ka.empty()||kb.empty());i++) { std::ostringstream k; k << "probe" << i; if(probe.hash(k.str())==0) { if(ka.empty()) ka=k.str(); } else if(kb.empty()) kb=k.str(); }
				std::set<std::string> nt; std::string got;
				for(int round=0;round<4 && rc==0;round++) {
					std::ostringstream v; v << "v" << round;
					node[2]->store(ka,"a"+v.str(),nt,time(0)+1000); node[2]->store(kb,"b"+v.str(),nt,time(0)+1000);
					if(!node[0]->fetch(ka,&got,0,0,0) || got!="a"+v.str()) rc=replay_fail("directed probe: node with L1 returned a replaced value for "+ka+": "+got);
					if(rc==0 && (!node[0]->fetch(kb,&got,0,0,0) || got!="b"+v.str())) rc=replay_fail("directed probe: node with L1 returned a replaced value for "+kb+": "+got);
					node[2]->store(kb,"c"+v.str(),nt,time(0)+1000);
					if(rc==0 && (!node[0]->fetch(kb,&got,0,0,0) || got!="c"+v.str())) rc=replay_fail("directed probe: node with L1 returned a replaced value for "+kb+": "+got);
				}
				node[2]->clear();
				// directed probe 2: a value replaced by the EMPTY value must be seen as empty by a node whose L1 still holds the old one
				node[2]->store(ka,"old-value",nt,time(0)+1000);
				if(!node[0]->fetch(ka,&got,0,0,0) || got!="old-value") rc=replay_fail("directed probe: L1 node did not see the stored value");
				node[2]->store(ka,"",nt,time(0)+1000);
				got="caller-garbage";
				if(rc==0 && (!node[0]->fetch(ka,&got,0,0,0) || got!="")) rc=replay_fail("directed probe: a value replaced by the empty value is still returned as \""+got+"\"");
				got="caller-garbage";
				if(rc==0 && (!node[2]->fetch(ka,&got,0,0,0) || got!="")) rc=replay_fail("directed probe: fetch of an empty value leaves the caller's previous content: \""+got+"\"");
				node[2]->clear();
			}
			for(int step=0;step<1500 && rc==0;step++) {
				int n=RND()%3; std::string key=keys[RND()%4];
				int op=RND()%10;
				if(op<4) {
					ent e; size_t len=RND()%40; if(RND()%8==0) len=0; if(RND()%16==0) len=70000;
					for(size_t i=0;i<len;i++) e.val+=(char)(RND()%5==0 ? 0 : RND()%256);
					int nt=RND()%7; for(int i=0;i<nt;i++) e.trig.insert(trigs[RND()%6]);
					node[n]->store(key,e.val,e.trig,time(0)+1000);
					ref[key]=e;
				}
				else if(op<8) {
					std::string got; std::set<std::string> tg; bool want_tags=RND()%2;
					bool r=node[n]->fetch(key,&got,want_tags ? &tg : 0,0,0);
					bool have=ref.count(key)!=0;
					std::ostringstream m; m << "step " << step << " node " << n << " key " << key << ": ";
					if(r!=have) { m << (r ? "hit on a key the server no longer holds" : "miss on a live key"); rc=replay_fail(m.str()); }
					else if(r && got!=ref[key].val) { m << "value differs from the most recent store (got " << got.size() << " bytes, want " << ref[key].val.size() << ")"; rc=replay_fail(m.str()); }
					else if(r && want_tags) {
						std::set<std::string> wantset=ref[key].trig; wantset.insert(key);
						// every trigger of the current entry must be reported (a node with L1 may report older ones as well)
						for(std::set<std::string>::iterator p=wantset.begin();p!=wantset.end();++p)
							if(!tg.count(*p)) { m << "trigger " << *p << " lost"; rc=replay_fail(m.str()); break; }
						if(rc==0 && n==2 && tg!=wantset) { m << "trigger set differs"; rc=replay_fail(m.str()); }
					}
				}
				else if(op<9) {
					std::string t=(RND()%2) ? std::string(trigs[RND()%6]) : key;
					node[n]->rise(t);
					for(std::map<std::string,ent>::iterator p=ref.begin();p!=ref.end();) {
						if(p->first==t || p->second.trig.count(t)) ref.erase(p++); else ++p;
					}
				}
				else { node[n]->clear(); ref.clear(); }
			}
			// key spreading: same key, same server index on every node object; index in range
			std::vector<std::string> ips3(3,"127.0.0.1"); std::vector<int> ports3(3,port);
			tcp_connector c1(ips3,ports3),c2(ips3,ports3);
			for(int i=0;i<2000 && rc==0;i++) {
				std::string k; size_t len=RND()%20; for(size_t j=0;j<len;j++) k+=(char)(RND()%256);
				unsigned h1=c1.hash(k),h2=c2.hash(k);
				if(h1!=h2 || h1>=3) rc=replay_fail("tcp_connector::hash not consistent / out of range");
			}
		}
		catch(std::exception const &e) { rc=replay_fail(std::string("exception: ")+e.what()); }
		server->stop(); server.reset(); server2->stop(); server2.reset();
		return rc ? rc : replay_ok("1500-step history, 3 nodes, 2 servers + 2000 hashed keys");
	}
	return 2;
}
