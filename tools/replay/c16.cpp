// native replay for unit hash (C16): the REAL src/md5.cpp and private/sha1.h against OpenSSL's MD5/SHA-1
// on messages built from the witness block (all residues of the length mod 64 up to two blocks).
#include "replay_common.h"
#include "src/md5.cpp"
#include "src/crypto.cpp"     // working-tree HMAC / message_digest glue
#include "sha1.h"
#include <openssl/md5.h>
#include <openssl/sha.h>
#include <openssl/hmac.h>
#include <openssl/evp.h>
#include <string.h>
int main(int argc,char **argv)
{
	if(argc<3) return 2;
	std::string what=argv[1];
	witness w; if(!w.load(argv[2])) return 2;
	if(what=="hmac") {
		// cppcms::crypto::hmac (md5, sha1) against OpenSSL HMAC for key lengths 0..150 (shorter than, equal to and longer than the 64-byte block) and
		// message lengths 0..70; the object is reused for a second message (readout re-arms it)
		for(int alg=0;alg<2;alg++) for(size_t kl=0;kl<=150;kl++) for(size_t ml=0;ml<=70;ml+=(ml<4?1:11)) {
			std::vector<unsigned char> key(kl?kl:1),msg(ml?ml:1);
			for(size_t i=0;i<kl;i++) key[i]=(unsigned char)(i*37+kl);
			for(size_t i=0;i<ml;i++) msg[i]=(unsigned char)(i*91+ml+alg);
			cppcms::crypto::hmac h(alg==0?"md5":"sha1",cppcms::crypto::key(&key[0],kl));
			unsigned char got[64],ref[64]; unsigned rl=0;
			for(int round=0;round<2;round++) {
				h.append(&msg[0],ml/2); h.append(&msg[0]+ml/2,ml-ml/2);
				h.readout(got);
				HMAC(alg==0?EVP_md5():EVP_sha1(),&key[0],(int)kl,&msg[0],ml,ref,&rl);
				if(rl!=h.digest_size() || memcmp(got,ref,rl)!=0) { std::ostringstream m; m << "HMAC-" << (alg==0?"MD5":"SHA1") << " differs from OpenSSL: key length " << kl << ", message length " << ml << ", use " << round; return replay_fail(m.str()); }
			}
		}
		return replay_ok("HMAC-MD5/SHA1 vs OpenSSL, key lengths 0..150");
	}
	std::vector<unsigned char> msg=w.bufs["block"];
	// extend deterministically to 150 bytes so every padding residue and a second block are exercised
	for(size_t i=msg.size();i<150;i++) msg.push_back((unsigned char)(i*131+7));
	std::vector<unsigned char> store(msg.size()+8);
	for(size_t mis=0;mis<4;mis++)
	for(size_t len=0;len<=msg.size();len++) {
		unsigned char ref[20],got[20];
		// the message at every alignment of the input pointer (md5_process has an aligned and an unaligned path)
		unsigned char *base=&store[0]; while(((size_t)base)&3) base++; base+=mis;
		memcpy(base,&msg[0],msg.size());
		if(what=="md5") {
			MD5(base,len,ref);
			cppcms::impl::md5_state_t st; cppcms::impl::md5_init(&st);
			// feed in two pieces to exercise chunking
			cppcms::impl::md5_append(&st,base,(int)(len/3));
			cppcms::impl::md5_append(&st,base+len/3,(int)(len-len/3));
			cppcms::impl::md5_finish(&st,got);
			if(memcmp(ref,got,16)!=0) return replay_fail("bundled MD5 differs from OpenSSL MD5");
		}
		else if(what=="sha1") {
			SHA1(base,len,ref);
			cppcms::impl::sha1 s; s.process_bytes(base,len/3); s.process_bytes(base+len/3,len-len/3);
			unsigned int d[5]; s.get_digest(d);
			for(int i=0;i<5;i++) { got[4*i]=d[i]>>24; got[4*i+1]=d[i]>>16; got[4*i+2]=d[i]>>8; got[4*i+3]=d[i]; }
			if(memcmp(ref,got,20)!=0) return replay_fail("bundled SHA-1 differs from OpenSSL SHA-1");
		}
		else return 2;
	}
	return replay_ok();
}
