// native replay for unit hash (C16): the REAL src/md5.cpp and private/sha1.h against OpenSSL's MD5/SHA-1
// on messages built from the witness block (all residues of the length mod 64 up to two blocks).
#include "replay_common.h"
#include "src/md5.cpp"
#include "sha1.h"
#include <openssl/md5.h>
#include <openssl/sha.h>
#include <string.h>
int main(int argc,char **argv)
{
	if(argc<3) return 2;
	std::string what=argv[1];
	witness w; if(!w.load(argv[2])) return 2;
	std::vector<unsigned char> msg=w.bufs["block"];
	// extend deterministically to 150 bytes so every padding residue and a second block are exercised
	for(size_t i=msg.size();i<150;i++) msg.push_back((unsigned char)(i*131+7));
	std::vector<unsigned char> store(msg.size()+8);
	for(size_t mis=0;mis<4;mis++)
	for(size_t len=0;len<=msg.size();len++) {
		unsigned char ref[20],got[20];
		// the message at every alignment of the input pointer (md5_process has an aligned and an unaligned path)
		unsigned char *base=&store[0]; while(((size_t)base)&3) base++; base+=mis;
		memcpy(base,&msg[0],msg.size());
		if(what=="md5") {
			MD5(base,len,ref);
			cppcms::impl::md5_state_t st; cppcms::impl::md5_init(&st);
			// feed in two pieces to exercise chunking
			cppcms::impl::md5_append(&st,base,(int)(len/3));
			cppcms::impl::md5_append(&st,base+len/3,(int)(len-len/3));
			cppcms::impl::md5_finish(&st,got);
			if(memcmp(ref,got,16)!=0) return replay_fail("bundled MD5 differs from OpenSSL MD5");
		}
		else if(what=="sha1") {
			SHA1(base,len,ref);
			cppcms::impl::sha1 s; s.process_bytes(base,len/3); s.process_bytes(base+len/3,len-len/3);
			unsigned int d[5]; s.get_digest(d);
			for(int i=0;i<5;i++) { got[4*i]=d[i]>>24; got[4*i+1]=d[i]>>16; got[4*i+2]=d[i]>>8; got[4*i+3]=d[i]; }
			if(memcmp(ref,got,20)!=0) return replay_fail("bundled SHA-1 differs from OpenSSL SHA-1");
		}
		else return 2;
	}
	return replay_ok();
}
