#!/usr/bin/env python3
"""cxx2c -- mechanical extraction of C++ function bodies from /repo into a C
translation unit that cbmc's C front end accepts (DESIGN.md section 3.1).

Nothing here knows about any particular function: the unit spec names the
source file, a locator regex that must match the *whole* original signature
exactly once, the C signature that replaces it, and token-level rewrite rules
with a minimum firing count.  The function *body* is taken verbatim from the
working tree on every run and only touched by the rules below; a rule that
fires fewer times than its declared minimum, or a locator that does not match
exactly once, raises ExtractionDrift (exit 2 in the driver, never a violation).
"""
import re, difflib

class ExtractionDrift(Exception):
    pass

# ---------------------------------------------------------------- lexing help
def blank_comments(text):
    """Replace comments by spaces (newlines kept) so offsets stay valid."""
    out = []
    i, n = 0, len(text)
    while i < n:
        c = text[i]
        if c == '/' and i + 1 < n and text[i+1] == '/':
            j = text.find('\n', i)
            if j < 0: j = n
            out.append(' ' * (j - i)); i = j
        elif c == '/' and i + 1 < n and text[i+1] == '*':
            j = text.find('*/', i + 2)
            if j < 0: j = n - 2
            seg = text[i:j+2]
            out.append(''.join('\n' if ch == '\n' else ' ' for ch in seg)); i = j + 2
        elif c == '"' or c == "'":
            j = skip_literal(text, i)
            out.append(text[i:j]); i = j
        else:
            out.append(c); i += 1
    return ''.join(out)

def skip_literal(text, i):
    q = text[i]; j = i + 1
    while j < len(text):
        if text[j] == '\\': j += 2; continue
        if text[j] == q: return j + 1
        j += 1
    return j

def match_close(text, i):
    """text[i] is an opening bracket; return index of the matching close."""
    pairs = {'(': ')', '{': '}', '[': ']'}
    op = text[i]; cl = pairs[op]
    depth = 0; j = i
    while j < len(text):
        c = text[j]
        if c == '"' or c == "'":
            j = skip_literal(text, j); continue
        if c == op: depth += 1
        elif c == cl:
            depth -= 1
            if depth == 0: return j
        j += 1
    raise ExtractionDrift("unbalanced %r at offset %d" % (op, i))

def split_args(s):
    """split a balanced argument string on top-level commas"""
    args = []; depth = 0; cur = []; i = 0
    while i < len(s):
        c = s[i]
        if c == '"' or c == "'":
            j = skip_literal(s, i); cur.append(s[i:j]); i = j; continue
        if c in '([{': depth += 1
        elif c in ')]}': depth -= 1
        if c == ',' and depth == 0:
            args.append(''.join(cur)); cur = []
        else:
            cur.append(c)
        i += 1
    last = ''.join(cur)
    if last.strip() or args: args.append(last)
    return args

# ---------------------------------------------------------------- locating
def cut_function(text, locate, what):
    """Return (line, signature_text, body_with_braces).  `locate` must match
    exactly once in the comment-blanked text and must be followed (after an
    optional ctor-initialiser / const / throw-spec free gap of white space and
    `const`) by the opening brace of the body."""
    clean = blank_comments(text)
    ms = list(re.finditer(locate, clean))
    if len(ms) != 1:
        raise ExtractionDrift("%s: locator %r matched %d times (need exactly 1)" % (what, locate, len(ms)))
    m = ms[0]
    j = m.end()
    gap = re.match(r'\s*(const\b)?\s*', clean[j:])
    j += gap.end()
    if j >= len(clean) or clean[j] != '{':
        raise ExtractionDrift("%s: locator not followed by a function body (found %r)" % (what, clean[j:j+20]))
    k = match_close(clean, j)
    line = clean.count('\n', 0, m.start()) + 1
    return line, clean[m.start():m.end()], clean[j:k+1]

def cut_region(text, start_re, end_re, what):
    """verbatim region between two unique markers (used for macro bodies,
    tables and struct definitions)"""
    clean = blank_comments(text)
    ms = list(re.finditer(start_re, clean))
    if len(ms) != 1:
        raise ExtractionDrift("%s: region start %r matched %d times" % (what, start_re, len(ms)))
    line = clean.count('\n', 0, ms[0].start()) + 1
    if end_re is None:
        # brace-matched block (struct/enum definition) plus the trailing ';'
        j = clean.index('{', ms[0].start())
        k = match_close(clean, j)
        while clean[k+1].isspace(): k += 1
        if clean[k+1] == ';': k += 1
        return line, clean[ms[0].start():k+1]
    me = re.compile(end_re).search(clean, ms[0].end())
    if not me:
        raise ExtractionDrift("%s: region end %r not found" % (what, end_re))
    return line, clean[ms[0].start():me.end()]

# ---------------------------------------------------------------- generic rewrites (R4, R11)
CAST_RE = re.compile(r'\b(static_cast|reinterpret_cast|const_cast)\s*<')
FUNC_CAST_TYPES = r'(?:unsigned\s+char|unsigned\s+int|unsigned\s+long|char|int|unsigned|uint8_t|uint16_t|uint32_t|uint64_t|int32_t|int64_t|size_t|long\s+long|long|short|bool|double|time_t)'
FUNC_CAST_RE = re.compile(r'(?<![\w>.])(' + FUNC_CAST_TYPES + r')\s*\(')

def rewrite_named_casts(body, stats):
    while True:
        m = CAST_RE.search(body)
        if not m: return body
        # find matching '>' (types here contain no nested templates with parens)
        i = m.end() - 1; depth = 0; j = i
        while j < len(body):
            if body[j] == '<': depth += 1
            elif body[j] == '>':
                depth -= 1
                if depth == 0: break
            j += 1
        typ = body[i+1:j]
        k = j + 1
        while body[k].isspace(): k += 1
        if body[k] != '(':
            raise ExtractionDrift("cast without parenthesis")
        e = match_close(body, k)
        body = body[:m.start()] + '((' + typ + ')(' + body[k+1:e] + '))' + body[e+1:]
        stats['R4.named_cast'] = stats.get('R4.named_cast', 0) + 1

def rewrite_functional_casts(body, stats):
    pos = 0
    while True:
        m = FUNC_CAST_RE.search(body, pos)
        if not m: return body
        # not a declaration/definition: previous token must not be a type word
        prev = body[:m.start()].rstrip()
        prevtok = re.search(r'(\w+)$', prev)
        if prevtok and prevtok.group(1) in ('unsigned', 'signed', 'const', 'static', 'struct', 'sizeof', 'return') and prevtok.group(1) != 'return':
            pos = m.end(); continue
        k = m.end() - 1
        e = match_close(body, k)
        inner = body[k+1:e]
        if inner.strip() == '':      # T() value-init
            rep = '((' + m.group(1) + ')0)'
        else:
            rep = '((' + m.group(1) + ')(' + inner + '))'
        body = body[:m.start()] + rep + body[e+1:]
        stats['R4.functional_cast'] = stats.get('R4.functional_cast', 0) + 1
        pos = m.start() + 2 + len(m.group(1))

GENERIC = [
    (re.compile(r'\busing\s+(namespace\s+)?[\w:]+\s*;'), '', 'R4.using'),
    (re.compile(r'\bstd::(size_t|ptrdiff_t|memcpy|memcmp|memset|memmove|memchr|strlen|strcmp|min|max)\b'), r'\1', 'R4.std'),
    (re.compile(r'\bBOOSTER_LOCALE_(UN)?LIKELY\b'), '', 'R11.likely'),
    (re.compile(r'\bBOOSTER_(UN)?LIKELY\b'), '', 'R11.likely'),
    (re.compile(r'\bnullptr\b'), '0', 'R4.nullptr'),
]

# ---------------------------------------------------------------- calls of extracted callees (R3, R5)
def fix_calls(body, cname, spec, stats):
    """For every call `cname(args)`: pad default arguments (R5), take the
    address of reference arguments (R3)."""
    nparams = spec['nparams']; defaults = spec.get('defaults', []); refidx = spec.get('ref_idx', [])
    self_arg = spec.get('self_arg')
    pat = re.compile(r'(?<![\w.])(?<!->)' + re.escape(cname) + r'\s*\(')
    pos = 0
    while True:
        m = pat.search(body, pos)
        if not m: return body
        k = m.end() - 1
        e = match_close(body, k)
        args = [a.strip() for a in split_args(body[k+1:e])]
        if self_arg is not None and len(args) + len(defaults) < nparams + (0 if not defaults else 0) and len(args) < nparams:
            args = [self_arg] + args
        missing = nparams - len(args)
        if missing < 0 or missing > len(defaults):
            raise ExtractionDrift("call of %s with %d args (takes %d, %d defaults)" % (cname, len(args), nparams, len(defaults)))
        if missing:
            args += defaults[len(defaults)-missing:]
            stats['R5.default_arg'] = stats.get('R5.default_arg', 0) + missing
        for i in refidx:
            args[i] = '&(' + args[i] + ')'
            stats['R3.ref_arg'] = stats.get('R3.ref_arg', 0) + 1
        rep = cname + '(' + ', '.join(args) + ')'
        body = body[:m.start()] + rep + body[e+1:]
        pos = m.start() + len(cname) + 1

# ---------------------------------------------------------------- loops
LOOP_KW = re.compile(r'\b(while|for|do)\b')

def loop_insert_points(body):
    """Offsets (into body) just after the header of each loop, in source order
    of the loop keyword.  For do-while the point is after `while(...)`."""
    pts = []; skip = set(); i = 0
    while True:
        m = LOOP_KW.search(body, i)
        if not m: break
        # ignore keywords inside literals
        kw = m.group(1); s = m.start()
        if s in skip:
            i = m.end(); continue
        if kw in ('while', 'for'):
            k = m.end()
            while body[k].isspace(): k += 1
            if body[k] != '(':
                i = m.end(); continue
            e = match_close(body, k)
            pts.append((s, e + 1))
            i = m.end()
        else:
            k = m.end()
            while body[k].isspace(): k += 1
            if body[k] != '{':
                raise ExtractionDrift("do without block")
            e = match_close(body, k)
            mw = re.compile(r'\s*while\s*\(').match(body, e + 1)
            if not mw: raise ExtractionDrift("do without while")
            wk = mw.end() - 1
            we = match_close(body, wk)
            ws = body.index('while', e + 1)
            skip.add(ws)
            pts.append((s, we + 1))
            i = m.end()
    pts.sort()
    return [p for _, p in pts]

# ---------------------------------------------------------------- main entry
def apply_rules(body, rules, what, stats):
    for idx, rule in enumerate(rules):
        pat, rep, minc = rule[0], rule[1], (rule[2] if len(rule) > 2 else 1)
        lint_rule(pat, what)
        body, n = re.subn(pat, rep, body)
        # must-fire means "the construct still exists": the declared count is documentation, one firing suffices, so a
        # change that removes ONE of several occurrences is judged by the obligations, not reported as drift
        if n < min(minc, 1):
            raise ExtractionDrift("%s: rewrite rule %r fired %d times, needs >= %d (extraction drift)" % (what, pat, n, minc))
        stats['rule[%d] %s' % (idx, pat)] = n
    return body

LINT_BAD = re.compile(r'(?<!\\)(<=|>=|==|!=)|(?<![\\\w{,])\d+(?![\w},])')
def lint_rule(pat, what):
    """A rewrite pattern may not match on a comparison operator or a numeric
    literal: rules must not be able to absorb an edit of a constant or of a
    comparison (DESIGN 3.1)."""
    core = re.sub(r'\\[dDwWsSbB]', '', pat)
    core = re.sub(r'\\[\[\]().*+?{}|^$\\]', '', core)          # escaped punctuation
    core = re.sub(r'\(\?[:=!<]+|\[[^\]]*\]|\{\d*,?\d*\}', '', core)
    if LINT_BAD.search(core):
        raise ExtractionDrift("%s: rewrite pattern %r mentions a comparison or a number (forbidden by policy)" % (what, pat))

def extract_function(repo, fn, unit_renames, callees):
    """fn: dict with file, locate, sig, and optional refs, members, rename,
    rewrites, throw_ret, contract, loops.  Returns dict(c_text, line, diff, stats)."""
    if fn.get('stub'):
        return dict(c_text='/* stub (no body; assumed contract, listed as trusted) */\n%s\n%s;\n' % (fn['sig'], fn.get('contract', '').strip()),
                    line=0, diff=[], stats={}, nloops=0)
    path = repo + '/' + fn['file']
    text = open(path, encoding='latin-1').read()
    if fn.get('macro_body'):
        text = text.replace('\\\n', ' \n')      # the function lives inside a multi-line #define
    what = fn['cname']
    line, sigtext, body = cut_function(text, fn['locate'], what)
    orig = sigtext + '\n' + body
    stats = {}
    if 'slice' in fn:
        # derived function: the block of the n-th loop, text after a marker, as a function body (R12-like,
        # the text itself is the repository's)
        sl = fn['slice']
        if 'between' in sl:
            # derived function: the statements from the (unique) start marker up to the end of the (unique) end marker
            ms = list(re.finditer(sl['between'][0], body)); me = list(re.finditer(sl['between'][1], body))
            if len(ms) != 1 or len(me) != 1 or me[0].end() <= ms[0].start():
                raise ExtractionDrift("%s: slice markers matched %d / %d times" % (what, len(ms), len(me)))
            body = '{' + body[ms[0].start():me[0].end()] + sl.get('tail', '') + '}'
        else:
            pts0 = loop_insert_points(body)
            if sl['loop'] >= len(pts0): raise ExtractionDrift("%s: slice loop %d missing" % (what, sl['loop']))
            q = pts0[sl['loop']]
            while body[q].isspace(): q += 1
            if body[q] != '{': raise ExtractionDrift("%s: slice loop body is not a block" % what)
            qe = match_close(body, q)
            blk = body[q+1:qe]
            ms = list(re.finditer(sl['after'], blk))
            if len(ms) != 1: raise ExtractionDrift("%s: slice marker %r matched %d times" % (what, sl['after'], len(ms)))
            body = '{' + blk[ms[0].end():] + sl.get('tail', '') + '}'
        stats['slice'] = 1
    # R6 exceptions
    if 'throw_ret' in fn:
        def thr(m):
            stats['R6.throw'] = stats.get('R6.throw', 0) + 1
            return '{ verif_thrown = 1; return %s; }' % fn['throw_ret']
        # throw X(...balanced...);
        pos = 0
        while True:
            m = re.compile(r'\bthrow\b').search(body, pos)
            if not m: break
            semi = m.end(); depth = 0
            while semi < len(body):
                c = body[semi]
                if c in '"\'': semi = skip_literal(body, semi); continue
                if c in '([{': depth += 1
                elif c in ')]}': depth -= 1
                elif c == ';' and depth == 0: break
                semi += 1
            rv = fn['throw_ret']
            rep = '{ verif_thrown = 1; return%s; }' % ((' ' + rv) if rv else '')
            body = body[:m.start()] + rep + body[semi+1:]
            stats['R6.throw'] = stats.get('R6.throw', 0) + 1
            pos = m.start() + len(rep)
    elif re.search(r'\bthrow\b', body):
        raise ExtractionDrift("%s: body throws but spec has no throw_ret" % what)
    # hoist: a declaration (static table) inside the body is moved verbatim to file scope
    hoisted = []
    for pat in fn.get('hoist', []):
        lint_rule(pat, what)
        ms = list(re.finditer(pat, body))
        if len(ms) != 1: raise ExtractionDrift("%s: hoist pattern %r matched %d times" % (what, pat, len(ms)))
        hoisted.append(ms[0].group(0))
        body = body[:ms[0].start()] + body[ms[0].end():]
        stats['hoist'] = stats.get('hoist', 0) + 1
    # per-function rules first (they see the original text)
    body = apply_rules(body, fn.get('rewrites', []), what, stats)
    # generic rules
    for pat, rep, tag in GENERIC:
        body, n = pat.subn(rep, body)
        if n: stats[tag] = stats.get(tag, 0) + n
    body = rewrite_named_casts(body, stats)
    if fn.get('functional_casts', True):
        body = rewrite_functional_casts(body, stats)
    # R1: scoped names  a::b -> a_b   (after std:: strip)
    body, n = re.subn(r'\b([A-Za-z_]\w*)::(?=[A-Za-z_])', r'\1_', body)
    if n: stats['R1.scope'] = n
    # renames (unit-level then function-level); identifiers not preceded by . -> or word char
    ren = dict(unit_renames); ren.update(fn.get('rename', {}))
    for a, b in ren.items():
        body, n = re.subn(r'(?<![\w.])(?<!->)' + re.escape(a) + r'\b(?!\s*::)', b, body)
        if n: stats['R1.rename ' + a] = n
    # members
    for mname in fn.get('members', []):
        body, n = re.subn(r'(?<![\w.])(?<!->)' + re.escape(mname) + r'\b', 'self->' + mname, body)
        if n: stats['R1.member ' + mname] = n
    # reference parameters / locals
    for r in fn.get('refs', []):
        body, n = re.subn(r'(?<![\w.])(?<!->)' + re.escape(r) + r'\b', '(*' + r + ')', body)
        if n == 0:
            raise ExtractionDrift("%s: reference parameter %s unused" % (what, r))
        stats['R3.ref ' + r] = n
    # calls of extracted callees
    for cname, cs in callees.items():
        body = fix_calls(body, cname, cs, stats)
    # R6: propagate exceptions out of calls to callees that may throw
    for cname in fn.get('throwing_callees', []):
        pos = 0
        pat = re.compile(r'(?<![\w.])(?<!->)' + re.escape(cname) + r'\s*\(')
        while True:
            m = pat.search(body, pos)
            if not m: break
            semi = m.end() - 1; depth = 0
            while semi < len(body):
                c = body[semi]
                if c in '"\'': semi = skip_literal(body, semi); continue
                if c in '([{': depth += 1
                elif c in ')]}': depth -= 1
                elif c == ';' and depth == 0: break
                semi += 1
            if depth != 0 or semi >= len(body):
                raise ExtractionDrift("%s: call of throwing callee %s is not a simple statement" % (what, cname))
            rv = fn.get('throw_ret', '')
            ins = ' if(verif_thrown) return%s;' % ((' ' + rv) if rv else '')
            body = body[:semi+1] + ins + body[semi+1:]
            stats['R6.propagate'] = stats.get('R6.propagate', 0) + 1
            pos = semi + 1 + len(ins)
    # post rules (see the C-ified text)
    body = apply_rules(body, fn.get('post_rewrites', []), what, stats)
    # loop contracts
    loops = fn.get('loops', {})
    lghost = fn.get('loop_ghost', {})
    pts = loop_insert_points(body)
    if loops or lghost:
        if max(list(loops) + list(lghost)) >= len(pts):
            raise ExtractionDrift("%s: loop contract for loop %d but body has %d loops" % (what, max(list(loops) + list(lghost)), len(pts)))
        for idx in sorted(set(loops) | set(lghost), reverse=True):
            p = pts[idx]
            if idx in lghost:
                # R12: ghost statements at the start of the loop body (ghost lvalues only)
                lint_ghost(lghost[idx], what)
                q = p
                while body[q].isspace(): q += 1
                if body[q] != '{':
                    raise ExtractionDrift("%s: loop %d body is not a block, cannot place ghost statements" % (what, idx))
                body = body[:q+1] + ' ' + lghost[idx].strip() + ' ' + body[q+1:]
            if idx in loops:
                body = body[:p] + '\n' + loops[idx].strip() + '\n' + body[p:]
    if fn.get('body_ghost'):
        lint_ghost(fn['body_ghost'], what)
        body = '{ ' + fn['body_ghost'].strip() + ' ' + body[1:]
    # cut points / ghost statements inserted by ordinal of a marker regex (R12)
    for (pat, nth, textins) in fn.get('inserts', []):
        ms = list(re.finditer(pat, body))
        if nth >= len(ms):
            raise ExtractionDrift("%s: insert marker %r #%d not found" % (what, pat, nth))
        lint_ghost(textins, what)
        p = ms[nth].end()
        body = body[:p] + ' ' + textins + ' ' + body[p:]
    contract = fn.get('contract', '').strip()
    c_text = '/* extracted from %s:%d */\n%s%s\n%s\n%s\n' % (fn['file'], line, ''.join('/* hoisted from the body */ ' + h + '\n' for h in hoisted), fn['sig'], contract, body)
    diff = list(difflib.unified_diff(orig.splitlines(), (fn['sig'] + '\n' + body).splitlines(),
                                     fn['file'] + ':%d' % line, what + '.c', lineterm='', n=0))
    return dict(c_text=c_text, line=line, diff=diff, stats=stats, nloops=len(pts))

GHOST_LHS = re.compile(r'\b([A-Za-z_]\w*)\s*(\[[^\]]*\])?\s*(=|\+=|\+\+|--|-=|\|=|\^=|&=)(?!=)')
def lint_ghost(text, what):
    """inserted ghost statements may only assign g_* variables or call G_* macros"""
    for m in GHOST_LHS.finditer(text):
        if not m.group(1).startswith('g_'):
            raise ExtractionDrift("%s: inserted ghost text assigns non-ghost %s" % (what, m.group(1)))

def callee_table(functions):
    """derive R3/R5 call fix-up info from the C signatures in the spec"""
    tab = {}
    for fn in functions:
        m = re.search(r'\((.*)\)\s*$', fn['sig'].strip(), re.S)
        params = [p.strip() for p in split_args(m.group(1))] if m and m.group(1).strip() not in ('', 'void') else []
        names = [re.search(r'(\w+)\s*(\[[^\]]*\])?$', p).group(1) for p in params]
        ent = dict(nparams=len(params), defaults=fn.get('defaults', []),
                   ref_idx=[names.index(r) for r in fn.get('refs', []) if r in names and r not in fn.get('local_refs', [])])
        if fn.get('self_arg') is not None: ent['self_arg'] = fn['self_arg']
        tab[fn['cname']] = ent
    return tab

def lit(sig):
    """regex for a literal piece of source text with flexible white space"""
    toks = re.findall(r'\w+|[^\w\s]', sig)
    out = []
    for i, t in enumerate(toks):
        out.append(re.escape(t))
    # word-word boundaries need at least one space, others any
    res = ''
    for i, t in enumerate(toks):
        if i:
            if re.match(r'\w', toks[i-1][-1]) and re.match(r'\w', t[0]): res += r'\s+'
            else: res += r'\s*'
        res += re.escape(t)
    return res
