# Unit "util" -- HTML escape (3 output paths), URL encode/decode (src/util.cpp,
# private/http_protocol.h).  Serves C15; urldecode is also the callee contract for C01/C12.
import sys, os
sys.path.insert(0, os.path.join(os.path.dirname(os.path.abspath(__file__)), '..', 'tools'))
from cxx2c import lit

U = 'src/util.cpp'
HP = 'private/http_protocol.h'
P = ['C15']

PRE = r'''
#include <stdio.h>
/* ---- spec, from the property text: the five replacements, identity otherwise */
#define ESC_LEN(c) (((c)=='<' || (c)=='>') ? 4u : ((c)=='&' || (c)=='\'') ? 5u : (c)=='"' ? 6u : 1u)
#define ESC_BYTE(c,j) ((unsigned char)((c)=='<' ? "&lt;\0\0"[j] : (c)=='>' ? "&gt;\0\0"[j] : (c)=='&' ? "&amp;\0"[j] : (c)=='"' ? "&quot;"[j] : (c)=='\'' ? "&#39;\0"[j] : (c)))
#define SEG_IS_ESC(c) (g_seg_n == ESC_LEN(c) && g_seg[0] == ESC_BYTE(c,0) && (ESC_LEN(c) == 1u || (g_seg[1] == ESC_BYTE(c,1) && g_seg[2] == ESC_BYTE(c,2) && \
     g_seg[3] == ESC_BYTE(c,3) && (ESC_LEN(c) < 5u || g_seg[4] == ESC_BYTE(c,4)) && (ESC_LEN(c) < 6u || g_seg[5] == ESC_BYTE(c,5)))))
/* ---- RFC 3986 unreserved set and %XX with lower-case hex (what cppcms emits) */
#define UNRESERVED(c) (('a'<=(c) && (c)<='z') || ('A'<=(c) && (c)<='Z') || ('0'<=(c) && (c)<='9') || (c)=='-' || (c)=='_' || (c)=='.' || (c)=='~')
#define HEXD(v) ((unsigned char)((v) < 10 ? '0' + (v) : 'a' + ((v) - 10)))
#define SEG_IS_URLENC(c) (UNRESERVED(c) ? (g_seg_n == 1 && g_seg[0] == (unsigned char)(c)) : \
     (g_seg_n == 3 && g_seg[0] == '%' && g_seg[1] == HEXD(((unsigned char)(c)) >> 4) && g_seg[2] == HEXD(((unsigned char)(c)) & 15)))
#define URLENC_LEN(c) (UNRESERVED(c) ? 1u : 3u)
#define XDIGIT(c) (('0'<=(c) && (c)<='9') || ('a'<=(c) && (c)<='f') || ('A'<=(c) && (c)<='F'))
#define HEXVAL(c) (('0'<=(c) && (c)<='9') ? (c)-'0' : ('a'<=(c) && (c)<='f') ? (c)-'a'+10 : (c)-'A'+10)
/* decoding of the token that starts at q with rem bytes remaining */
#define TOK_IS_PCT(q,rem) ((q)[0]=='%' && (rem) >= 3 && XDIGIT((q)[1]) && XDIGIT((q)[2]))
#define TOK_LEN(q,rem) (TOK_IS_PCT(q,rem) ? 3u : 1u)
#define SEG_IS_URLDEC(q,rem) ((q)[0]=='+' ? (g_seg_n == 1 && g_seg[0] == ' ') : TOK_IS_PCT(q,rem) ? (g_seg_n == 1 && g_seg[0] == (unsigned char)(HEXVAL((q)[1])*16 + HEXVAL((q)[2]))) : \
     (q)[0]=='%' ? g_seg_n == 0 : (g_seg_n == 1 && g_seg[0] == (unsigned char)(q)[0]))
size_t g_base, g_next; bool g_next_set;
bool g_os_good, g_os_buf, g_os_failbit;     /* std::ostream state for the ostream overload */
/* ---- read-only std::string API (R8), for fast paths a maintainer may add in front of the loops */
#define STR_NPOS ((size_t)-1)
#define INSET(c, set) ((set)[0] && ((c) == (set)[0] || ((set)[1] && ((c) == (set)[1] || ((set)[2] && ((c) == (set)[2] || ((set)[3] && ((c) == (set)[3] || ((set)[4] && ((c) == (set)[4] || ((set)[5] && (c) == (set)[5])))))))))))
/* s.find_first_of("set"): index of the first character that is in the set, or npos -- then no character (in particular the one at the ghost index) is in the set */
static size_t str_find_first_of(char const *p, size_t n, char const *set)
{
  __CPROVER_assert(!set[0] || !set[1] || !set[2] || !set[3] || !set[4] || !set[5] || !set[6], "find_first_of set within the modelled length");
  size_t r;
  __CPROVER_assume(r == STR_NPOS || (r < n && INSET(p[r], set)));
  __CPROVER_assume(r != STR_NPOS || g_i >= n || !INSET(p[g_i], set));
  return r;
}
/* `return s;` from a function returning std::string: the output IS the input (segment of index g_i = that byte) */
static void snk_copy_input(char const *p, size_t n)
{
  snk_len = n; g_sum = n; g_seg_on = 0; g_seen = g_i < n; g_seg_n = g_seen ? 1 : 0; if(g_seen) g_seg[0] = (unsigned char)p[g_i];
}
static bool os_rdbuf(void) { return g_os_buf; }
static bool os_good(void) { return g_os_good; }
static void os_setfail(void) { g_os_failbit = 1; }
'''

SEG_GHOST_RESET = 'g_seg_on = 0; g_seg_n = 0; g_sum = 0; g_seen = 0;'

functions = [
    dict(cname='http_protocol_xdigit', file=HP, locate=lit('bool inline xdigit(int c)'), sig='bool http_protocol_xdigit(int c)',
         contract='__CPROVER_assigns()\n__CPROVER_ensures(__CPROVER_return_value == XDIGIT(c))'),
    # ---------------- escape(std::string)
    dict(cname='util_escape_str', file=U, locate=lit('std::string escape(std::string const &s)'), sig='void util_escape_str(char const *s_p, size_t s_n)',
         rewrites=[(r'std::string content;', 'snk_len = 0;', 1), (r's\.size\(\)', 's_n', 1), (r'content\.reserve\([^;]*\);', '', 1), (r's\[i\]', 's_p[i]', 1),
                   (r'content\+=("[^"]*");', r'snk_lit(\1);', 5), (r'content\+=c;', 'snk_put(c);', 1), (r'return content;', 'return;', 1),
                   # optional R8 rules (fire 0 times on the current tree): read-only std::string calls of an early-exit fast path
                   (r's\.find_first_of\(("(?:[^"\\]|\\.)*")\)', r'str_find_first_of(s_p, s_n, \1)', 0), (r'std::string::npos', 'STR_NPOS', 0), (r'return s;', '{ snk_copy_input(s_p, s_n); return; }', 0)],
         body_ghost=SEG_GHOST_RESET,
         loop_ghost={0: 'g_seg_on = (i == g_i); if(g_seg_on) g_seen = 1; g_sum += ESC_LEN(s_p[i]);'},
         loops={0: r'''
__CPROVER_assigns(i, snk_len, g_seg_on, g_seg_n, __CPROVER_object_whole(g_seg), g_sum, g_seen)
__CPROVER_loop_invariant(i <= len && len == s_n && snk_len == g_sum && i <= g_sum && g_sum <= 6 * (size_t)i)
__CPROVER_loop_invariant(g_i < i ==> (g_seen && SEG_IS_ESC(s_p[g_i])))
__CPROVER_loop_invariant(g_i >= i ==> (!g_seen && g_seg_n == 0))
__CPROVER_loop_invariant(g_seg_on ==> (i > 0 && g_i == i - 1))
__CPROVER_decreases(len - i)
'''},
         contract=r'''
/* `unsigned len = s.size()` truncates: strings of 4 GiB or more are outside the contract (listed) */
__CPROVER_requires(s_n <= BUF_CAP && __CPROVER_r_ok(s_p, s_n))
__CPROVER_assigns(snk_len, g_seg_on, g_seg_n, __CPROVER_object_whole(g_seg), g_sum, g_seen)
/* the output is the concatenation over i of ESC(s[i]): total length is the sum, and the segment emitted for an
   arbitrary index g_i is exactly ESC(s[g_i]) -- none of < > " ' survives, & only starts one of the five entities,
   and un-escaping gives back s */
__CPROVER_ensures(snk_len == g_sum && s_n <= snk_len && snk_len <= 6 * s_n)
__CPROVER_ensures(g_i < s_n ==> (g_seen && SEG_IS_ESC(s_p[g_i])))
'''),
    # ---------------- escape(begin,end,streambuf&)
    dict(cname='util_escape_sb', file=U, locate=lit('int escape(char const *begin,char const *end,std::streambuf &output)'),
         sig='int util_escape_sb(char const *begin, char const *end)',
         rewrites=[(r'output\.sputn\(', 'snk_sputn(', 5), (r'output\.sputc\(', 'snk_sputc(', 1)],
         body_ghost=SEG_GHOST_RESET + ' g_base = OFF(begin);',
         loop_ghost={0: 'g_seg_on = (OFF(begin) == g_base + g_i); if(g_seg_on) g_seen = 1; g_sum += ESC_LEN(*REBASE(begin, end));'},
         loops={0: r'''
__CPROVER_assigns(begin, snk_len, snk_budget, snk_failed, g_seg_on, g_seg_n, __CPROVER_object_whole(g_seg), g_sum, g_seen)
__CPROVER_loop_invariant(IN_RANGE(begin, __CPROVER_loop_entry(begin), end) && g_base == OFF(__CPROVER_loop_entry(begin)))
__CPROVER_loop_invariant(!snk_failed && !snk_put_after_fail && g_sum <= 6 * (OFF(begin) - g_base) && snk_len == __CPROVER_loop_entry(snk_len) + g_sum)
__CPROVER_loop_invariant(g_sum <= __CPROVER_loop_entry(snk_budget) && snk_budget == __CPROVER_loop_entry(snk_budget) - g_sum)
__CPROVER_loop_invariant(g_i < OFF(begin) - g_base ==> (g_seen && SEG_IS_ESC((__CPROVER_loop_entry(begin))[g_i])))
__CPROVER_loop_invariant(g_i >= OFF(begin) - g_base ==> (!g_seen && g_seg_n == 0))
__CPROVER_loop_invariant(g_seg_on ==> (OFF(begin) > g_base && g_i == OFF(begin) - g_base - 1))
__CPROVER_decreases(OFF(end) - OFF(begin))
'''},
         contract=r'''
__CPROVER_requires(VALID_RANGE(begin, end) && OFF(end) - OFF(begin) <= BUF_CAP && snk_len <= BUF_CAP && !snk_failed && !snk_put_after_fail)
__CPROVER_assigns(snk_len, snk_budget, snk_failed, snk_put_after_fail, g_seg_on, g_seg_n, __CPROVER_object_whole(g_seg), g_sum, g_seen, g_base)
__CPROVER_ensures(__CPROVER_return_value == 0 || __CPROVER_return_value == -1)
/* success: everything was accepted by the stream buffer and the output is the concatenation of ESC(byte) */
__CPROVER_ensures(__CPROVER_return_value == 0 ==> (!snk_failed && g_sum <= 6 * (OFF(end) - OFF(begin)) && snk_len == __CPROVER_old(snk_len) + g_sum &&
                  (g_i < OFF(end) - OFF(begin) ==> (g_seen && SEG_IS_ESC(begin[g_i])))))
/* -1 exactly when the stream buffer refused output; nothing is written after the first refusal */
__CPROVER_ensures((__CPROVER_return_value == -1) == snk_failed)
__CPROVER_ensures(!snk_put_after_fail)
'''),
    # ---------------- escape(begin,end,ostream&)
    dict(cname='util_escape_os', file=U, locate=lit('void escape(char const *begin,char const *end,std::ostream &output)'),
         sig='void util_escape_os(char const *begin, char const *end)',
         rewrites=[(r'std::streambuf \*buf = output\.rdbuf\(\);', 'bool buf = os_rdbuf();', 1), (r'!output\b', '!os_good()', 1),
                   (r'escape\(begin,end,\*buf\)', 'util_escape_sb(begin,end)', 1), (r'output\.setstate\(std::ios_base::failbit\);', 'os_setfail();', 1)],
         contract=r'''
__CPROVER_requires(VALID_RANGE(begin, end) && OFF(end) - OFF(begin) <= BUF_CAP && snk_len <= BUF_CAP && !snk_failed && !snk_put_after_fail && !g_os_failbit)
__CPROVER_assigns(snk_len, snk_budget, snk_failed, snk_put_after_fail, g_seg_on, g_seg_n, __CPROVER_object_whole(g_seg), g_sum, g_seen, g_base, g_os_failbit)
/* a bad stream or a stream without buffer receives nothing; otherwise failbit is set exactly when the buffer refused output */
__CPROVER_ensures((!g_os_good || !g_os_buf) ==> (snk_len == __CPROVER_old(snk_len) && !g_os_failbit))
__CPROVER_ensures((g_os_good && g_os_buf) ==> (g_os_failbit == snk_failed &&
                  (!snk_failed ==> (g_sum <= 6 * (OFF(end) - OFF(begin)) && snk_len == __CPROVER_old(snk_len) + g_sum && (g_i < OFF(end) - OFF(begin) ==> (g_seen && SEG_IS_ESC(begin[g_i])))))))
'''),
    # ---------------- urlencode_impl
    dict(cname='util_urlencode_impl', file=U, locate=lit('void urlencode_impl(char const *b,char const *e,Iterator out)'),
         sig='void util_urlencode_impl(char const *b, char const *e)',
         rewrites=[(r'\*out\+\+ = ([^;]+);', r'snk_put(\1);', 5)],
         hoist=[r'static char const hex\[\]="[^"]*";'],   # dfcc havocs declarations inside a loop body, even static ones
         body_ghost=SEG_GHOST_RESET + ' g_base = OFF(b);',
         loop_ghost={0: 'g_seg_on = (OFF(b) == g_base + g_i); if(g_seg_on) g_seen = 1; g_sum += URLENC_LEN(*REBASE(b, e));'},
         loops={0: r'''
__CPROVER_assigns(b, snk_len, g_seg_on, g_seg_n, __CPROVER_object_whole(g_seg), g_sum, g_seen)
__CPROVER_loop_invariant(IN_RANGE(b, __CPROVER_loop_entry(b), e) && g_base == OFF(__CPROVER_loop_entry(b)))
__CPROVER_loop_invariant(g_sum <= 3 * (OFF(b) - g_base) && snk_len == __CPROVER_loop_entry(snk_len) + g_sum)
__CPROVER_loop_invariant(g_i < OFF(b) - g_base ==> (g_seen && SEG_IS_URLENC((__CPROVER_loop_entry(b))[g_i])))
__CPROVER_loop_invariant(g_i >= OFF(b) - g_base ==> (!g_seen && g_seg_n == 0))
__CPROVER_loop_invariant(g_seg_on ==> (OFF(b) > g_base && g_i == OFF(b) - g_base - 1))
__CPROVER_decreases(OFF(e) - OFF(b))
'''},
         contract=r'''
__CPROVER_requires(VALID_RANGE(b, e) && OFF(e) - OFF(b) <= BUF_CAP && snk_len <= BUF_CAP)
__CPROVER_assigns(snk_len, g_seg_on, g_seg_n, __CPROVER_object_whole(g_seg), g_sum, g_seen, g_base)
/* output = concatenation of URLENC(byte): the byte itself if unreserved, else % and two lower-case hex digits */
__CPROVER_ensures(g_sum <= 3 * (OFF(e) - OFF(b)) && snk_len == __CPROVER_old(snk_len) + g_sum)
__CPROVER_ensures(g_i < OFF(e) - OFF(b) ==> (g_seen && SEG_IS_URLENC(b[g_i])))
'''),
    # ---------------- urldecode
    dict(stub=True, cname='hex2_scan', sig='void hex2_scan(char const *buf, int *value)',
         contract='/* C99 sscanf(buf,"%x",&value) on exactly two hex digits followed by NUL */\n'
                  '__CPROVER_requires(__CPROVER_r_ok(buf, 3) && XDIGIT(buf[0]) && XDIGIT(buf[1]) && buf[2] == 0 && __CPROVER_w_ok(value, sizeof(int)))\n'
                  '__CPROVER_assigns(*value)\n__CPROVER_ensures(*value == HEXVAL(buf[0]) * 16 + HEXVAL(buf[1]))'),
    dict(cname='util_urldecode', file=U, locate=lit('std::string urldecode(char const *begin,char const *end)'),
         sig='void util_urldecode(char const *begin, char const *end)',
         rewrites=[(r'std::string result;', 'snk_len = 0;', 1), (r'result\.reserve\([^;]*\);', '', 1), (r'result\+=([^;]+);', r'snk_put(\1);', 3),
                   (r'sscanf\(buf,"%x",&value\);', 'hex2_scan(buf,&value);', 1), (r'return result;', 'return;', 1)],
         body_ghost=SEG_GHOST_RESET + ' g_base = OFF(begin); g_next = 0; g_next_set = 0;',
         loop_ghost={0: 'if(g_seen && !g_next_set) { g_next_set = 1; g_next = OFF(begin); } g_seg_on = (OFF(begin) == g_base + g_i); if(g_seg_on) g_seen = 1;'},
         loops={0: r'''
__CPROVER_assigns(begin, snk_len, g_seg_on, g_seg_n, __CPROVER_object_whole(g_seg), g_seen, g_next, g_next_set)
__CPROVER_loop_invariant(IN_RANGE(begin, __CPROVER_loop_entry(begin), end) && g_base == OFF(__CPROVER_loop_entry(begin)))
__CPROVER_loop_invariant(snk_len <= OFF(begin) - g_base)
__CPROVER_loop_invariant(g_seen ==> (g_i < OFF(begin) - g_base && SEG_IS_URLDEC(__CPROVER_loop_entry(begin) + g_i, OFF(end) - g_base - g_i)))
__CPROVER_loop_invariant(!g_seen ==> (g_seg_n == 0 && !g_seg_on && !g_next_set))
__CPROVER_loop_invariant(g_seg_on ==> (!g_next_set && OFF(begin) == g_base + g_i + TOK_LEN(__CPROVER_loop_entry(begin) + g_i, OFF(end) - g_base - g_i)))
__CPROVER_loop_invariant(g_next_set ==> (g_seen && g_next == g_base + g_i + TOK_LEN(__CPROVER_loop_entry(begin) + g_i, OFF(end) - g_base - g_i)))
__CPROVER_loop_invariant(g_seen && !g_seg_on ==> g_next_set)
__CPROVER_loop_invariant((g_i == 0 && OFF(begin) > g_base) ==> g_seen)
__CPROVER_decreases(OFF(end) - OFF(begin))
'''},
         contract=r'''
__CPROVER_requires(VALID_RANGE(begin, end) && OFF(end) - OFF(begin) <= BUF_CAP)
__CPROVER_assigns(snk_len, g_seg_on, g_seg_n, __CPROVER_object_whole(g_seg), g_sum, g_seen, g_base, g_next, g_next_set)
/* total and memory safe on every input; never longer than the input */
__CPROVER_ensures(snk_len <= OFF(end) - OFF(begin))
/* token semantics, for the token (if any) that the scan starts at arbitrary offset g_i: '+' -> space, %XX -> that byte,
   a stray % -> nothing, any other byte -> itself; and the scan resumes right after the token */
__CPROVER_ensures(g_seen ==> (g_i < OFF(end) - OFF(begin) && SEG_IS_URLDEC(begin + g_i, OFF(end) - OFF(begin) - g_i)))
__CPROVER_ensures(g_next_set ==> g_next == OFF(begin) + g_i + TOK_LEN(begin + g_i, OFF(end) - OFF(begin) - g_i))
/* the scan starts at offset 0 */
__CPROVER_ensures((g_i == 0 && OFF(end) > OFF(begin)) ==> g_seen)
'''),
]

SINK_SETUP = r'''
    size_t l0, bud, gi; __CPROVER_assume(l0 <= BUF_CAP); snk_len = l0; snk_budget = bud; g_i = gi; snk_failed = 0; snk_put_after_fail = 0;
'''
jobs = [
    dict(name='xdigit', props=P, enforce='http_protocol_xdigit', harness='int c; http_protocol_xdigit(c); VERIF_REACH;'),
    dict(name='util_escape_str', props=P, enforce='util_escape_str', harness=SINK_SETUP + r'''
    SYM_BUF(char, buf, n, BUF_CAP); WIT_BUF(0, buf, n);
    util_escape_str(buf, n); VERIF_REACH;''', witness=dict(bufs=['in']), replay='c15:escape_str', replay_link=['-L{BUILD}/booster', '-lbooster']),
    dict(name='util_escape_sb', props=P, enforce='util_escape_sb', harness=SINK_SETUP + r'''
    SYM_BUF(char, buf, n, BUF_CAP); WIT_BUF(0, buf, n); WIT(0, bud);
    util_escape_sb(buf, buf + n); VERIF_REACH;''', witness=dict(bufs=['in'], vals=['budget']), replay='c15:escape_sb', replay_link=['-L{BUILD}/booster', '-lbooster']),
    dict(name='util_escape_os', props=P, enforce='util_escape_os', replace=['util_escape_sb'], harness=SINK_SETUP + r'''
    SYM_BUF(char, buf, n, BUF_CAP); bool a, b; g_os_good = a; g_os_buf = b; g_os_failbit = 0;
    util_escape_os(buf, buf + n); VERIF_REACH;'''),
    dict(name='util_urlencode_impl', props=P, enforce='util_urlencode_impl', harness=SINK_SETUP + r'''
    SYM_BUF(char, buf, n, BUF_CAP); WIT_BUF(0, buf, n);
    util_urlencode_impl(buf, buf + n); VERIF_REACH;''', witness=dict(bufs=['in']), replay='c15:urlencode', replay_link=['-L{BUILD}/booster', '-lbooster']),
    dict(name='util_urldecode', props=P + ['C01', 'C12'], enforce='util_urldecode', replace=['http_protocol_xdigit', 'hex2_scan'], harness=SINK_SETUP + r'''
    SYM_BUF(char, buf, n, BUF_CAP); WIT_BUF(0, buf, n);
    util_urldecode(buf, buf + n); VERIF_REACH;''', witness=dict(bufs=['in']), replay='c15:urldecode', replay_link=['-L{BUILD}/booster', '-lbooster']),
    # per-byte inverse on the real bodies: decode(encode(c)) == c for all 256 byte values (loops run 1 and <=3 times: complete)
    dict(name='url_roundtrip_byte', props=P, kind='lemma', replace=['hex2_scan'], loop_contracts=False, unwind=5,
         complete_note='encode loop runs once, decode loop at most 3 times on the 1..3 byte encoding: the unwinding bound is exact (unwinding assertions on)',
         harness=r'''
    char c; char in[1]; in[0] = c;
    snk_len = 0; g_i = 0;
    util_urlencode_impl(in, in + 1);
    __CPROVER_assert(g_seen && (g_seg_n == 1 || g_seg_n == 3), "one byte encodes to 1 or 3 bytes");
    size_t m = g_seg_n; char enc[3]; enc[0] = g_seg[0]; enc[1] = g_seg[1]; enc[2] = g_seg[2];
    __CPROVER_assert(m == 1 ? UNRESERVED(enc[0]) : (enc[0] == '%' && XDIGIT(enc[1]) && XDIGIT(enc[2])), "encoding uses only unreserved characters and %XX");
    util_urldecode(enc, enc + m);
    __CPROVER_assert(snk_len == 1 && g_seen && g_seg_n == 1 && g_seg[0] == (unsigned char)c, "urldecode(urlencode(c)) == c for every byte");
    VERIF_REACH;'''),
]

UNIT = dict(
    name='util', includes=['sink.h'], pre=PRE, functions=functions, jobs=jobs,
    trusted=['util: std::string / streambuf / output-iterator outputs are the scalar ghost sink of prelude/sink.h (R7); content.reserve() dropped',
             'util: streambuf::sputn/sputc are modelled as accepting a prefix limited by an arbitrary byte budget',
             'util: sscanf("%x") on two hex digits is a stub with the C99 contract (R10)',
             'util: std::ostream state (good / rdbuf()==0 / setstate(failbit)) is three ghost booleans',
             'util: strings of 4 GiB or more (unsigned len truncation in escape(std::string)) are outside the contract',
             'util: the three urlencode wrappers (ostream_iterator, ostreambuf_iterator, back_insert_iterator) are not extracted; they all call urlencode_impl'],
    not_covered={'C15': ['template filters (src/filters.cpp) and form widget rendering (src/form.cpp): call-site fact only, they call util::escape / util::urlencode',
                         'string-level urldecode(urlencode(s)) == s is the per-byte lemma plus the two segment/token contracts; the concatenation step is a meta-argument (DESIGN.md)']},
)
