# Unit "hash" -- bundled MD5 (src/md5.cpp, RFC 1321) and SHA-1 (private/sha1.h, FIPS 180-4).  Serves C16.
import sys, os, math
sys.path.insert(0, os.path.join(os.path.dirname(os.path.abspath(__file__)), '..', 'tools'))
from cxx2c import lit

M = 'src/md5.cpp'
MH = 'private/md5.h'
S = 'private/sha1.h'
CR = 'src/crypto.cpp'
P = ['C16']
# hash arithmetic is modular on purpose: no unsigned-overflow check; md5.cpp's alignment test subtracts a null pointer
HASH_CHECKS = ['--no-standard-checks', '--bounds-check', '--pointer-check', '--div-by-zero-check', '--undefined-shift-check']

# ---- RFC 1321 tables, derived here from the text of the RFC (T[i] = floor(2^32 * abs(sin(i))), i in radians)
T = [int(abs(math.sin(i + 1)) * 2**32) & 0xffffffff for i in range(64)]
K = [i for i in range(16)] + [(1 + 5 * i) % 16 for i in range(16)] + [(5 + 3 * i) % 16 for i in range(16)] + [(7 * i) % 16 for i in range(16)]
SH = [7, 12, 17, 22] * 4 + [5, 9, 14, 20] * 4 + [4, 11, 16, 23] * 4 + [6, 10, 15, 21] * 4

PRE = r'''
@@REGION:md5_types@@
@@REGION:md5_macros@@
/* ---------------- RFC 1321 ghost (section 3.4): [abcd k s i]:  a = b + ((a + FUN(b,c,d) + X[k] + T[i]) <<< s) */
static const unsigned char md5_k[64] = {%s};
static const unsigned char md5_s[64] = {%s};
static const uint32_t md5_T[64] = {%s};
uint32_t g_r[4], g_X[16], g_in[4];
#define LE32(p) ((uint32_t)(p)[0] | ((uint32_t)(p)[1] << 8) | ((uint32_t)(p)[2] << 16) | ((uint32_t)(p)[3] << 24))
#define ROTL32(x,s) (((x) << (s)) | ((x) >> (32 - (s))))
#define MD5_FUN(n,x,y,z) ((n) < 16 ? (((x) & (y)) | (~(x) & (z))) : (n) < 32 ? (((x) & (z)) | ((y) & ~(z))) : (n) < 48 ? ((x) ^ (y) ^ (z)) : ((y) ^ ((x) | ~(z))))
#define MD5_EQ (a == g_r[0] && b == g_r[1] && c == g_r[2] && d == g_r[3])
/* after the code has set up X: copy the words the code will use, check they are the little-endian words of the block */
#define MD5_LOAD() do { for(int k_ = 0; k_ < 16; k_++) { g_X[k_] = X[k_]; \
      __CPROVER_assert(g_X[k_] == LE32(data + 4 * k_), "md5: X[k] is the k-th little-endian word of the block (RFC 1321 section 2)"); } \
      g_r[0] = a; g_r[1] = b; g_r[2] = c; g_r[3] = d; g_in[0] = a; g_in[1] = b; g_in[2] = c; g_in[3] = d; } while(0)
/* cut point after the n-th step of the code: advance the ghost by RFC step n, assert equality, then assume it
   (assert-then-assume of the SAME predicate: nothing is assumed that was not just proved) */
#define MD5_CUT(n) do { unsigned i_ = (4 - ((n) & 3)) & 3; \
      uint32_t t_ = g_r[i_] + MD5_FUN(n, g_r[(i_ + 1) & 3], g_r[(i_ + 2) & 3], g_r[(i_ + 3) & 3]) + g_X[md5_k[n]] + md5_T[n]; \
      g_r[i_] = g_r[(i_ + 1) & 3] + ROTL32(t_, md5_s[n]); \
      __CPROVER_assert(MD5_EQ, "md5: registers after this step equal the RFC 1321 step"); __CPROVER_assume(MD5_EQ); } while(0)

/* ---------------- HMAC over an abstract message_digest (virtual append/readout are recorders observed at the arbitrary index g_hk) */
#define HM_BMAX 128
struct hm { unsigned block_size, digest_size; char const *key_p; size_t key_n; };
enum { MD_IN, MD_OUT };
size_t g_hk; unsigned char g_kp_i, g_kp_o; int g_md_app_calls[2]; size_t g_md_app_n[2], g_md_app_first_n[2]; unsigned char g_md_app_byte[2]; int g_md_rd_calls; unsigned char g_dig_byte;
int g_final_calls; bool g_final_after_outer_app; size_t g_outer_fed_n; unsigned char g_outer_fed_byte; void *g_final_ptr;
static void md_rec_append(int which, void const *ptr, size_t n)
{
  __CPROVER_assert(n == 0 || __CPROVER_r_ok(ptr, n), "message_digest::append(p,n) reads n bytes at p");
  if(g_md_app_calls[which] == 0) g_md_app_first_n[which] = n;
  if(g_md_app_calls[which] < 100) g_md_app_calls[which]++;
  g_md_app_n[which] = n; if(g_hk < n) g_md_app_byte[which] = ((unsigned char const *)ptr)[g_hk];
}
/* readout writes digest_size bytes (arbitrary; the byte at g_hk is g_dig_byte) and resets that digest */
static void md_rec_readout(struct hm *self, int which, void *out)
{
  __CPROVER_assert(__CPROVER_w_ok(out, self->digest_size), "message_digest::readout writes digest_size bytes");
  if(g_hk < self->digest_size) ((unsigned char *)out)[g_hk] = g_dig_byte;
  if(g_md_rd_calls < 100) g_md_rd_calls++;
}
static void md_rec_readout_final(struct hm *self, void *ptr)
{
  g_final_calls++; g_final_ptr = ptr; g_final_after_outer_app = (g_md_app_calls[MD_OUT] == 1); g_outer_fed_n = g_md_app_n[MD_OUT]; g_outer_fed_byte = g_md_app_byte[MD_OUT];
  g_md_app_calls[0] = 0; g_md_app_calls[1] = 0; g_md_rd_calls = 0;       /* both digests are reset by their read-outs */
}
/* ---------------- streaming layer ghosts: the compression function is replaced by a recorder of WHICH bytes it is given:
   g_nblocks counts calls; the byte g_bj of call number g_bi is remembered in g_obs (arbitrary ghost pair chosen by the harness) */
size_t g_nblocks, g_bi, g_bj, g_mk, g_mk2; unsigned char g_obs;
/* entry snapshot for md5_append: bytes already buffered, blocks before the call, and the two old buffer bytes the postcondition may need */
size_t g_off0, g_nb0, g_lj, g_cnt0; unsigned char g_obs0; unsigned char g_old_for_obs, g_old_for_left; md5_word_t g_c0, g_c1;
#define MD5_OFF(pms) (((pms)->count[0] >> 3) & 63)
/* ---------------- FIPS 180-4 SHA-1 ghost (section 6.1.2) */
struct sha1 { unsigned int h_[5]; unsigned char block_[64]; size_t block_byte_index_; size_t byte_count_; };
uint32_t g_s[5];
#define SHA1_F(t,x,y,z) ((t) < 20 ? (((x) & (y)) ^ (~(x) & (z))) : (t) < 40 ? ((x) ^ (y) ^ (z)) : (t) < 60 ? (((x) & (y)) ^ ((x) & (z)) ^ ((y) & (z))) : ((x) ^ (y) ^ (z)))
#define SHA1_K(t) ((t) < 20 ? 0x5a827999u : (t) < 40 ? 0x6ed9eba1u : (t) < 60 ? 0x8f1bbcdcu : 0xca62c1d6u)
#define BE32(p) (((uint32_t)(p)[0] << 24) | ((uint32_t)(p)[1] << 16) | ((uint32_t)(p)[2] << 8) | (uint32_t)(p)[3])
size_t g_t;   /* arbitrary schedule index chosen by the harness */
/* ghost round: FIPS 180-4 6.1.2 step 3 for round t over the schedule word W_t */
#define SHA1_ROUND_G(t) do { uint32_t T_ = ROTL32(g_s[0], 5) + SHA1_F(t, g_s[1], g_s[2], g_s[3]) + g_s[4] + SHA1_K(t) + w[t]; \
      g_s[4] = g_s[3]; g_s[3] = g_s[2]; g_s[2] = ROTL32(g_s[1], 30); g_s[1] = g_s[0]; g_s[0] = T_; } while(0)
#define SHA1_INIT_G() do { g_s[0] = a; g_s[1] = b; g_s[2] = c; g_s[3] = d; g_s[4] = e; } while(0)
''' % (','.join(map(str, K)), ','.join(map(str, SH)), ','.join('0x%08xu' % t for t in T))

md5_inserts = [(r'#define ROTATE_LEFT[^\n]*\n', 0, 'MD5_LOAD();')]
for n in range(64):
    md5_inserts.append((r'\bSET\([^;()]*\);', n, 'MD5_CUT(%d);' % n))

# FIPS 180-4 5.1.1 padding, value at stream position t of (buffered bytes ++ 0x80 ++ zeros), seen at the ghost index
SHA1_PADZ = '((%s) < g_off0 ? g_old_for_obs : (%s) == g_off0 ? 0x80 : 0)'
SHA1_PAD_LOOP = '''__CPROVER_assigns(__CPROVER_object_whole(self->block_), self->block_byte_index_, self->byte_count_, self->h_[0], self->h_[1], self->h_[2], self->h_[3], self->h_[4], g_nblocks, g_obs)
__CPROVER_loop_invariant(%%(where)s && self->byte_count_ + g_off0 == g_cnt0 + 64 * (g_nblocks - g_nb0) + self->block_byte_index_)
/* bytes waiting in block_ and blocks already handed over are (buffered bytes ++ 0x80 ++ zeros), at the ghost index */
__CPROVER_loop_invariant(g_bj < self->block_byte_index_ ==> self->block_[g_bj] == %s)
__CPROVER_loop_invariant(g_obs == ((g_bi >= g_nb0 && g_bi < g_nblocks) ? %s : g_obs0))
__CPROVER_decreases(%%(dec)s)''' % (SHA1_PADZ % (('64 * (g_nblocks - g_nb0) + g_bj',) * 2), SHA1_PADZ % (('64 * (g_bi - g_nb0) + g_bj',) * 2))
functions = [
    dict(cname='md5_process', file=M, locate=r'static void\s+md5_process\(md5_state_t \*pms, const md5_byte_t \*data\s*\)',
         sig='void md5_process(md5_state_t *pms, const md5_byte_t *data)', functional_casts=False,
         inserts=md5_inserts,
         rewrites=[(r'\(data - \(const md5_byte_t \*\)\w\)', '((size_t)data)', 1)]),
    dict(cname='md5_init', file=M, locate=r'void\s+md5_init\(md5_state_t \*pms\)', sig='void md5_init(md5_state_t *pms)', functional_casts=False,
         contract='__CPROVER_requires(__CPROVER_rw_ok(pms, sizeof(*pms)))\n__CPROVER_assigns(pms->count[0], pms->count[1], pms->abcd[0], pms->abcd[1], pms->abcd[2], pms->abcd[3])\n'
                  '/* RFC 1321 section 3.3 initial values, zero length */\n'
                  '__CPROVER_ensures(pms->abcd[0] == 0x67452301u && pms->abcd[1] == 0xefcdab89u && pms->abcd[2] == 0x98badcfeu && pms->abcd[3] == 0x10325476u && pms->count[0] == 0 && pms->count[1] == 0)'),
    dict(stub=True, cname='verif_memcpy', sig='void *verif_memcpy(void *dst, void const *src, size_t n)',
         contract='/* C11 memcpy: disjoint valid ranges; dst[k] == src[k] at the two arbitrary ghost indices g_mk, g_mk2; nothing outside dst[0..n) changes */\n'
                  '__CPROVER_requires(n <= 128 && (n == 0 || (__CPROVER_r_ok(src, n) && __CPROVER_w_ok(dst, n) && !SAME(dst, src))))\n'
                  '__CPROVER_assigns(__CPROVER_object_upto(dst, n))\n'
                  '__CPROVER_ensures((g_mk < n ==> ((unsigned char *)dst)[g_mk] == ((unsigned char const *)src)[g_mk]) && (g_mk2 < n ==> ((unsigned char *)dst)[g_mk2] == ((unsigned char const *)src)[g_mk2]))'),
    dict(stub=True, cname='md5_process_c', sig='void md5_process_c(md5_state_t *pms, const md5_byte_t *data)',
         contract='/* contract of md5_process as far as the streaming layer needs it (its functional contract = RFC 1321 compression is job md5_process): reads the 64-byte block, changes only abcd */\n'
                  '__CPROVER_requires(__CPROVER_rw_ok(pms, sizeof(*pms)) && __CPROVER_r_ok(data, 64))\n'
                  '__CPROVER_assigns(pms->abcd[0], pms->abcd[1], pms->abcd[2], pms->abcd[3], g_nblocks, g_obs)\n'
                  '__CPROVER_ensures(g_nblocks == __CPROVER_old(g_nblocks) + 1 && g_obs == (__CPROVER_old(g_nblocks) == g_bi ? data[g_bj] : __CPROVER_old(g_obs)))'),
    dict(cname='md5_append', file=M, locate=r'void\s+md5_append\(md5_state_t \*pms, const md5_byte_t \*data, int nbytes\)', sig='void md5_append(md5_state_t *pms, const md5_byte_t *data, int nbytes)',
         functional_casts=False, rename={'md5_process': 'md5_process_c', 'memcpy': 'verif_memcpy'},
         body_ghost='g_off0 = MD5_OFF(pms); g_nb0 = g_nblocks; g_mk = g_bj - g_off0; g_mk2 = g_bj; g_c0 = pms->count[0]; g_c1 = pms->count[1]; '
                    'g_old_for_obs = (g_bi >= g_nb0 && 64 * (g_bi - g_nb0) + g_bj < g_off0) ? pms->buf[64 * (g_bi - g_nb0) + g_bj] : 0;',
         loops={0: '''__CPROVER_assigns(p, left, pms->abcd[0], pms->abcd[1], pms->abcd[2], pms->abcd[3], g_nblocks, g_obs)
__CPROVER_loop_invariant(left >= 0 && left <= nbytes && SAME(p, data) && OFF(p) + (size_t)left == OFF(data) + (size_t)nbytes && g_nblocks >= g_nb0 && g_nblocks - g_nb0 <= 1 + (size_t)nbytes / 64 &&
      64 * (g_nblocks - g_nb0) + (size_t)left == g_off0 + (size_t)nbytes)
__CPROVER_loop_invariant((g_bi >= g_nb0 && g_bi < g_nblocks) ==> g_obs == (64 * (g_bi - g_nb0) + g_bj < g_off0 ? g_old_for_obs : data[64 * (g_bi - g_nb0) + g_bj - g_off0]))
__CPROVER_decreases(left)'''},
         contract=r'''
/* nbytes << 3 is computed in int: lengths of 2^28 bytes or more per call are outside the contract (listed) */
/* (nbytes << 3 is evaluated before the nbytes <= 0 test: negative lengths are outside the contract too) */
__CPROVER_requires(__CPROVER_rw_ok(pms, sizeof(*pms)) && nbytes >= 0 && nbytes < (1 << 28) && (nbytes <= 0 || __CPROVER_r_ok(data, nbytes)) && g_bj < 64 && g_nblocks <= BUF_CAP && !SAME(data, pms))
__CPROVER_assigns(*pms, g_nblocks, g_obs, g_off0, g_nb0, g_c0, g_c1, g_old_for_obs, g_mk, g_mk2)
/* the message length (64-bit bit count, RFC 1321 3.2) grows by exactly 8*nbytes */
__CPROVER_ensures(nbytes > 0 ==> (((uint64_t)pms->count[1] << 32) | pms->count[0]) == (((uint64_t)g_c1 << 32) | g_c0) + ((uint64_t)nbytes << 3))
/* exactly the completed 64-byte blocks of (buffered bytes ++ data) were given to the compression function, in order:
   byte g_bj of block g_bi (arbitrary ghost pair) is the stream byte with that index */
__CPROVER_ensures(nbytes > 0 ==> g_nblocks == g_nb0 + (g_off0 + (size_t)nbytes) / 64)
__CPROVER_ensures((nbytes > 0 && g_bi >= g_nb0 && g_bi < g_nblocks) ==> g_obs == (64 * (g_bi - g_nb0) + g_bj < g_off0 ? g_old_for_obs : data[64 * (g_bi - g_nb0) + g_bj - g_off0]))
/* an empty append changes nothing */
__CPROVER_ensures(nbytes <= 0 ==> (g_nblocks == g_nb0 && pms->count[0] == g_c0 && pms->count[1] == g_c1))
'''),
    dict(cname='md5_finish', file=M, locate=r'void\s+md5_finish\(md5_state_t \*pms, md5_byte_t digest\[16\]\)', sig='void md5_finish(md5_state_t *pms, md5_byte_t *digest)',
         functional_casts=False, hoist=[r'(?s)static const md5_byte_t pad\[64\] = \{.*?\};'],
         contract='__CPROVER_requires(__CPROVER_rw_ok(pms, sizeof(*pms)) && __CPROVER_w_ok(digest, 16) && g_bj < 64 && g_nblocks <= BUF_CAP && !SAME(digest, pms))\n'
                  '__CPROVER_assigns(*pms, __CPROVER_object_upto(digest, 16), g_nblocks, g_obs, g_off0, g_nb0, g_c0, g_c1, g_old_for_obs, g_mk, g_mk2)'),
    # ---------------- SHA-1
    dict(cname='left_rotate', file=S, locate=lit('inline unsigned int left_rotate(unsigned int x, std::size_t n)'), sig='unsigned int left_rotate(unsigned int x, size_t n)',
         contract='__CPROVER_requires(n >= 1 && n <= 31)\n__CPROVER_assigns()\n__CPROVER_ensures(__CPROVER_return_value == ROTL32(x, n))'),
    dict(cname='sha1_process_block0', file=S, locate=r'inline void sha1::process_block\(\)', sig='void sha1_process_block0(struct sha1 *self)',
         members=['h_', 'block_'],
         post_rewrites=[(r'(for \(size_t i=\w+; i<\w+; \+\+i\) \{\s*unsigned int f;)', r'SHA1_INIT_G(); \1', 1)],
         loop_ghost={2: 'SHA1_ROUND_G(i);'},
         loops={0: """
__CPROVER_assigns(i, __CPROVER_object_whole(w))
__CPROVER_loop_invariant(i <= 16 && (g_t < i ==> w[g_t] == BE32(self->block_ + 4 * g_t)))
__CPROVER_decreases(16 - i)
""", 1: """
__CPROVER_assigns(i, __CPROVER_object_whole(w))
/* FIPS 180-4 6.1.2 step 1, at an arbitrary index g_t: W_t = M_t (big endian) for t < 16, ROTL1(W_{t-3} ^ W_{t-8} ^ W_{t-14} ^ W_{t-16}) after */
__CPROVER_loop_invariant(16 <= i && i <= 80 && (g_t < 16 ==> w[g_t] == BE32(self->block_ + 4 * g_t)) &&
      ((g_t >= 16 && g_t < i) ==> w[g_t] == ROTL32(w[g_t - 3] ^ w[g_t - 8] ^ w[g_t - 14] ^ w[g_t - 16], 1)))
__CPROVER_decreases(80 - i)
""", 2: """
__CPROVER_assigns(i, a, b, c, d, e, __CPROVER_object_whole(g_s))
/* lock step with the FIPS round function (ghost g_s advanced by SHA1_ROUND_G at the start of every iteration) */
__CPROVER_loop_invariant(i <= 80 && a == g_s[0] && b == g_s[1] && c == g_s[2] && d == g_s[3] && e == g_s[4])
__CPROVER_decreases(80 - i)
"""},
         contract=r"""
__CPROVER_requires(__CPROVER_rw_ok(self, sizeof(*self)) && g_t < 80)
__CPROVER_assigns(self->h_[0], self->h_[1], self->h_[2], self->h_[3], self->h_[4], __CPROVER_object_whole(g_s))
/* FIPS 180-4 6.1.2 step 4: H_j += working variable j (which, by the round-loop invariant, went through the 80 FIPS rounds in lock step) */
__CPROVER_ensures(self->h_[0] == __CPROVER_old(self->h_[0]) + g_s[0] && self->h_[1] == __CPROVER_old(self->h_[1]) + g_s[1] && self->h_[2] == __CPROVER_old(self->h_[2]) + g_s[2] &&
                  self->h_[3] == __CPROVER_old(self->h_[3]) + g_s[3] && self->h_[4] == __CPROVER_old(self->h_[4]) + g_s[4])
"""),
    dict(stub=True, cname='sha1_process_block0_c', sig='void sha1_process_block0_c(struct sha1 *self)',
         contract='/* contract of sha1::process_block() as far as the streaming layer needs it (its functional contract = FIPS 180-4 compression is job sha1_process_block0): reads block_, changes only h_ */\n'
                  '__CPROVER_requires(__CPROVER_rw_ok(self, sizeof(*self)))\n'
                  '__CPROVER_assigns(self->h_[0], self->h_[1], self->h_[2], self->h_[3], self->h_[4], g_nblocks, g_obs)\n'
                  '__CPROVER_ensures(g_nblocks == __CPROVER_old(g_nblocks) + 1 && g_obs == (__CPROVER_old(g_nblocks) == g_bi ? self->block_[g_bj] : __CPROVER_old(g_obs)))'),
    dict(cname='sha1_process_byte', file=S, locate=lit('inline void sha1::process_byte(unsigned char byte)'), sig='void sha1_process_byte(struct sha1 *self, unsigned char byte)', self_arg='self',
         members=['block_', 'block_byte_index_', 'byte_count_'], rewrites=[(r'process_block\(\);', 'sha1_process_block0_c(self);', 1)],
         contract=r'''
__CPROVER_requires(__CPROVER_rw_ok(self, sizeof(*self)) && self->block_byte_index_ < 64 && self->byte_count_ <= BUF_CAP * 4 && g_bj < 64 && g_nblocks <= BUF_CAP * 4)
__CPROVER_assigns(self->block_[self->block_byte_index_], self->block_byte_index_, self->byte_count_, self->h_[0], self->h_[1], self->h_[2], self->h_[3], self->h_[4], g_nblocks, g_obs)
/* the byte is stored at the cursor, the cursor advances modulo 64, the length grows by one, and a full block is handed to the compression function exactly when the cursor wraps */
__CPROVER_ensures(self->block_[__CPROVER_old(self->block_byte_index_)] == byte && self->byte_count_ == __CPROVER_old(self->byte_count_) + 1)
__CPROVER_ensures(self->block_byte_index_ == (__CPROVER_old(self->block_byte_index_) == 63 ? 0 : __CPROVER_old(self->block_byte_index_) + 1))
__CPROVER_ensures(g_nblocks == __CPROVER_old(g_nblocks) + (__CPROVER_old(self->block_byte_index_) == 63 ? 1 : 0))
__CPROVER_ensures(g_obs == ((__CPROVER_old(self->block_byte_index_) == 63 && __CPROVER_old(g_nblocks) == g_bi) ? self->block_[g_bj] : __CPROVER_old(g_obs)))
'''),
    dict(cname='sha1_process_block_range', file=S, locate=lit('inline void sha1::process_block(void const* bytes_begin, void const* bytes_end)'),
         sig='void sha1_process_block_range(struct sha1 *self, void const *bytes_begin, void const *bytes_end)', self_arg='self', rename={'process_byte': 'sha1_process_byte'},
         body_ghost='g_off0 = self->block_byte_index_; g_nb0 = g_nblocks; g_cnt0 = self->byte_count_; g_old_for_obs = self->block_[g_bj]; g_obs0 = g_obs;',
         loops={0: '''__CPROVER_assigns(begin, __CPROVER_object_whole(self->block_), self->block_byte_index_, self->byte_count_, self->h_[0], self->h_[1], self->h_[2], self->h_[3], self->h_[4], g_nblocks, g_obs)
__CPROVER_loop_invariant(IN_RANGE(begin, __CPROVER_loop_entry(begin), end) && self->block_byte_index_ == (g_off0 + (OFF(begin) - OFF(__CPROVER_loop_entry(begin)))) % 64 &&
      self->byte_count_ == g_cnt0 + (OFF(begin) - OFF(__CPROVER_loop_entry(begin))) && g_nblocks == g_nb0 + (g_off0 + (OFF(begin) - OFF(__CPROVER_loop_entry(begin)))) / 64)
/* bytes waiting in block_ (at the ghost index) are the stream bytes after the last completed block */
__CPROVER_loop_invariant(g_bj < self->block_byte_index_ ==> self->block_[g_bj] == (64 * (g_nblocks - g_nb0) + g_bj < g_off0 ? g_old_for_obs : (__CPROVER_loop_entry(begin))[64 * (g_nblocks - g_nb0) + g_bj - g_off0]))
/* completed blocks were handed over with exactly the stream bytes */
__CPROVER_loop_invariant(g_obs == ((g_bi >= g_nb0 && g_bi < g_nblocks) ? (64 * (g_bi - g_nb0) + g_bj < g_off0 ? g_old_for_obs : (__CPROVER_loop_entry(begin))[64 * (g_bi - g_nb0) + g_bj - g_off0]) : g_obs0))
__CPROVER_decreases(OFF(end) - OFF(begin))'''},
         contract=r'''
__CPROVER_requires(__CPROVER_rw_ok(self, sizeof(*self)) && self->block_byte_index_ < 64 && self->byte_count_ <= BUF_CAP && g_bj < 64 && g_nblocks <= BUF_CAP && VALID_RANGE((unsigned char const *)bytes_begin, (unsigned char const *)bytes_end) &&
                   OFF(bytes_end) - OFF(bytes_begin) <= BUF_CAP && !SAME(bytes_begin, self))
__CPROVER_assigns(*self, g_nblocks, g_obs, g_off0, g_nb0, g_cnt0, g_old_for_obs, g_obs0)
/* chunking independence: after feeding n bytes the object is in the state "stream advanced by n": length + n, cursor (old + n) mod 64,
   exactly the completed blocks of (buffered bytes ++ input) handed to the compression function in order with exactly those bytes */
__CPROVER_ensures(self->byte_count_ == g_cnt0 + (OFF(bytes_end) - OFF(bytes_begin)) && self->block_byte_index_ == (g_off0 + (OFF(bytes_end) - OFF(bytes_begin))) % 64 &&
                  g_nblocks == g_nb0 + (g_off0 + (OFF(bytes_end) - OFF(bytes_begin))) / 64)
__CPROVER_ensures((g_bi >= g_nb0 && g_bi < g_nblocks) ==> g_obs == (64 * (g_bi - g_nb0) + g_bj < g_off0 ? g_old_for_obs : ((unsigned char const *)bytes_begin)[64 * (g_bi - g_nb0) + g_bj - g_off0]))
'''),
    dict(cname='sha1_get_digest', file=S, locate=lit('inline void sha1::get_digest(digest_type digest)'), sig='void sha1_get_digest(struct sha1 *self, unsigned int *digest)', self_arg='self',
         members=['h_', 'block_byte_index_', 'byte_count_'], rename={'process_byte': 'sha1_process_byte'},
         body_ghost='g_off0 = self->block_byte_index_; g_nb0 = g_nblocks; g_cnt0 = self->byte_count_; g_old_for_obs = self->block_[g_bj]; g_obs0 = g_obs;',
         loops={0: SHA1_PAD_LOOP % dict(where='((self->block_byte_index_ == 0 && g_nblocks == g_nb0 + 1) || (self->block_byte_index_ > g_off0 && self->block_byte_index_ < 64 && g_nblocks == g_nb0)) && g_off0 >= 56 && g_off0 <= 62',
                                        dec='(self->block_byte_index_ == 0 ? 0 : 64 - self->block_byte_index_)'),
                1: SHA1_PAD_LOOP % dict(where='self->block_byte_index_ <= 56 && g_nblocks == g_nb0 + 1 && g_off0 >= 56 && g_off0 <= 62', dec='56 - self->block_byte_index_'),
                2: SHA1_PAD_LOOP % dict(where='self->block_byte_index_ <= 56 && ((g_off0 < 56 && g_nblocks == g_nb0 && self->block_byte_index_ > g_off0) || (g_off0 == 63 && g_nblocks == g_nb0 + 1))', dec='56 - self->block_byte_index_')},
         contract='__CPROVER_requires(__CPROVER_rw_ok(self, sizeof(*self)) && __CPROVER_w_ok(digest, 5 * sizeof(unsigned int)) && self->block_byte_index_ < 64 && self->byte_count_ <= BUF_CAP && g_bj < 64 && g_nblocks <= BUF_CAP && !SAME(digest, self))\n'
                  '__CPROVER_assigns(*self, __CPROVER_object_upto(digest, 5 * sizeof(unsigned int)), g_nblocks, g_obs, g_off0, g_nb0, g_cnt0, g_old_for_obs, g_obs0)'),
    dict(cname='sha1_reset', file=S, locate=lit('inline void sha1::reset()'), sig='void sha1_reset(struct sha1 *self)', members=['h_', 'block_byte_index_', 'byte_count_'],
         contract='__CPROVER_requires(__CPROVER_rw_ok(self, sizeof(*self)))\n__CPROVER_assigns(self->h_[0], self->h_[1], self->h_[2], self->h_[3], self->h_[4], self->block_byte_index_, self->byte_count_)\n'
                  '/* FIPS 180-4 5.3.1 initial hash value */\n'
                  '__CPROVER_ensures(self->h_[0] == 0x67452301u && self->h_[1] == 0xefcdab89u && self->h_[2] == 0x98badcfeu && self->h_[3] == 0x10325476u && self->h_[4] == 0xc3d2e1f0u && self->block_byte_index_ == 0 && self->byte_count_ == 0)'),
    # ---------------- HMAC (RFC 2104) over an abstract message_digest: what the inner and the outer hash are fed
    dict(cname='hmac_init', file=CR, locate=lit('void hmac::init()'), sig='void hmac_init(struct hm *self)', self_arg='self', rename={'memcpy': 'verif_memcpy'},
         rewrites=[(r'md_->block_size\(\)', 'self->block_size', 1), (r'md_->digest_size\(\)', 'self->digest_size', 1),
                   (r'std::vector<unsigned char> (\w+)\(block_size,\w\);', r'unsigned char \1[HM_BMAX]; memset(\1, 0, HM_BMAX);', 2), (r'key_\.size\(\)', 'self->key_n', 4), (r'key_\.data\(\)', 'self->key_p', 3),
                   (r'md_->append\(', 'md_rec_append(MD_IN, ', 2), (r'md_opad_->append\(', 'md_rec_append(MD_OUT, ', 1), (r'md_->readout\(', 'md_rec_readout(self, MD_IN, ', 1),
                   (r'&(\w+)\.front\(\)', r'\1', 7), (r'(\w+)\.assign\(block_size,\w\);', r'memset(\1, 0, HM_BMAX);', 2)],
         body_ghost='g_mk = g_hk; g_mk2 = g_hk;',
         inserts=[(r'verif_memcpy\(opad,\s*self->key_p,\s*self->key_n\);\s*\}', 0, 'g_kp_i = ipad[g_hk]; g_kp_o = opad[g_hk];')],
         loops={0: r'''
__CPROVER_assigns(i, __CPROVER_object_whole(ipad), __CPROVER_object_whole(opad))
__CPROVER_loop_invariant(i <= block_size && block_size <= HM_BMAX && g_hk < block_size &&
      (g_hk < i ? (ipad[g_hk] == (unsigned char)(g_kp_i ^ 0x36) && opad[g_hk] == (unsigned char)(g_kp_o ^ 0x5c)) : (ipad[g_hk] == g_kp_i && opad[g_hk] == g_kp_o)))
__CPROVER_decreases(block_size - i)'''},
         contract=r'''
__CPROVER_requires(__CPROVER_r_ok(self, sizeof(*self)) && self->block_size >= 16 && self->block_size <= HM_BMAX && self->digest_size >= 16 && self->digest_size <= self->block_size && self->key_n <= 4096 &&
                   __CPROVER_r_ok(self->key_p, self->key_n) && g_hk < self->block_size && g_md_app_calls[0] == 0 && g_md_app_calls[1] == 0 && g_md_rd_calls == 0)
__CPROVER_assigns(__CPROVER_object_whole(g_md_app_calls), __CPROVER_object_whole(g_md_app_n), __CPROVER_object_whole(g_md_app_byte), __CPROVER_object_whole(g_md_app_first_n), g_md_rd_calls, g_mk, g_mk2, g_kp_i, g_kp_o)
/* RFC 2104: K' = K padded with zeros to the block size, or H(K) padded when K is longer than a block; the inner hash starts with K' xor 0x36.., the outer one with K' xor 0x5c.. (observed at the arbitrary index g_hk) */
__CPROVER_ensures(g_md_app_calls[MD_OUT] == 1 && g_md_app_n[MD_OUT] == self->block_size && g_md_app_n[MD_IN] == self->block_size && g_md_app_calls[MD_IN] == (self->key_n > self->block_size ? 2 : 1))
__CPROVER_ensures(self->key_n <= self->block_size ==> (g_md_rd_calls == 0 && g_md_app_byte[MD_IN] == (unsigned char)((g_hk < self->key_n ? (unsigned char)self->key_p[g_hk] : 0) ^ 0x36) &&
                  g_md_app_byte[MD_OUT] == (unsigned char)((g_hk < self->key_n ? (unsigned char)self->key_p[g_hk] : 0) ^ 0x5c)))
__CPROVER_ensures(self->key_n > self->block_size ==> (g_md_rd_calls == 1 && g_md_app_first_n[MD_IN] == self->key_n && g_md_app_byte[MD_IN] == (unsigned char)((g_hk < self->digest_size ? g_dig_byte : 0) ^ 0x36) &&
                  g_md_app_byte[MD_OUT] == (unsigned char)((g_hk < self->digest_size ? g_dig_byte : 0) ^ 0x5c)))
'''),
    dict(cname='hmac_readout', file=CR, locate=lit('void hmac::readout(void *ptr)'), sig='void hmac_readout(struct hm *self, void *ptr)', rename={'init': 'hmac_init'}, self_arg='self',
         rewrites=[(r'std::vector<unsigned char> digest\(md_->digest_size\(\),\w\);', 'unsigned char digest[HM_BMAX]; memset(digest, 0, HM_BMAX);', 1), (r'md_->digest_size\(\)', 'self->digest_size', 2),
                   (r'md_->readout\(', 'md_rec_readout(self, MD_IN, ', 1), (r'md_opad_->append\(', 'md_rec_append(MD_OUT, ', 1), (r'md_opad_->readout\(ptr\)', 'md_rec_readout_final(self, ptr)', 0),
                   (r'&digest\.front\(\)', 'digest', 2), (r'digest\.assign\(self->digest_size,\w\);', 'memset(digest, 0, HM_BMAX);', 1)],
         contract=r'''
__CPROVER_requires(__CPROVER_r_ok(self, sizeof(*self)) && self->block_size >= 16 && self->block_size <= HM_BMAX && self->digest_size >= 16 && self->digest_size <= self->block_size && self->key_n <= 4096 &&
                   __CPROVER_r_ok(self->key_p, self->key_n) && g_hk < self->digest_size && g_md_app_calls[0] == 0 && g_md_app_calls[1] == 0 && g_md_rd_calls == 0 && g_final_calls == 0 && __CPROVER_w_ok(ptr, self->digest_size))
__CPROVER_assigns(__CPROVER_object_whole(g_md_app_calls), __CPROVER_object_whole(g_md_app_n), __CPROVER_object_whole(g_md_app_byte), __CPROVER_object_whole(g_md_app_first_n), g_md_rd_calls, g_mk, g_mk2, g_kp_i, g_kp_o,
                  g_final_calls, g_final_after_outer_app, g_outer_fed_n, g_outer_fed_byte, g_final_ptr)
/* the tag is the outer hash read out AFTER it was fed exactly the inner digest (digest_size bytes, observed at g_hk); then the object is re-armed with the key (init) */
__CPROVER_ensures(g_final_calls == 1 && g_final_ptr == ptr && g_final_after_outer_app && g_outer_fed_n == self->digest_size && g_outer_fed_byte == g_dig_byte)
'''),
]
jobs = [
    dict(name='md5_process', props=P, kind='plain', unwind=17, per_property=r'^md5_process\.assertion|^h_md5_process\.assertion', checks=HASH_CHECKS, timeout=300, cost=20, pp_workers=14,
         complete_note='straight-line code; 64 assert-then-assume cut points, one cbmc process per obligation; the only loops (ghost word copy, big-endian path) have constant bound 16',
         harness=r'''
    md5_state_t st, st0; unsigned char *blk = malloc(64 + 3); __CPROVER_assume(blk != NULL);
    size_t mis; __CPROVER_assume(mis <= 3);          /* aligned and unaligned data */
    st0 = st;
    WIT_BUF(0, blk + mis, 24);
    md5_process(&st, blk + mis);
    /* RFC 1321 step 4: registers incremented by the result of the 64 RFC steps (ghost g_r) from their old values over the block words */
    __CPROVER_assert(g_in[0] == st0.abcd[0] && g_in[1] == st0.abcd[1] && g_in[2] == st0.abcd[2] && g_in[3] == st0.abcd[3], "md5: the 64 steps start from the old registers");
    __CPROVER_assert(st.abcd[0] == st0.abcd[0] + g_r[0] && st.abcd[1] == st0.abcd[1] + g_r[1] && st.abcd[2] == st0.abcd[2] + g_r[2] && st.abcd[3] == st0.abcd[3] + g_r[3], "md5: registers += result of the 64 RFC steps");
    __CPROVER_assert(st.count[0] == st0.count[0] && st.count[1] == st0.count[1], "md5: length counters untouched by the compression function");
    size_t j; __CPROVER_assume(j < 64); __CPROVER_assert(st.buf[j] == st0.buf[j], "md5: block buffer untouched by the compression function");
    VERIF_REACH;''', witness=dict(bufs=['block']), replay='c16:md5', replay_link=['-lcrypto', '-Wno-deprecated-declarations', '-L{BUILD}', '-lcppcms', '-L{BUILD}/booster', '-lbooster']),
    dict(name='md5_append', props=P, replay='c16:md5', replay_link=['-lcrypto', '-Wno-deprecated-declarations', '-L{BUILD}', '-lcppcms', '-L{BUILD}/booster', '-lbooster'], replay_exhaustive='every message length 0..150 (all padding residues, one and two final blocks), 4 input alignments, fed in two chunks, digest compared with OpenSSL', enforce='md5_append', replace=['md5_process_c', 'verif_memcpy'], checks=HASH_CHECKS, timeout=300,
         harness=r'''
    md5_state_t st; int n; __CPROVER_assume(n >= 0 && n < (1 << 28)); unsigned char *d = malloc(n > 0 ? n : 0); __CPROVER_assume(d != NULL);
    size_t bi, bj, nb; __CPROVER_assume(bj < 64 && nb <= BUF_CAP); g_bi = bi; g_bj = bj; g_nblocks = nb;
    md5_append(&st, d, n); VERIF_REACH;'''),
    dict(name='md5_finish', props=P, replay='c16:md5', replay_link=['-lcrypto', '-Wno-deprecated-declarations', '-L{BUILD}', '-lcppcms', '-L{BUILD}/booster', '-lbooster'], replay_exhaustive='every message length 0..150 (all padding residues, one and two final blocks), 4 input alignments, fed in two chunks, digest compared with OpenSSL', enforce='md5_finish', replace=['md5_process_c', 'verif_memcpy'], pre_unwind=20, object_bits=10, checks=HASH_CHECKS, timeout=600, cost=15,
         complete_note='md5_append is inlined with its real body: its block loop runs at most once for the <= 64 padding bytes and once for the 8 length bytes; the 8- and 16-iteration loops of md5_finish are unwound (constant bounds, unwinding assertions on)',
         harness=r'''
    md5_state_t st, st0; unsigned char dg[16]; size_t bi, bj, nb, dk; __CPROVER_assume(bj < 64 && nb <= BUF_CAP && dk < 16);
    g_bi = bi; g_bj = bj; g_nblocks = nb; st0 = st;
    size_t off0 = MD5_OFF(&st0); uint64_t bits0 = ((uint64_t)st0.count[1] << 32) | st0.count[0];
    md5_finish(&st, dg);
    /* RFC 1321 3.1/3.2: the message is extended by 0x80, zeros up to 56 mod 64, then the 64-bit bit count, least significant byte first */
    size_t total = off0 < 56 ? 64 : 128;
    __CPROVER_assert(g_nblocks == nb + total / 64, "md5_finish feeds one final block, or two when fewer than 9 bytes remain in the last one");
    if(bi >= nb && bi < nb + total / 64) {
      size_t t = 64 * (bi - nb) + bj;
      unsigned char want = t < off0 ? st0.buf[t] : t == off0 ? 0x80 : t < total - 8 ? 0 : (unsigned char)(bits0 >> (8 * (t - (total - 8))));
      __CPROVER_assert(g_obs == want, "byte of the final block(s): buffered message bytes, then 0x80, zeros, and the bit length (RFC 1321 padding) for EVERY residue of the message length");
    }
    __CPROVER_assert(dg[dk] == (unsigned char)(st.abcd[dk >> 2] >> ((dk & 3) << 3)), "digest = A,B,C,D least significant byte first");
    VERIF_REACH;'''),
    dict(name='md5_init', props=P, enforce='md5_init', checks=HASH_CHECKS, harness='md5_state_t st; md5_init(&st); VERIF_REACH;'),
    dict(name='left_rotate', props=P, enforce='left_rotate', checks=HASH_CHECKS, harness='unsigned x; size_t n; left_rotate(x, n); VERIF_REACH;'),
    dict(name='sha1_process_block0', props=P, enforce='sha1_process_block0', replace=['left_rotate'], checks=HASH_CHECKS, timeout=300, cost=20,
         harness='struct sha1 s; size_t t; __CPROVER_assume(t < 80); g_t = t; WIT_BUF(0, s.block_, 24); sha1_process_block0(&s); VERIF_REACH;',
         witness=dict(bufs=['block']), replay='c16:sha1', replay_link=['-lcrypto', '-Wno-deprecated-declarations', '-L{BUILD}', '-lcppcms', '-L{BUILD}/booster', '-lbooster']),
    dict(name='sha1_process_byte', props=P, replay='c16:sha1', replay_link=['-lcrypto', '-Wno-deprecated-declarations', '-L{BUILD}', '-lcppcms', '-L{BUILD}/booster', '-lbooster'], replay_exhaustive='every message length 0..150 (all padding residues, one and two final blocks), 4 input alignments, fed in two chunks, digest compared with OpenSSL', enforce='sha1_process_byte', replace=['sha1_process_block0_c'], checks=HASH_CHECKS,
         harness='struct sha1 s; unsigned char b; size_t bi, bj, nb; __CPROVER_assume(bj < 64 && nb <= BUF_CAP); g_bi = bi; g_bj = bj; g_nblocks = nb; sha1_process_byte(&s, b); VERIF_REACH;'),
    dict(name='sha1_process_block_range', props=P, replay='c16:sha1', replay_link=['-lcrypto', '-Wno-deprecated-declarations', '-L{BUILD}', '-lcppcms', '-L{BUILD}/booster', '-lbooster'], replay_exhaustive='every message length 0..150 (all padding residues, one and two final blocks), 4 input alignments, fed in two chunks, digest compared with OpenSSL', enforce='sha1_process_block_range', replace=['sha1_process_byte'], checks=HASH_CHECKS, timeout=300,
         harness=r'''
    struct sha1 s; SYM_BUF(unsigned char, d, n, BUF_CAP); size_t bi, bj, nb; __CPROVER_assume(bj < 64 && nb <= BUF_CAP); g_bi = bi; g_bj = bj; g_nblocks = nb;
    sha1_process_block_range(&s, d, d + n); VERIF_REACH;'''),
    dict(name='sha1_get_digest', props=P, replay='c16:sha1', replay_link=['-lcrypto', '-Wno-deprecated-declarations', '-L{BUILD}', '-lcppcms', '-L{BUILD}/booster', '-lbooster'], replay_exhaustive='every message length 0..150 (all padding residues, one and two final blocks), 4 input alignments, fed in two chunks, digest compared with OpenSSL', enforce='sha1_get_digest', replace=['sha1_process_byte'], object_bits=10, checks=HASH_CHECKS, timeout=600, cost=5,
         harness=r'''
    struct sha1 s, s0; unsigned int dg[5]; size_t bi, bj, nb, dk; __CPROVER_assume(bj < 64 && nb <= BUF_CAP && dk < 5);
    g_bi = bi; g_bj = bj; g_nblocks = nb; s0 = s;
    size_t off0 = s0.block_byte_index_; uint64_t bits0 = (uint64_t)s0.byte_count_ * 8;
    sha1_get_digest(&s, dg);
    /* FIPS 180-4 5.1.1: the message is extended by 0x80, zeros up to 56 mod 64, then the 64-bit bit count, most significant byte first */
    size_t total = off0 < 56 ? 64 : 128;
    __CPROVER_assert(g_nblocks == nb + total / 64, "sha1::get_digest feeds one final block, or two when fewer than 9 bytes remain in the last one");
    if(bi >= nb && bi < nb + total / 64) {
      size_t t = 64 * (bi - nb) + bj;
      unsigned char want = t < off0 ? s0.block_[t] : t == off0 ? 0x80 : t < total - 8 ? 0 : (unsigned char)(bits0 >> (8 * (7 - (t - (total - 8)))));
      __CPROVER_assert(g_obs == want, "byte of the final block(s): buffered message bytes, then 0x80, zeros, and the big-endian bit length (FIPS 180-4 padding) for EVERY residue of the message length");
    }
    __CPROVER_assert(dg[dk] == s.h_[dk], "digest = H0..H4");
    VERIF_REACH;'''),
    dict(name='sha1_reset', props=P, enforce='sha1_reset', checks=HASH_CHECKS, harness='struct sha1 s; sha1_reset(&s); VERIF_REACH;'),
]

jobs += [
    dict(name='hmac_init', props=P, replay='c16:hmac', replay_link=['-lcrypto', '-Wno-deprecated-declarations', '-L{BUILD}', '-lcppcms', '-L{BUILD}/booster', '-lbooster'], replay_exhaustive='HMAC-MD5 and HMAC-SHA1 of the real cppcms::crypto::hmac against OpenSSL for key lengths 0..150 and message lengths 0..70, object reused once', enforce='hmac_init', replace=['verif_memcpy'], checks=HASH_CHECKS, timeout=600,
         harness=r'''
    struct hm h; size_t kn, hk; __CPROVER_assume(kn <= 4096); char *kb = malloc(kn); __CPROVER_assume(kb != NULL); h.key_p = kb; h.key_n = kn; g_hk = hk; unsigned char db; g_dig_byte = db;
    g_md_app_calls[0] = 0; g_md_app_calls[1] = 0; g_md_rd_calls = 0;
    hmac_init(&h); VERIF_REACH;'''),
    dict(name='hmac_readout', props=P, replay='c16:hmac', replay_link=['-lcrypto', '-Wno-deprecated-declarations', '-L{BUILD}', '-lcppcms', '-L{BUILD}/booster', '-lbooster'], replay_exhaustive='HMAC-MD5 and HMAC-SHA1 of the real cppcms::crypto::hmac against OpenSSL for key lengths 0..150 and message lengths 0..70, object reused once', enforce='hmac_readout', replace=['hmac_init'], checks=HASH_CHECKS, timeout=300, harness=r'''
    struct hm h; size_t kn, hk; __CPROVER_assume(kn <= 4096); char *kb = malloc(kn); __CPROVER_assume(kb != NULL); h.key_p = kb; h.key_n = kn; g_hk = hk; unsigned char db; g_dig_byte = db;
    g_md_app_calls[0] = 0; g_md_app_calls[1] = 0; g_md_rd_calls = 0; g_final_calls = 0; unsigned char out[HM_BMAX];
    hmac_readout(&h, out); VERIF_REACH;'''),
]

UNIT = dict(
    name='hash', pre=PRE, functions=functions, jobs=jobs,
    regions=[dict(name='md5_types', file=MH, start=r'typedef unsigned char md5_byte_t;', end=r'\} md5_state_t;'),
             dict(name='md5_macros', file=M, start=r'#undef BYTE_ORDER', end=r'(?=static void\s+md5_process)')],
    trusted=['hash: the RFC 1321 / FIPS 180-4 ghost state machines are macros in the unit prelude (tables: T[i] computed from sin(i) as the RFC defines, k/s sequences from RFC section 3.4); '
             'they are the specification',
             'hash: every __CPROVER_assume in the ghost macros directly follows an assert of the same predicate (cut points)',
             'hash: checks used: bounds, pointer, div-by-zero, undefined-shift; unsigned/signed overflow checks are off because the arithmetic is modular by definition; '
             'cbmc\'s same-object check is off for md5.cpp\'s alignment test `data - (const md5_byte_t *)0`',
             'hash: OpenSSL/gcrypt SHA-2 and AES are external (not compiled into the proof); "bundled and library-backed implementations agree" is not covered'],
    not_covered={'C16': ['SHA-224/256/384/512 and AES-CBC (OpenSSL/libgcrypt back ends, external code)', 'HMAC construction and key parsing in src/crypto.cpp (std::vector / virtual message_digest objects)',
                         'sha1::process_bytes (two-line wrapper over process_block(begin,end)); SHA-1 messages >= 2^29 bytes (get_digest writes a 32-bit bit count)']},
)
