# Unit "hash" -- bundled MD5 (src/md5.cpp, RFC 1321) and SHA-1 (private/sha1.h, FIPS 180-4).  Serves C16.
import sys, os, math
sys.path.insert(0, os.path.join(os.path.dirname(os.path.abspath(__file__)), '..', 'tools'))
from cxx2c import lit

M = 'src/md5.cpp'
MH = 'private/md5.h'
S = 'private/sha1.h'
P = ['C16']
# hash arithmetic is modular on purpose: no unsigned-overflow check; md5.cpp's alignment test subtracts a null pointer
HASH_CHECKS = ['--no-standard-checks', '--bounds-check', '--pointer-check', '--div-by-zero-check', '--undefined-shift-check']

# ---- RFC 1321 tables, derived here from the text of the RFC (T[i] = floor(2^32 * abs(sin(i))), i in radians)
T = [int(abs(math.sin(i + 1)) * 2**32) & 0xffffffff for i in range(64)]
K = [i for i in range(16)] + [(1 + 5 * i) % 16 for i in range(16)] + [(5 + 3 * i) % 16 for i in range(16)] + [(7 * i) % 16 for i in range(16)]
SH = [7, 12, 17, 22] * 4 + [5, 9, 14, 20] * 4 + [4, 11, 16, 23] * 4 + [6, 10, 15, 21] * 4

PRE = r'''
@@REGION:md5_types@@
@@REGION:md5_macros@@
/* ---------------- RFC 1321 ghost (section 3.4): [abcd k s i]:  a = b + ((a + FUN(b,c,d) + X[k] + T[i]) <<< s) */
static const unsigned char md5_k[64] = {%s};
static const unsigned char md5_s[64] = {%s};
static const uint32_t md5_T[64] = {%s};
uint32_t g_r[4], g_X[16], g_in[4];
#define LE32(p) ((uint32_t)(p)[0] | ((uint32_t)(p)[1] << 8) | ((uint32_t)(p)[2] << 16) | ((uint32_t)(p)[3] << 24))
#define ROTL32(x,s) (((x) << (s)) | ((x) >> (32 - (s))))
#define MD5_FUN(n,x,y,z) ((n) < 16 ? (((x) & (y)) | (~(x) & (z))) : (n) < 32 ? (((x) & (z)) | ((y) & ~(z))) : (n) < 48 ? ((x) ^ (y) ^ (z)) : ((y) ^ ((x) | ~(z))))
#define MD5_EQ (a == g_r[0] && b == g_r[1] && c == g_r[2] && d == g_r[3])
/* after the code has set up X: copy the words the code will use, check they are the little-endian words of the block */
#define MD5_LOAD() do { for(int k_ = 0; k_ < 16; k_++) { g_X[k_] = X[k_]; \
      __CPROVER_assert(g_X[k_] == LE32(data + 4 * k_), "md5: X[k] is the k-th little-endian word of the block (RFC 1321 section 2)"); } \
      g_r[0] = a; g_r[1] = b; g_r[2] = c; g_r[3] = d; g_in[0] = a; g_in[1] = b; g_in[2] = c; g_in[3] = d; } while(0)
/* cut point after the n-th step of the code: advance the ghost by RFC step n, assert equality, then assume it
   (assert-then-assume of the SAME predicate: nothing is assumed that was not just proved) */
#define MD5_CUT(n) do { unsigned i_ = (4 - ((n) & 3)) & 3; \
      uint32_t t_ = g_r[i_] + MD5_FUN(n, g_r[(i_ + 1) & 3], g_r[(i_ + 2) & 3], g_r[(i_ + 3) & 3]) + g_X[md5_k[n]] + md5_T[n]; \
      g_r[i_] = g_r[(i_ + 1) & 3] + ROTL32(t_, md5_s[n]); \
      __CPROVER_assert(MD5_EQ, "md5: registers after this step equal the RFC 1321 step"); __CPROVER_assume(MD5_EQ); } while(0)

/* ---------------- FIPS 180-4 SHA-1 ghost (section 6.1.2) */
struct sha1 { unsigned int h_[5]; unsigned char block_[64]; size_t block_byte_index_; size_t byte_count_; };
uint32_t g_s[5];
#define SHA1_F(t,x,y,z) ((t) < 20 ? (((x) & (y)) ^ (~(x) & (z))) : (t) < 40 ? ((x) ^ (y) ^ (z)) : (t) < 60 ? (((x) & (y)) ^ ((x) & (z)) ^ ((y) & (z))) : ((x) ^ (y) ^ (z)))
#define SHA1_K(t) ((t) < 20 ? 0x5a827999u : (t) < 40 ? 0x6ed9eba1u : (t) < 60 ? 0x8f1bbcdcu : 0xca62c1d6u)
#define BE32(p) (((uint32_t)(p)[0] << 24) | ((uint32_t)(p)[1] << 16) | ((uint32_t)(p)[2] << 8) | (uint32_t)(p)[3])
size_t g_t;   /* arbitrary schedule index chosen by the harness */
/* ghost round: FIPS 180-4 6.1.2 step 3 for round t over the schedule word W_t */
#define SHA1_ROUND_G(t) do { uint32_t T_ = ROTL32(g_s[0], 5) + SHA1_F(t, g_s[1], g_s[2], g_s[3]) + g_s[4] + SHA1_K(t) + w[t]; \
      g_s[4] = g_s[3]; g_s[3] = g_s[2]; g_s[2] = ROTL32(g_s[1], 30); g_s[1] = g_s[0]; g_s[0] = T_; } while(0)
#define SHA1_INIT_G() do { g_s[0] = a; g_s[1] = b; g_s[2] = c; g_s[3] = d; g_s[4] = e; } while(0)
''' % (','.join(map(str, K)), ','.join(map(str, SH)), ','.join('0x%08xu' % t for t in T))

md5_inserts = [(r'#define ROTATE_LEFT[^\n]*\n', 0, 'MD5_LOAD();')]
for n in range(64):
    md5_inserts.append((r'\bSET\([^;()]*\);', n, 'MD5_CUT(%d);' % n))

functions = [
    dict(cname='md5_process', file=M, locate=r'static void\s+md5_process\(md5_state_t \*pms, const md5_byte_t \*data\s*\)',
         sig='void md5_process(md5_state_t *pms, const md5_byte_t *data)', functional_casts=False,
         inserts=md5_inserts,
         rewrites=[(r'\(data - \(const md5_byte_t \*\)\w\)', '((size_t)data)', 1)]),
    dict(cname='md5_init', file=M, locate=r'void\s+md5_init\(md5_state_t \*pms\)', sig='void md5_init(md5_state_t *pms)', functional_casts=False,
         contract='__CPROVER_requires(__CPROVER_rw_ok(pms, sizeof(*pms)))\n__CPROVER_assigns(pms->count[0], pms->count[1], pms->abcd[0], pms->abcd[1], pms->abcd[2], pms->abcd[3])\n'
                  '/* RFC 1321 section 3.3 initial values, zero length */\n'
                  '__CPROVER_ensures(pms->abcd[0] == 0x67452301u && pms->abcd[1] == 0xefcdab89u && pms->abcd[2] == 0x98badcfeu && pms->abcd[3] == 0x10325476u && pms->count[0] == 0 && pms->count[1] == 0)'),
    # ---------------- SHA-1
    dict(cname='left_rotate', file=S, locate=lit('inline unsigned int left_rotate(unsigned int x, std::size_t n)'), sig='unsigned int left_rotate(unsigned int x, size_t n)',
         contract='__CPROVER_requires(n >= 1 && n <= 31)\n__CPROVER_assigns()\n__CPROVER_ensures(__CPROVER_return_value == ROTL32(x, n))'),
    dict(cname='sha1_process_block0', file=S, locate=r'inline void sha1::process_block\(\)', sig='void sha1_process_block0(struct sha1 *self)',
         members=['h_', 'block_'],
         post_rewrites=[(r'(for \(size_t i=\w+; i<\w+; \+\+i\) \{\s*unsigned int f;)', r'SHA1_INIT_G(); \1', 1)],
         loop_ghost={2: 'SHA1_ROUND_G(i);'},
         loops={0: """
__CPROVER_assigns(i, __CPROVER_object_whole(w))
__CPROVER_loop_invariant(i <= 16 && (g_t < i ==> w[g_t] == BE32(self->block_ + 4 * g_t)))
__CPROVER_decreases(16 - i)
""", 1: """
__CPROVER_assigns(i, __CPROVER_object_whole(w))
/* FIPS 180-4 6.1.2 step 1, at an arbitrary index g_t: W_t = M_t (big endian) for t < 16, ROTL1(W_{t-3} ^ W_{t-8} ^ W_{t-14} ^ W_{t-16}) after */
__CPROVER_loop_invariant(16 <= i && i <= 80 && (g_t < 16 ==> w[g_t] == BE32(self->block_ + 4 * g_t)) &&
      ((g_t >= 16 && g_t < i) ==> w[g_t] == ROTL32(w[g_t - 3] ^ w[g_t - 8] ^ w[g_t - 14] ^ w[g_t - 16], 1)))
__CPROVER_decreases(80 - i)
""", 2: """
__CPROVER_assigns(i, a, b, c, d, e, __CPROVER_object_whole(g_s))
/* lock step with the FIPS round function (ghost g_s advanced by SHA1_ROUND_G at the start of every iteration) */
__CPROVER_loop_invariant(i <= 80 && a == g_s[0] && b == g_s[1] && c == g_s[2] && d == g_s[3] && e == g_s[4])
__CPROVER_decreases(80 - i)
"""},
         contract=r"""
__CPROVER_requires(__CPROVER_rw_ok(self, sizeof(*self)) && g_t < 80)
__CPROVER_assigns(self->h_[0], self->h_[1], self->h_[2], self->h_[3], self->h_[4], __CPROVER_object_whole(g_s))
/* FIPS 180-4 6.1.2 step 4: H_j += working variable j (which, by the round-loop invariant, went through the 80 FIPS rounds in lock step) */
__CPROVER_ensures(self->h_[0] == __CPROVER_old(self->h_[0]) + g_s[0] && self->h_[1] == __CPROVER_old(self->h_[1]) + g_s[1] && self->h_[2] == __CPROVER_old(self->h_[2]) + g_s[2] &&
                  self->h_[3] == __CPROVER_old(self->h_[3]) + g_s[3] && self->h_[4] == __CPROVER_old(self->h_[4]) + g_s[4])
"""),
    dict(cname='sha1_reset', file=S, locate=lit('inline void sha1::reset()'), sig='void sha1_reset(struct sha1 *self)', members=['h_', 'block_byte_index_', 'byte_count_'],
         contract='__CPROVER_requires(__CPROVER_rw_ok(self, sizeof(*self)))\n__CPROVER_assigns(self->h_[0], self->h_[1], self->h_[2], self->h_[3], self->h_[4], self->block_byte_index_, self->byte_count_)\n'
                  '/* FIPS 180-4 5.3.1 initial hash value */\n'
                  '__CPROVER_ensures(self->h_[0] == 0x67452301u && self->h_[1] == 0xefcdab89u && self->h_[2] == 0x98badcfeu && self->h_[3] == 0x10325476u && self->h_[4] == 0xc3d2e1f0u && self->block_byte_index_ == 0 && self->byte_count_ == 0)'),
]
jobs = [
    dict(name='md5_process', props=P, kind='plain', unwind=17, per_property=r'^md5_process\.assertion|^h_md5_process\.assertion', checks=HASH_CHECKS, timeout=300, cost=20, pp_workers=14,
         complete_note='straight-line code; 64 assert-then-assume cut points, one cbmc process per obligation; the only loops (ghost word copy, big-endian path) have constant bound 16',
         harness=r'''
    md5_state_t st, st0; unsigned char *blk = malloc(64 + 3); __CPROVER_assume(blk != NULL);
    size_t mis; __CPROVER_assume(mis <= 3);          /* aligned and unaligned data */
    st0 = st;
    WIT_BUF(0, blk + mis, 24);
    md5_process(&st, blk + mis);
    /* RFC 1321 step 4: registers incremented by the result of the 64 RFC steps (ghost g_r) from their old values over the block words */
    __CPROVER_assert(g_in[0] == st0.abcd[0] && g_in[1] == st0.abcd[1] && g_in[2] == st0.abcd[2] && g_in[3] == st0.abcd[3], "md5: the 64 steps start from the old registers");
    __CPROVER_assert(st.abcd[0] == st0.abcd[0] + g_r[0] && st.abcd[1] == st0.abcd[1] + g_r[1] && st.abcd[2] == st0.abcd[2] + g_r[2] && st.abcd[3] == st0.abcd[3] + g_r[3], "md5: registers += result of the 64 RFC steps");
    __CPROVER_assert(st.count[0] == st0.count[0] && st.count[1] == st0.count[1], "md5: length counters untouched by the compression function");
    size_t j; __CPROVER_assume(j < 64); __CPROVER_assert(st.buf[j] == st0.buf[j], "md5: block buffer untouched by the compression function");
    VERIF_REACH;''', witness=dict(bufs=['block']), replay='c16:md5', replay_link=['-lcrypto', '-Wno-deprecated-declarations']),
    dict(name='md5_init', props=P, enforce='md5_init', checks=HASH_CHECKS, harness='md5_state_t st; md5_init(&st); VERIF_REACH;'),
    dict(name='left_rotate', props=P, enforce='left_rotate', checks=HASH_CHECKS, harness='unsigned x; size_t n; left_rotate(x, n); VERIF_REACH;'),
    dict(name='sha1_process_block0', props=P, enforce='sha1_process_block0', replace=['left_rotate'], checks=HASH_CHECKS, timeout=300, cost=20,
         harness='struct sha1 s; size_t t; __CPROVER_assume(t < 80); g_t = t; WIT_BUF(0, s.block_, 24); sha1_process_block0(&s); VERIF_REACH;',
         witness=dict(bufs=['block']), replay='c16:sha1', replay_link=['-lcrypto', '-Wno-deprecated-declarations']),
    dict(name='sha1_reset', props=P, enforce='sha1_reset', checks=HASH_CHECKS, harness='struct sha1 s; sha1_reset(&s); VERIF_REACH;'),
]

UNIT = dict(
    name='hash', pre=PRE, functions=functions, jobs=jobs,
    regions=[dict(name='md5_types', file=MH, start=r'typedef unsigned char md5_byte_t;', end=r'\} md5_state_t;'),
             dict(name='md5_macros', file=M, start=r'#undef BYTE_ORDER', end=r'(?=static void\s+md5_process)')],
    trusted=['hash: the RFC 1321 / FIPS 180-4 ghost state machines are macros in the unit prelude (tables: T[i] computed from sin(i) as the RFC defines, k/s sequences from RFC section 3.4); '
             'they are the specification',
             'hash: every __CPROVER_assume in the ghost macros directly follows an assert of the same predicate (cut points)',
             'hash: checks used: bounds, pointer, div-by-zero, undefined-shift; unsigned/signed overflow checks are off because the arithmetic is modular by definition; '
             'cbmc\'s same-object check is off for md5.cpp\'s alignment test `data - (const md5_byte_t *)0`',
             'hash: OpenSSL/gcrypt SHA-2 and AES are external (not compiled into the proof); "bundled and library-backed implementations agree" is not covered'],
    not_covered={'C16': ['SHA-224/256/384/512 and AES-CBC (OpenSSL/libgcrypt back ends, external code)', 'HMAC construction and key parsing in src/crypto.cpp (std::vector / virtual message_digest objects)',
                         'streaming layer (md5_append/md5_finish, sha1::process_byte/get_digest: padding and chunking) -- only the compression functions, initial values and rotate are under contract']},
)
