# Unit "aiobuf" -- scatter/gather buffer arithmetic (booster/booster/aio/buffer.h: details::advance), the primitive behind
# "the bytes not yet accepted by the socket are sent next, once and in order" (short writes).  Serves C03.
import sys, os
sys.path.insert(0, os.path.join(os.path.dirname(os.path.abspath(__file__)), '..', 'tools'))
from cxx2c import lit

B = 'booster/booster/aio/buffer.h'
P = ['C03']

PRE = r'''
struct entry { char const *ptr; size_t size; };
struct bufdata { struct entry const *first; size_t second; };      /* Buffer::buffer_data_type = pair<entry const*, size_t> */
/* res.add(p,s) (R10 ghost): total length of the result and the address of the result byte with arbitrary index g_k */
size_t g_res_bytes, g_k, g_adds; char const *g_res_byte; bool g_res_has;
static void res_add(char const *p, size_t s)
{
  if(s == 0) return;                                   /* buffer_impl::add ignores empty chunks */
  if(!g_res_has && g_k >= g_res_bytes && g_k - g_res_bytes < s) { g_res_has = 1; g_res_byte = p + (g_k - g_res_bytes); }
  g_res_bytes += s; g_adds++;
}
'''

functions = [
    dict(cname='aio_advance', file=B, locate=lit('Buffer advance(Buffer const &buf,size_t n)'), sig='void aio_advance(struct bufdata data_in, size_t n)',
         rewrites=[(r'Buffer res;', '', 1), (r'typename Buffer::buffer_data_type data=buf\.get\(\);', 'struct bufdata data = data_in;', 1), (r'res\.add\(', 'res_add(', 2), (r'return res;', 'return;', 1)],
         contract=r'''
/* at most 8 chunks (stated bound: both loops are unwound 8 times) */
__CPROVER_requires(data_in.second <= 8 && (data_in.second == 0 || __CPROVER_r_ok(data_in.first, data_in.second * sizeof(struct entry))) && g_res_bytes == 0 && !g_res_has)
__CPROVER_assigns(g_res_bytes, g_res_byte, g_res_has, g_adds)
'''),
]

jobs = [
    dict(name='aio_advance', props=P, enforce='aio_advance', pre_unwind=10, bounded=False,
         complete_note='complete for buffers of at most 8 chunks (chunk sizes and contents unbounded): the two loops run at most 8 times and are fully unwound with unwinding assertions; buffers with more chunks are not covered',
         harness=r'''
    struct entry e[8]; size_t cnt, n, k; __CPROVER_assume(cnt <= 8);
    size_t cap; __CPROVER_assume(cap <= BUF_CAP); char *base = malloc(cap); __CPROVER_assume(base != NULL);
    size_t total = 0;
    for(size_t i = 0; i < 8; i++) { size_t off; __CPROVER_assume(e[i].size <= 100000 && off <= cap && e[i].size <= cap - off); e[i].ptr = base + off; if(i < cnt) total += e[i].size; }
    __CPROVER_assume(n <= BUF_CAP * 2);
    g_k = k; g_res_bytes = 0; g_res_has = 0; g_adds = 0;
    struct bufdata d; d.first = e; d.second = cnt;
    aio_advance(d, n);
    /* specification: the result is the input byte stream with the first min(n,total) bytes dropped */
    size_t drop = n < total ? n : total;
    __CPROVER_assert(g_res_bytes == total - drop, "advance(buf,n) holds exactly the bytes after the first n");
    if(k < total - drop) {
      /* address of input byte number k+drop */
      size_t want = k + drop; char const *addr = 0; size_t acc = 0; bool found = 0;
      for(size_t i = 0; i < 8; i++) if(i < cnt && !found) { if(want - acc < e[i].size) { addr = e[i].ptr + (want - acc); found = 1; } else acc += e[i].size; }
      __CPROVER_assert(g_res_has && found && g_res_byte == addr, "byte k of advance(buf,n) is byte k+n of buf (same address: nothing is sent twice or skipped after a short write)");
    }
    VERIF_REACH;'''),
]

UNIT = dict(
    name='aiobuf', pre=PRE, functions=functions, jobs=jobs,
    trusted=['aiobuf: Buffer::get() is a (pointer to entry array, count) pair and Buffer::add() a ghost recorder (R2/R10): the single-entry / vector representation switch of buffer_impl is not modelled',
             'aiobuf: all chunks point into one allocation (so that pointer arithmetic on them is defined for cbmc)'],
    not_covered={'C03': ['everything above the buffer arithmetic: header block assembly, HTTP chunked / Content-Length framing, FastCGI STDOUT record framing and END_REQUEST, gzip, streambuf chain, '
                         'async write loop (nonblocking_write / append_pending), page-cache copy']},
)
