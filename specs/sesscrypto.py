# Unit "sesscrypto" -- client-side session envelope: constant-time MAC compare, MAC-then-decrypt skeletons of hmac_cipher / aes_cipher,
# and the cookie loader (src/hmac_encryptor.cpp, src/aes_encryptor.cpp, src/session_cookies.cpp).  Serves C05.
import sys, os
sys.path.insert(0, os.path.join(os.path.dirname(os.path.abspath(__file__)), '..', 'tools'))
from cxx2c import lit

H = 'src/hmac_encryptor.cpp'
A = 'src/aes_encryptor.cpp'
C = 'src/session_cookies.cpp'
P = ['C05']

PRE = r'''
#include <time.h>
/* the cipher text (std::string const &cipher, R8) and the ghost record of what was MAC'ed / compared / decrypted */
struct cipherctx { char const *c_p; size_t c_n; size_t digest_size; size_t block_size; };
#define CTX_OK(s) (__CPROVER_r_ok(s, sizeof(*(s))) && (s)->c_n <= BUF_CAP && __CPROVER_r_ok((s)->c_p, (s)->c_n + 1) && (s)->digest_size >= 16 && (s)->digest_size <= 64 && \
                   ((s)->block_size == 8 || (s)->block_size == 16 || (s)->block_size == 32))
size_t g_mac_off, g_mac_n; bool g_mac_appended, g_mac_read; char *g_mac_buf;
bool g_eq_called, g_eq_result; size_t g_eq_off, g_eq_n;
bool g_dec_called; size_t g_dec_n; bool g_dec_before_mac;
size_t g_plain_off, g_plain_n; bool g_plain_set; bool g_plain_from_dec;
size_t g_k; uint32_t g_inner_size; char *g_fullplain;
/* md.append(p,n): the MAC input must lie inside the cipher text */
static void md_append(struct cipherctx *self, char const *p, size_t n)
{
  __CPROVER_assert(SAME(p, self->c_p) && OFF(p) >= OFF(self->c_p) && OFF(p) - OFF(self->c_p) <= self->c_n && n <= self->c_n - (OFF(p) - OFF(self->c_p)), "MAC input lies inside the cipher text");
  g_mac_off = OFF(p) - OFF(self->c_p); g_mac_n = n; g_mac_appended = 1;
}
/* md.readout(out): writes digest_size bytes */
static void md_readout(struct cipherctx *self, char *out)
{
  __CPROVER_assert(__CPROVER_w_ok(out, self->digest_size), "MAC read-out buffer holds digest_size bytes");
  __CPROVER_assert(g_mac_appended, "MAC is read out after the message was appended");
  g_mac_read = 1; g_mac_buf = out;
}
static char *vec_alloc(size_t n) { char *p = malloc(n); __CPROVER_assume(p != NULL); return p; }
/* constant-time compare (proved separately, job hmac_equal): here only what was compared is recorded */
static bool equal_stub(struct cipherctx *self, char const *a, char const *b, size_t n)
{
  __CPROVER_assert(g_mac_read && a == g_mac_buf, "the computed MAC is the left operand of the comparison");
  __CPROVER_assert(SAME(b, self->c_p) && OFF(b) >= OFF(self->c_p) && OFF(b) - OFF(self->c_p) <= self->c_n && n <= self->c_n - (OFF(b) - OFF(self->c_p)), "the presented tag lies inside the cipher text");
  g_eq_called = 1; g_eq_off = OFF(b) - OFF(self->c_p); g_eq_n = n; bool r; g_eq_result = r; return r;
}
static void plain_assign_cipher(struct cipherctx *self, size_t off, size_t n)
{
  __CPROVER_assert(off <= self->c_n && n <= self->c_n - off, "plain text range lies inside the cipher text");
  g_plain_off = off; g_plain_n = n; g_plain_set = 1;
}
static void cbc_decrypt(struct cipherctx *self, char const *in, char *out, size_t n)
{
  __CPROVER_assert(g_eq_called && g_eq_result, "decryption happens only after the MAC over the whole cipher text was verified (MAC-then-decrypt)");
  __CPROVER_assert(SAME(in, self->c_p) && OFF(in) == OFF(self->c_p) && n <= self->c_n && __CPROVER_w_ok(out, n), "decrypt ranges");
  g_dec_called = 1; g_dec_n = n;
}
static void plain_assign_dec(char const *p, size_t n)
{
  __CPROVER_assert(g_dec_called && SAME(p, g_fullplain) && OFF(p) >= OFF(g_fullplain) && OFF(p) - OFF(g_fullplain) <= g_dec_n && n <= g_dec_n - (OFF(p) - OFF(g_fullplain)),
                   "returned plain text lies inside the decrypted buffer");
  g_plain_set = 1; g_plain_from_dec = 1; g_plain_off = OFF(p) - OFF(g_fullplain); g_plain_n = n;
}
'''

EQ_INV = r'''
__CPROVER_assigns(i, diff)
__CPROVER_loop_invariant(i <= n && diff <= i && (diff == 0 ==> (g_k < i ==> left[g_k] == right[g_k])) && ((g_k < i && left[g_k] != right[g_k]) ==> diff > 0))
__CPROVER_decreases(n - i)
'''

PRE += r'''
/* ---- aes_factory(algo, key): how a combined key is split into the AES key and the HMAC key.  crypto::key is (p,n); key::set(p,n) is a recorder */
struct ckey { char const *p; size_t n; };
enum { KEY_CBC, KEY_HMAC };
bool g_cbc_supported; size_t g_digest_size, g_cbc_key_size; int g_ks_calls[2]; char const *g_ks_p[2]; size_t g_ks_n[2];
char *g_hm_out[2]; int g_hm_readouts, g_hm_appends; size_t g_hm_dsize; char const *g_hm_name;
static void key_set(int which, char const *p, size_t n) { g_ks_calls[which]++; g_ks_p[which] = p; g_ks_n[which] = n; __CPROVER_assert(n == 0 || __CPROVER_r_ok(p, n), "key::set(p,n) reads n bytes at p"); }
/* crypto::hmac mac(name,key): digest size 32 for "sha256", 64 for "sha512"; readout writes digest_size bytes */
static void hmac_init(char const *name, struct ckey const *k) { g_hm_name = name; g_hm_dsize = (name[3] == '2') ? 32 : 64; g_hm_readouts = 0; g_hm_appends = 0; }
static size_t hmac_dsize(void) { return g_hm_dsize; }
static void hmac_append(char const *p, size_t n) { g_hm_appends++; }
static void hmac_readout(char *out) { __CPROVER_assert(__CPROVER_w_ok(out, g_hm_dsize), "hmac::readout writes digest_size bytes"); if(g_hm_readouts < 2) g_hm_out[g_hm_readouts] = out; g_hm_readouts++; }
'''

PRE += r'''
/* ---- session_cookies::load / save: the cookie, the base64 text and the cipher text are opaque ids handed between recorders; the decrypted plain text is a real buffer
 *      (its first sizeof(time_t) bytes are the expiry) */
struct sbuf { char *p; size_t n; };
size_t g_cookie_id, g_sub_id2, g_cipher_id, g_data_id; bool g_cookie_empty; char g_cookie_c0; bool g_b64_ok, g_dec_ok2; struct sbuf g_plain; time_t g_now2;
int g_clear_calls, g_b64_calls, g_decr_calls, g_substr_calls, g_badarg, g_tsub_calls; size_t g_b64_in, g_decr_in, g_tsub_from;
static size_t get_cookie_rec(void) { return g_cookie_id; }
static bool cookie_empty(size_t id) { if(id != g_cookie_id) g_badarg = 1; return g_cookie_empty; }
static char cookie_at(size_t id, size_t at) { if(id != g_cookie_id || at != 0) g_badarg = 1; return g_cookie_c0; }
static size_t cookie_substr(size_t id, size_t from) { if(id != g_cookie_id || from != 1) g_badarg = 1; if(g_substr_calls < 2) g_substr_calls++; return g_sub_id2; }
static void clear_cookie_rec(void) { if(g_clear_calls < 2) g_clear_calls++; }
static bool b64_decode_rec(size_t in, size_t *out) { if(g_b64_calls < 2) g_b64_calls++; g_b64_in = in; if(!g_b64_ok) return 0; *out = g_cipher_id; return 1; }
static bool decrypt_rec(size_t in, struct sbuf *out) { if(g_decr_calls < 2) g_decr_calls++; g_decr_in = in; if(!g_dec_ok2) return 0; *out = g_plain; return 1; }
static size_t tmp_substr_rec(struct sbuf const *t, size_t from) { if(t->p != g_plain.p || t->n != g_plain.n) g_badarg = 1; if(g_tsub_calls < 2) g_tsub_calls++; g_tsub_from = from; return g_data_id; }
static time_t time0_rec(void) { return g_now2; }
/* save side */
struct rdata { int parts; size_t raw_n; time_t raw_val; size_t str_id; int raw_at, str_at; };
size_t g_enc_out, g_b64e_out, g_cat_out; int g_enc_calls2, g_enc_parts, g_b64e_calls, g_cat_calls2, g_set_calls; size_t g_b64e_in, g_cat_in, g_set_arg; char g_cat_c;
static void rd_append_raw(struct rdata *r, char const *p, size_t n) { r->raw_at = r->parts; if(r->parts < 3) r->parts++; r->raw_n = n; if(n == sizeof(time_t)) memcpy(&r->raw_val, p, sizeof(time_t)); }
static void rd_append_str(struct rdata *r, size_t id) { r->str_at = r->parts; if(r->parts < 3) r->parts++; r->str_id = id; }
struct rdata g_enc_seen;
static size_t encrypt_rec(struct rdata const *r) { if(g_enc_calls2 < 2) g_enc_calls2++; g_enc_seen = *r; return g_enc_out; }
static size_t b64_encode_rec(size_t in) { if(g_b64e_calls < 2) g_b64e_calls++; g_b64e_in = in; return g_b64e_out; }
static size_t cat_lit_rec(char c, size_t id) { if(g_cat_calls2 < 2) g_cat_calls2++; g_cat_c = c; g_cat_in = id; return g_cat_out; }
static void set_cookie_rec(size_t id) { if(g_set_calls < 2) g_set_calls++; g_set_arg = id; }
'''

SI = 'src/session_interface.cpp'
PRE += r'''
/* ---- session_interface::load: what happens with the plain text the storage back end (session_cookies for client-side sessions) hands over.  load_data() parses it and THROWS on malformed input. */
#define K__t 1
#define K__h 2
#define K__s 3
struct sintf { int loaded_; bool has_storage; int timeout_val_, timeout_val_def_, how_, how_def_; int saved_, on_server_; time_t timeout_in_; };
bool g_sl_ok, g_ld_throws; size_t g_sl_ar; int g_sl_calls, g_ld_calls, g_sclear_calls, g_dclear_calls, g_dclear_after_ld, g_cassign_calls, g_cclear_calls; size_t g_ld_arg; int g_isset[4];
static void data_clear_rec(void) { if(g_dclear_calls < 3) g_dclear_calls++; if(g_ld_calls) g_dclear_after_ld = 1; }
static void copy_clear_rec(void) { if(g_cclear_calls < 3) g_cclear_calls++; }
static bool storage_load_rec(size_t *ar, time_t *to) { if(g_sl_calls < 2) g_sl_calls++; if(!g_sl_ok) return 0; *ar = g_sl_ar; time_t t; *to = t; return 1; }
static void load_data_rec(size_t ar) { if(g_ld_calls < 2) g_ld_calls++; g_ld_arg = ar; if(g_ld_throws) verif_thrown = 1; }
static void storage_clear_rec(void) { if(g_sclear_calls < 2) g_sclear_calls++; }
static void copy_assign_rec(void) { if(g_cassign_calls < 2) g_cassign_calls++; }
static bool is_set_rec(int k) { return g_isset[k] != 0; }
static int get_int_rec(int k) { int v; return v; }
'''
functions = [
    dict(cname='hmac_equal', file=H, locate=lit('bool hmac_cipher::equal(void const *a,void const *b,size_t n)'), sig='bool hmac_equal(void const *a, void const *b, size_t n)',
         loops={0: EQ_INV},
         contract=r'''
__CPROVER_requires(n <= BUF_CAP && __CPROVER_r_ok(a, n) && __CPROVER_r_ok(b, n))
__CPROVER_assigns()
/* true exactly when every byte is equal (arbitrary ghost index g_k); the loop visits all n bytes whatever the content
   (termination measure n - i; no data-dependent exit: checked syntactically by job hmac_equal_shape) */
__CPROVER_ensures(__CPROVER_return_value ==> (g_k < n ==> ((char const *)a)[g_k] == ((char const *)b)[g_k]))
__CPROVER_ensures((g_k < n && ((char const *)a)[g_k] != ((char const *)b)[g_k]) ==> !__CPROVER_return_value)
'''),
    dict(cname='hmac_decrypt', file=H, locate=lit('bool hmac_cipher::decrypt(std::string const &cipher,std::string &plain)'), sig='bool hmac_decrypt(struct cipherctx *self)',
         rewrites=[(r'crypto::hmac md\(hash_,key_\);', '', 1), (r'cipher\.size\(\)', 'self->c_n', 1), (r'md\.digest_size\(\)', 'self->digest_size', 1),
                   (r'md\.append\(', 'md_append(self, ', 1), (r'cipher\.c_str\(\)', 'self->c_p', 2), (r'std::vector<char> mac\(digest_size,\w\);', 'char *mac = vec_alloc(digest_size);', 1),
                   (r'&mac\[\w\]', 'mac', 3), (r'md\.readout\(', 'md_readout(self, ', 1), (r'\bequal\(', 'equal_stub(self, ', 1),
                   (r'plain = cipher\.substr\((\w+),message_size\);', r'plain_assign_cipher(self, \1, message_size);', 1)],
         contract=r'''
__CPROVER_requires(CTX_OK(self) && !g_mac_appended && !g_mac_read && !g_eq_called && !g_plain_set)
__CPROVER_assigns(g_mac_off, g_mac_n, g_mac_appended, g_mac_read, g_mac_buf, g_eq_called, g_eq_result, g_eq_off, g_eq_n, g_plain_off, g_plain_n, g_plain_set)
/* accepted only if: the MAC was computed over the WHOLE message part [0, size-digest), compared over all digest_size bytes with the tag
   that occupies the last digest_size bytes, the comparison succeeded, and the plain text is exactly that message part */
__CPROVER_ensures(__CPROVER_return_value ==> (self->c_n >= self->digest_size && g_mac_appended && g_mac_off == 0 && g_mac_n == self->c_n - self->digest_size &&
                  g_eq_called && g_eq_result && g_eq_off == self->c_n - self->digest_size && g_eq_n == self->digest_size &&
                  g_plain_set && g_plain_off == 0 && g_plain_n == self->c_n - self->digest_size))
/* rejected => nothing is handed back */
__CPROVER_ensures(!__CPROVER_return_value ==> !g_plain_set)
/* a cipher text shorter than a tag is rejected before any MAC work */
__CPROVER_ensures(self->c_n < self->digest_size ==> (!__CPROVER_return_value && !g_mac_appended))
'''),
    dict(cname='aes_decrypt', file=A, locate=lit('bool aes_cipher::decrypt(std::string const &cipher,std::string &plain)'), sig='bool aes_decrypt(struct cipherctx *self)',
         rewrites=[(r'load\(\);', '', 1), (r'digest_->digest_size\(\)', 'self->digest_size', 1), (r'cbc_->block_size\(\)', 'self->block_size', 1), (r'cipher\.size\(\)', 'self->c_n', 2),
                   (r'crypto::hmac signature\(std::unique_ptr<crypto::message_digest>\(digest_->clone\(\)\),mac_key_\);', '', 1),
                   (r'signature\.append\(', 'md_append(self, ', 1), (r'cipher\.c_str\(\)', 'self->c_p', 3),
                   (r'std::vector<char> verify\(digest_size,\w\);', 'char *verify = vec_alloc(digest_size);', 1), (r'&verify\[\w\]', 'verify', 3),
                   (r'signature\.readout\(', 'md_readout(self, ', 1), (r'hmac_cipher::equal\(', 'equal_stub(self, ', 1),
                   (r'std::vector<char> full_plain\(real_size\);', 'char *full_plain = vec_alloc(real_size); g_fullplain = full_plain;', 1), (r'&full_plain\[(\w+)\]', r'(full_plain + \1)', 3),
                   (r'cbc_->decrypt\(', 'cbc_decrypt(self, ', 1), (r'plain\.assign\(', 'plain_assign_dec(', 1)],
         contract=r'''
__CPROVER_requires(CTX_OK(self) && !g_mac_appended && !g_mac_read && !g_eq_called && !g_plain_set && !g_dec_called)
__CPROVER_assigns(g_mac_off, g_mac_n, g_mac_appended, g_mac_read, g_mac_buf, g_eq_called, g_eq_result, g_eq_off, g_eq_n, g_plain_off, g_plain_n, g_plain_set, g_plain_from_dec, g_dec_called, g_dec_n, g_fullplain)
/* accepted only if: the cipher part is a whole number (>= 2) of blocks, the MAC covers all of it, the tag is the last digest_size bytes and matched;
   decryption ran only after that (asserted in the stub); the inner length fits the decrypted payload (stub assertion) */
__CPROVER_ensures(__CPROVER_return_value ==> (self->c_n >= self->digest_size + 2 * self->block_size && g_mac_off == 0 && g_mac_n == self->c_n - self->digest_size &&
                  g_eq_called && g_eq_result && g_eq_off == self->c_n - self->digest_size && g_eq_n == self->digest_size && g_dec_called && g_dec_n == g_mac_n &&
                  g_plain_set && g_plain_from_dec && g_plain_off == self->block_size + 4 && g_plain_n <= g_dec_n - self->block_size - 4))
__CPROVER_ensures(!__CPROVER_return_value ==> !g_plain_set)
/* a failed MAC never reaches the block cipher */
__CPROVER_ensures((g_eq_called && !g_eq_result) ==> (!g_dec_called && !__CPROVER_return_value))
'''),
    dict(cname='aes_factory_split', file=A, locate=r'aes_factory::aes_factory\(std::string const &algo,crypto::key const &k\)\s*:\s*cbc_\(algo\),\s*hmac_\("sha1"\)',
         sig='void aes_factory_split(struct ckey const *k)', throw_ret='',
         rewrites=[(r'std::unique_ptr<crypto::message_digest> md_ptr\(crypto::message_digest::create_by_name\(hmac_\)\);', '', 1), (r'std::unique_ptr<crypto::cbc> cbc_ptr\(crypto::cbc::create\(algo\)\);', '', 1),
                   (r'!cbc_ptr\.get\(\)', '!g_cbc_supported', 1), (r'md_ptr->digest_size\(\)', 'g_digest_size', 1), (r'cbc_ptr->key_size\(\)', 'g_cbc_key_size', 1),
                   (r'k\.size\(\)', 'k->n', 4), (r'k\.data\(\)', 'k->p', 2), (r'cbc_key_\.set\(', 'key_set(KEY_CBC, ', 2), (r'hmac_key_\.set\(', 'key_set(KEY_HMAC, ', 2),
                   (r'std::string name = ', 'char const *name = ', 1), (r'crypto::hmac mac\(name,k\);', 'hmac_init(name, k);', 1),
                   (r'std::vector<char> (k\w)\(mac\.digest_size\(\),\w\);', r'char \1[64] = {0};', 2), (r'mac\.append\(', 'hmac_append(', 2), (r'mac\.readout\(&(k\w)\[\w\]\)', r'hmac_readout(\1)', 2),
                   (r'&(k\w)\[\w\]', r'\1', 4), (r'(k\w)\.size\(\)', 'hmac_dsize()', 2), (r'std::ostringstream ss;\s*ss\s*<<(?:[^;"]|"[^"]*")*;', '', 1)],
         contract=r'''
__CPROVER_requires(k->n <= 4096 && __CPROVER_r_ok(k->p, k->n) && g_digest_size >= 16 && g_digest_size <= 64 && g_cbc_key_size >= 16 && g_cbc_key_size <= 32 &&
                   g_ks_calls[0] == 0 && g_ks_calls[1] == 0 && verif_thrown == 0)
__CPROVER_assigns(verif_thrown, __CPROVER_object_whole(g_ks_calls), __CPROVER_object_whole(g_ks_p), __CPROVER_object_whole(g_ks_n), __CPROVER_object_whole(g_hm_out), g_hm_readouts, g_hm_appends, g_hm_dsize, g_hm_name)
/* either the key is refused, or both keys are set exactly once with the lengths the two primitives need */
__CPROVER_ensures(verif_thrown ? (g_ks_calls[0] == 0 && g_ks_calls[1] == 0) : (g_ks_calls[0] == 1 && g_ks_calls[1] == 1 && g_ks_n[KEY_CBC] == g_cbc_key_size && g_ks_n[KEY_HMAC] == g_digest_size))
/* combined key: the AES key is the first cbc_key_size bytes, the MAC key the remaining digest_size bytes: every key byte is used, none twice
   (a cookie sealed under a key that differs in ANY byte must not verify, so no byte of the configured key may be ignored) */
__CPROVER_ensures((!verif_thrown && k->n == g_cbc_key_size + g_digest_size) ==> (g_ks_p[KEY_CBC] == k->p && g_ks_p[KEY_HMAC] == k->p + g_cbc_key_size && g_ks_n[KEY_CBC] + g_ks_n[KEY_HMAC] == k->n))
/* any other accepted key: both keys are derived from the WHOLE key with a keyed hash (two different read-outs), never cut out of it */
__CPROVER_ensures((!verif_thrown && k->n != g_cbc_key_size + g_digest_size) ==> (k->n >= g_cbc_key_size && g_hm_readouts == 2 && g_hm_appends == 2 && g_ks_p[KEY_CBC] == g_hm_out[0] && g_ks_p[KEY_HMAC] == g_hm_out[1] && g_hm_out[0] != g_hm_out[1]))
'''),
    dict(cname='sc_load', file=C, locate=lit('bool session_cookies::load(session_interface &session,string &data,time_t &timeout_out)'),
         sig='bool sc_load(size_t *data, time_t *timeout_out)', refs=['data', 'timeout_out'],
         rewrites=[(r'string cdata=session\.get_session_cookie\(\);', 'size_t cdata = get_cookie_rec();', 1), (r'cdata\.empty\(\)', 'cookie_empty(cdata)', 0), (r'cdata\[(\w+)\]', r'cookie_at(cdata, \1)', 0),
                   (r'session\.clear_session_cookie\(\)', 'clear_cookie_rec()', 0), (r'std::string cipher;', 'size_t cipher = 0;', 1), (r'b64url::decode\(cdata\.substr\((\w+)\),cipher\)', r'b64_decode_rec(cookie_substr(cdata, \1), &cipher)', 0),
                   (r'string tmp;', 'struct sbuf tmp = {0, 0};', 1), (r'encryptor_->decrypt\(cipher,tmp\)', 'decrypt_rec(cipher, &tmp)', 0), (r'BOOSTER_WARNING\("cppcms"\)[^;]*;', '', 0),
                   (r'tmp\.size\(\)', 'tmp.n', 0), (r'tmp\.data\(\)', 'tmp.p', 0), (r'\btime\(0\)', 'time0_rec()', 0), (r'data = tmp\.substr\(([^;]+)\);', r'data = tmp_substr_rec(&tmp, \1);', 0)],
         contract=r'''
__CPROVER_requires(__CPROVER_w_ok(data, sizeof(*data)) && __CPROVER_w_ok(timeout_out, sizeof(*timeout_out)) && g_plain.n <= BUF_CAP && __CPROVER_r_ok(g_plain.p, g_plain.n) &&
                   g_clear_calls == 0 && g_b64_calls == 0 && g_decr_calls == 0 && g_substr_calls == 0 && g_badarg == 0 && g_tsub_calls == 0)
__CPROVER_assigns(*data, *timeout_out, g_clear_calls, g_b64_calls, g_b64_in, g_decr_calls, g_decr_in, g_substr_calls, g_badarg, g_tsub_calls, g_tsub_from)
/* C05: a session is loaded only from a cookie "C" ++ base64url(cipher) whose cipher text the encryptor authenticated; the expiry is the first sizeof(time_t) bytes of the plain text and is not in the past;
   the data is the rest of the plain text; the cookie is left alone */
__CPROVER_ensures(__CPROVER_return_value ==> (g_badarg == 0 && !g_cookie_empty && g_cookie_c0 == 'C' && g_substr_calls == 1 && g_b64_calls == 1 && g_b64_in == g_sub_id2 && g_b64_ok &&
                  g_decr_calls == 1 && g_decr_in == g_cipher_id && g_dec_ok2 && g_plain.n >= sizeof(time_t) && g_tsub_calls == 1 && g_tsub_from == sizeof(time_t) && *data == g_data_id && g_clear_calls == 0))
__CPROVER_ensures(__CPROVER_return_value ==> (*timeout_out >= g_now2 && *timeout_out == *(time_t const *)g_plain.p))
/* every rejected cookie is cleared (an absent cookie needs no clearing) -- and a cookie that passes every test and expires in the future IS accepted */
__CPROVER_ensures(!__CPROVER_return_value ==> (g_cookie_empty ? g_clear_calls == 0 : g_clear_calls == 1))
__CPROVER_ensures((!g_cookie_empty && g_cookie_c0 == 'C' && g_b64_ok && g_dec_ok2 && g_plain.n >= sizeof(time_t) && *(time_t const *)g_plain.p > g_now2) ==> __CPROVER_return_value)
'''),
    dict(cname='sc_save', file=C, locate=r'void session_cookies::save\(session_interface &session,string const &data,time_t timeout,bool\s+,bool on_server\)',
         sig='void sc_save(size_t data, time_t timeout, bool on_server)', throw_ret='',
         rewrites=[(r'std::string real_data;', 'struct rdata real_data = {0, 0, 0, 0, 0, 0};', 1), (r'real_data\.reserve\([^;]*;', '', 0),
                   (r'real_data\.append\(reinterpret_cast<char \*>\(([^)]+)\),([^;]+)\);', r'rd_append_raw(&real_data, (char *)(\1), \2);', 0), (r'real_data\+=(\w+);', r'rd_append_str(&real_data, \1);', 0),
                   (r'std::string cipher = encryptor_->encrypt\((\w+)\);', r'size_t cipher = encrypt_rec(&\1);', 0), (r'string cdata="(\w)" \+ b64url::encode\((\w+)\);', r"size_t cdata = cat_lit_rec('\1', b64_encode_rec(\2));", 0),
                   (r'session\.set_session_cookie\((\w+)\)', r'set_cookie_rec(\1)', 0)],
         contract=r'''
__CPROVER_requires(verif_thrown == 0 && g_enc_calls2 == 0 && g_b64e_calls == 0 && g_cat_calls2 == 0 && g_set_calls == 0)
__CPROVER_assigns(verif_thrown, g_enc_calls2, g_enc_seen, g_b64e_calls, g_b64e_in, g_cat_calls2, g_cat_c, g_cat_in, g_set_calls, g_set_arg)
/* C05: what is encrypted is exactly expiry (sizeof(time_t) raw bytes) ++ data -- the layout load() takes apart -- and the cookie is "C" ++ base64url(cipher); server-side storage is refused */
__CPROVER_ensures(on_server ? (verif_thrown && g_set_calls == 0) : (!verif_thrown && g_enc_calls2 == 1 && g_enc_seen.parts == 2 && g_enc_seen.raw_at == 0 && g_enc_seen.raw_n == sizeof(time_t) && g_enc_seen.raw_val == timeout &&
                  g_enc_seen.str_at == 1 && g_enc_seen.str_id == data && g_b64e_calls == 1 && g_b64e_in == g_enc_out && g_cat_calls2 == 1 && g_cat_c == 'C' && g_cat_in == g_b64e_out && g_set_calls == 1 && g_set_arg == g_cat_out))
'''),
    dict(cname='si_load', file=SI, locate=lit('bool session_interface::load()'), sig='bool si_load(struct sintf *self)', throw_ret='0',
         members=['loaded_', 'timeout_val_', 'timeout_val_def_', 'how_', 'how_def_', 'saved_', 'on_server_', 'timeout_in_'],
         rewrites=[(r'!storage_\.get\(\)', '!self->has_storage', 1), (r'data_\.clear\(\)', 'data_clear_rec()', 0), (r'data_copy_\.clear\(\)', 'copy_clear_rec()', 0), (r'std::string ar;', 'size_t ar = 0;', 1),
                   (r'storage_->load\(\*this,ar,([\w>-]+)\)', r'storage_load_rec(&ar, &\1)', 1),
                   # try { load_data } catch(cppcms_error) { ... }: the handler runs iff the call threw, and consumes the exception
                   (r'try \{\s*load_data\(data_,ar\);\s*\}\s*catch\(cppcms_error const &\) \{', 'load_data_rec(ar); if(verif_thrown) { verif_thrown = 0;', 0),
                   # a bare call: the exception leaves the function
                   (r'load_data\(data_,ar\);', 'load_data_rec(ar); if(verif_thrown) return 0;', 0),
                   (r'storage_->clear\(\*this\)', 'storage_clear_rec()', 0), (r'data_copy_=data_;', 'copy_assign_rec();', 0), (r'is_set\("(\w+)"\)', r'is_set_rec(K_\1)', 0), (r'get<int>\("(\w+)"\)', r'get_int_rec(K_\1)', 0)],
         contract=r'''
__CPROVER_requires(__CPROVER_rw_ok(self, sizeof(*self)) && verif_thrown == 0 && g_sl_calls == 0 && g_ld_calls == 0 && g_sclear_calls == 0 && g_dclear_calls == 0 && g_dclear_after_ld == 0 && g_cassign_calls == 0 && g_cclear_calls == 0)
__CPROVER_assigns(verif_thrown, self->loaded_, self->timeout_val_, self->how_, self->saved_, self->on_server_, self->timeout_in_, g_sl_calls, g_ld_calls, g_ld_arg, g_sclear_calls, g_dclear_calls, g_dclear_after_ld, g_cassign_calls, g_cclear_calls)
/* C05: session data that the back end authenticated but that does not parse (e.g. a MAC-valid cookie of another algorithm under the same key) is REJECTED: no exception leaves load(),
   no value stays visible, and the back end is told to clear the cookie; well-formed data is loaded; a refused cookie loads nothing */
__CPROVER_ensures(!verif_thrown)
__CPROVER_ensures((__CPROVER_old(self->loaded_) == 0 && self->has_storage && g_sl_ok && g_ld_throws) ==> (!__CPROVER_return_value && g_ld_calls == 1 && g_ld_arg == g_sl_ar && g_sclear_calls == 1 && g_dclear_after_ld && g_cassign_calls == 0))
__CPROVER_ensures((__CPROVER_old(self->loaded_) == 0 && self->has_storage && g_sl_ok && !g_ld_throws) ==> (__CPROVER_return_value && g_ld_calls == 1 && g_ld_arg == g_sl_ar && g_sclear_calls == 0 && g_cassign_calls == 1))
__CPROVER_ensures((__CPROVER_old(self->loaded_) != 0 || !self->has_storage || !g_sl_ok) ==> (!__CPROVER_return_value && g_ld_calls == 0 && g_sclear_calls == 0 && g_cassign_calls == 0))
'''),
]

CTX_SETUP = r'''
    struct cipherctx c; size_t n; __CPROVER_assume(n <= BUF_CAP); char *ct = malloc(n + 1); __CPROVER_assume(ct != NULL);
    c.c_p = ct; c.c_n = n; size_t k; g_k = k;
    g_mac_appended = 0; g_mac_read = 0; g_eq_called = 0; g_plain_set = 0; g_dec_called = 0; g_plain_from_dec = 0; g_eq_result = 0;
    WIT(0, n); WIT(1, c.digest_size); WIT(2, c.block_size);
'''
REPLAY5 = dict(replay='c05:cookies', replay_link=['-fno-access-control', '-L{BUILD}', '-lcppcms', '-L{BUILD}/booster', '-lbooster', '-lpthread'], replay_exhaustive='the real session_interface + session_cookies + hmac/aes encryptors + base64url through the cookie-adapter interface: 9 encryptor configurations (hmac md5/sha1/sha256/sha512, aes 128/192/256, split hmac+cbc keys) x payloads of 0..65000 bytes; the genuine cookie must load; every single-bit flip, truncation, extension, block swap, splice, arbitrary string, cross-key and cross-algorithm transplant (also under a SHARED HMAC key) and an expired cookie must be rejected, without an exception, with the cookie cleared (about 97000 cookies)')
jobs = [
    dict(name='hmac_equal', props=P, **REPLAY5, enforce='hmac_equal', harness=r'''
    size_t n, k; __CPROVER_assume(n <= BUF_CAP); g_k = k; char *a = malloc(n); char *b = malloc(n); __CPROVER_assume(a != NULL && b != NULL);
    hmac_equal(a, b, n); VERIF_REACH;'''),
    dict(name='hmac_decrypt', props=P, **REPLAY5, enforce='hmac_decrypt', harness=CTX_SETUP + 'hmac_decrypt(&c); VERIF_REACH;',
         witness=dict(vals=['n', 'digest_size', 'block_size'])),
    dict(name='aes_decrypt', props=P, **REPLAY5, enforce='aes_decrypt', harness=CTX_SETUP + 'aes_decrypt(&c); VERIF_REACH;',
         witness=dict(vals=['n', 'digest_size', 'block_size'])),
    dict(name='aes_factory_split', props=P, **REPLAY5, enforce='aes_factory_split', harness=r'''
    struct ckey k; size_t kn; __CPROVER_assume(kn <= 4096); char *kb = malloc(kn); __CPROVER_assume(kb != NULL); k.p = kb; k.n = kn;
    size_t ds, cs; int ok; g_digest_size = ds; g_cbc_key_size = cs; g_cbc_supported = ok != 0; g_ks_calls[0] = 0; g_ks_calls[1] = 0; verif_thrown = 0;
    aes_factory_split(&k); VERIF_REACH;'''),
    dict(name='sc_load', props=P, **REPLAY5, enforce='sc_load', harness=r'''
    size_t i1, i2, i3, i4, pn, d; time_t to, nw; int b1, b2, b3; char c0; __CPROVER_assume(pn <= BUF_CAP);
    g_cookie_id = i1; g_sub_id2 = i2; g_cipher_id = i3; g_data_id = i4; g_cookie_empty = b1 != 0; g_cookie_c0 = c0; g_b64_ok = b2 != 0; g_dec_ok2 = b3 != 0; g_now2 = nw;
    g_plain.n = pn; g_plain.p = malloc(pn); __CPROVER_assume(g_plain.p != NULL);
    g_clear_calls = 0; g_b64_calls = 0; g_decr_calls = 0; g_substr_calls = 0; g_badarg = 0; g_tsub_calls = 0;
    sc_load(&d, &to); VERIF_REACH;'''),
    dict(name='sc_save', props=P, **REPLAY5, enforce='sc_save', harness=r'''
    size_t d, o1, o2, o3; time_t to; int os; g_enc_out = o1; g_b64e_out = o2; g_cat_out = o3; verif_thrown = 0; g_enc_calls2 = 0; g_b64e_calls = 0; g_cat_calls2 = 0; g_set_calls = 0;
    sc_save(d, to, os != 0); VERIF_REACH;'''),
    dict(name='si_load', props=P, **REPLAY5, enforce='si_load', harness=r'''
    struct sintf si; int b1, b2; size_t ar; g_sl_ok = b1 != 0; g_ld_throws = b2 != 0; g_sl_ar = ar; verif_thrown = 0;
    g_sl_calls = 0; g_ld_calls = 0; g_sclear_calls = 0; g_dclear_calls = 0; g_dclear_after_ld = 0; g_cassign_calls = 0; g_cclear_calls = 0;
    si_load(&si); VERIF_REACH;'''),
]

UNIT = dict(
    name='sesscrypto', pre=PRE, functions=functions, jobs=jobs,
    trusted=['sesscrypto: crypto::hmac / message_digest / cbc objects are stubs that record and range-check their arguments (R10); cryptographic strength (unforgeability of HMAC, confidentiality of CBC) is assumed, not proved',
             'sesscrypto: std::string cipher is (pointer,length+NUL); std::vector<char> temporaries are malloc of the exact size; plain = substr()/assign() are stubs recording the range',
             'sesscrypto: constant-time shape of hmac_cipher::equal = no data-dependent exit from the loop; timing of the machine code is not modelled'],
    not_covered={'C05': ['"the data returned are exactly those of some earlier save": follows from HMAC unforgeability (assumed) plus the proved facts that the MAC covers the whole message and is compared in full',
                         'encrypt side (buffer arithmetic of aes_cipher::encrypt), key derivation in aes_factory, base64 layer (unit base64), confidentiality / equality hiding of the encrypting backend']},
)
