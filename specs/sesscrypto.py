# Unit "sesscrypto" -- client-side session envelope: constant-time MAC compare, MAC-then-decrypt skeletons of hmac_cipher / aes_cipher,
# and the cookie loader (src/hmac_encryptor.cpp, src/aes_encryptor.cpp, src/session_cookies.cpp).  Serves C05.
import sys, os
sys.path.insert(0, os.path.join(os.path.dirname(os.path.abspath(__file__)), '..', 'tools'))
from cxx2c import lit

H = 'src/hmac_encryptor.cpp'
A = 'src/aes_encryptor.cpp'
C = 'src/session_cookies.cpp'
P = ['C05']

PRE = r'''
#include <time.h>
/* the cipher text (std::string const &cipher, R8) and the ghost record of what was MAC'ed / compared / decrypted */
struct cipherctx { char const *c_p; size_t c_n; size_t digest_size; size_t block_size; };
#define CTX_OK(s) (__CPROVER_r_ok(s, sizeof(*(s))) && (s)->c_n <= BUF_CAP && __CPROVER_r_ok((s)->c_p, (s)->c_n + 1) && (s)->digest_size >= 16 && (s)->digest_size <= 64 && \
                   ((s)->block_size == 8 || (s)->block_size == 16 || (s)->block_size == 32))
size_t g_mac_off, g_mac_n; bool g_mac_appended, g_mac_read; char *g_mac_buf;
bool g_eq_called, g_eq_result; size_t g_eq_off, g_eq_n;
bool g_dec_called; size_t g_dec_n; bool g_dec_before_mac;
size_t g_plain_off, g_plain_n; bool g_plain_set; bool g_plain_from_dec;
size_t g_k; uint32_t g_inner_size; char *g_fullplain;
/* md.append(p,n): the MAC input must lie inside the cipher text */
static void md_append(struct cipherctx *self, char const *p, size_t n)
{
  __CPROVER_assert(SAME(p, self->c_p) && OFF(p) >= OFF(self->c_p) && OFF(p) - OFF(self->c_p) <= self->c_n && n <= self->c_n - (OFF(p) - OFF(self->c_p)), "MAC input lies inside the cipher text");
  g_mac_off = OFF(p) - OFF(self->c_p); g_mac_n = n; g_mac_appended = 1;
}
/* md.readout(out): writes digest_size bytes */
static void md_readout(struct cipherctx *self, char *out)
{
  __CPROVER_assert(__CPROVER_w_ok(out, self->digest_size), "MAC read-out buffer holds digest_size bytes");
  __CPROVER_assert(g_mac_appended, "MAC is read out after the message was appended");
  g_mac_read = 1; g_mac_buf = out;
}
static char *vec_alloc(size_t n) { char *p = malloc(n); __CPROVER_assume(p != NULL); return p; }
/* constant-time compare (proved separately, job hmac_equal): here only what was compared is recorded */
static bool equal_stub(struct cipherctx *self, char const *a, char const *b, size_t n)
{
  __CPROVER_assert(g_mac_read && a == g_mac_buf, "the computed MAC is the left operand of the comparison");
  __CPROVER_assert(SAME(b, self->c_p) && OFF(b) >= OFF(self->c_p) && OFF(b) - OFF(self->c_p) <= self->c_n && n <= self->c_n - (OFF(b) - OFF(self->c_p)), "the presented tag lies inside the cipher text");
  g_eq_called = 1; g_eq_off = OFF(b) - OFF(self->c_p); g_eq_n = n; bool r; g_eq_result = r; return r;
}
static void plain_assign_cipher(struct cipherctx *self, size_t off, size_t n)
{
  __CPROVER_assert(off <= self->c_n && n <= self->c_n - off, "plain text range lies inside the cipher text");
  g_plain_off = off; g_plain_n = n; g_plain_set = 1;
}
static void cbc_decrypt(struct cipherctx *self, char const *in, char *out, size_t n)
{
  __CPROVER_assert(g_eq_called && g_eq_result, "decryption happens only after the MAC over the whole cipher text was verified (MAC-then-decrypt)");
  __CPROVER_assert(SAME(in, self->c_p) && OFF(in) == OFF(self->c_p) && n <= self->c_n && __CPROVER_w_ok(out, n), "decrypt ranges");
  g_dec_called = 1; g_dec_n = n;
}
static void plain_assign_dec(char const *p, size_t n)
{
  __CPROVER_assert(g_dec_called && SAME(p, g_fullplain) && OFF(p) >= OFF(g_fullplain) && OFF(p) - OFF(g_fullplain) <= g_dec_n && n <= g_dec_n - (OFF(p) - OFF(g_fullplain)),
                   "returned plain text lies inside the decrypted buffer");
  g_plain_set = 1; g_plain_from_dec = 1; g_plain_off = OFF(p) - OFF(g_fullplain); g_plain_n = n;
}
'''

EQ_INV = r'''
__CPROVER_assigns(i, diff)
__CPROVER_loop_invariant(i <= n && diff <= i && (diff == 0 ==> (g_k < i ==> left[g_k] == right[g_k])) && ((g_k < i && left[g_k] != right[g_k]) ==> diff > 0))
__CPROVER_decreases(n - i)
'''

PRE += r'''
/* ---- aes_factory(algo, key): how a combined key is split into the AES key and the HMAC key.  crypto::key is (p,n); key::set(p,n) is a recorder */
struct ckey { char const *p; size_t n; };
enum { KEY_CBC, KEY_HMAC };
bool g_cbc_supported; size_t g_digest_size, g_cbc_key_size; int g_ks_calls[2]; char const *g_ks_p[2]; size_t g_ks_n[2];
char *g_hm_out[2]; int g_hm_readouts, g_hm_appends; size_t g_hm_dsize; char const *g_hm_name;
static void key_set(int which, char const *p, size_t n) { g_ks_calls[which]++; g_ks_p[which] = p; g_ks_n[which] = n; __CPROVER_assert(n == 0 || __CPROVER_r_ok(p, n), "key::set(p,n) reads n bytes at p"); }
/* crypto::hmac mac(name,key): digest size 32 for "sha256", 64 for "sha512"; readout writes digest_size bytes */
static void hmac_init(char const *name, struct ckey const *k) { g_hm_name = name; g_hm_dsize = (name[3] == '2') ? 32 : 64; g_hm_readouts = 0; g_hm_appends = 0; }
static size_t hmac_dsize(void) { return g_hm_dsize; }
static void hmac_append(char const *p, size_t n) { g_hm_appends++; }
static void hmac_readout(char *out) { __CPROVER_assert(__CPROVER_w_ok(out, g_hm_dsize), "hmac::readout writes digest_size bytes"); if(g_hm_readouts < 2) g_hm_out[g_hm_readouts] = out; g_hm_readouts++; }
'''
functions = [
    dict(cname='hmac_equal', file=H, locate=lit('bool hmac_cipher::equal(void const *a,void const *b,size_t n)'), sig='bool hmac_equal(void const *a, void const *b, size_t n)',
         loops={0: EQ_INV},
         contract=r'''
__CPROVER_requires(n <= BUF_CAP && __CPROVER_r_ok(a, n) && __CPROVER_r_ok(b, n))
__CPROVER_assigns()
/* true exactly when every byte is equal (arbitrary ghost index g_k); the loop visits all n bytes whatever the content
   (termination measure n - i; no data-dependent exit: checked syntactically by job hmac_equal_shape) */
__CPROVER_ensures(__CPROVER_return_value ==> (g_k < n ==> ((char const *)a)[g_k] == ((char const *)b)[g_k]))
__CPROVER_ensures((g_k < n && ((char const *)a)[g_k] != ((char const *)b)[g_k]) ==> !__CPROVER_return_value)
'''),
    dict(cname='hmac_decrypt', file=H, locate=lit('bool hmac_cipher::decrypt(std::string const &cipher,std::string &plain)'), sig='bool hmac_decrypt(struct cipherctx *self)',
         rewrites=[(r'crypto::hmac md\(hash_,key_\);', '', 1), (r'cipher\.size\(\)', 'self->c_n', 1), (r'md\.digest_size\(\)', 'self->digest_size', 1),
                   (r'md\.append\(', 'md_append(self, ', 1), (r'cipher\.c_str\(\)', 'self->c_p', 2), (r'std::vector<char> mac\(digest_size,\w\);', 'char *mac = vec_alloc(digest_size);', 1),
                   (r'&mac\[\w\]', 'mac', 3), (r'md\.readout\(', 'md_readout(self, ', 1), (r'\bequal\(', 'equal_stub(self, ', 1),
                   (r'plain = cipher\.substr\((\w+),message_size\);', r'plain_assign_cipher(self, \1, message_size);', 1)],
         contract=r'''
__CPROVER_requires(CTX_OK(self) && !g_mac_appended && !g_mac_read && !g_eq_called && !g_plain_set)
__CPROVER_assigns(g_mac_off, g_mac_n, g_mac_appended, g_mac_read, g_mac_buf, g_eq_called, g_eq_result, g_eq_off, g_eq_n, g_plain_off, g_plain_n, g_plain_set)
/* accepted only if: the MAC was computed over the WHOLE message part [0, size-digest), compared over all digest_size bytes with the tag
   that occupies the last digest_size bytes, the comparison succeeded, and the plain text is exactly that message part */
__CPROVER_ensures(__CPROVER_return_value ==> (self->c_n >= self->digest_size && g_mac_appended && g_mac_off == 0 && g_mac_n == self->c_n - self->digest_size &&
                  g_eq_called && g_eq_result && g_eq_off == self->c_n - self->digest_size && g_eq_n == self->digest_size &&
                  g_plain_set && g_plain_off == 0 && g_plain_n == self->c_n - self->digest_size))
/* rejected => nothing is handed back */
__CPROVER_ensures(!__CPROVER_return_value ==> !g_plain_set)
/* a cipher text shorter than a tag is rejected before any MAC work */
__CPROVER_ensures(self->c_n < self->digest_size ==> (!__CPROVER_return_value && !g_mac_appended))
'''),
    dict(cname='aes_decrypt', file=A, locate=lit('bool aes_cipher::decrypt(std::string const &cipher,std::string &plain)'), sig='bool aes_decrypt(struct cipherctx *self)',
         rewrites=[(r'load\(\);', '', 1), (r'digest_->digest_size\(\)', 'self->digest_size', 1), (r'cbc_->block_size\(\)', 'self->block_size', 1), (r'cipher\.size\(\)', 'self->c_n', 2),
                   (r'crypto::hmac signature\(std::unique_ptr<crypto::message_digest>\(digest_->clone\(\)\),mac_key_\);', '', 1),
                   (r'signature\.append\(', 'md_append(self, ', 1), (r'cipher\.c_str\(\)', 'self->c_p', 3),
                   (r'std::vector<char> verify\(digest_size,\w\);', 'char *verify = vec_alloc(digest_size);', 1), (r'&verify\[\w\]', 'verify', 3),
                   (r'signature\.readout\(', 'md_readout(self, ', 1), (r'hmac_cipher::equal\(', 'equal_stub(self, ', 1),
                   (r'std::vector<char> full_plain\(real_size\);', 'char *full_plain = vec_alloc(real_size); g_fullplain = full_plain;', 1), (r'&full_plain\[(\w+)\]', r'(full_plain + \1)', 3),
                   (r'cbc_->decrypt\(', 'cbc_decrypt(self, ', 1), (r'plain\.assign\(', 'plain_assign_dec(', 1)],
         contract=r'''
__CPROVER_requires(CTX_OK(self) && !g_mac_appended && !g_mac_read && !g_eq_called && !g_plain_set && !g_dec_called)
__CPROVER_assigns(g_mac_off, g_mac_n, g_mac_appended, g_mac_read, g_mac_buf, g_eq_called, g_eq_result, g_eq_off, g_eq_n, g_plain_off, g_plain_n, g_plain_set, g_plain_from_dec, g_dec_called, g_dec_n, g_fullplain)
/* accepted only if: the cipher part is a whole number (>= 2) of blocks, the MAC covers all of it, the tag is the last digest_size bytes and matched;
   decryption ran only after that (asserted in the stub); the inner length fits the decrypted payload (stub assertion) */
__CPROVER_ensures(__CPROVER_return_value ==> (self->c_n >= self->digest_size + 2 * self->block_size && g_mac_off == 0 && g_mac_n == self->c_n - self->digest_size &&
                  g_eq_called && g_eq_result && g_eq_off == self->c_n - self->digest_size && g_eq_n == self->digest_size && g_dec_called && g_dec_n == g_mac_n &&
                  g_plain_set && g_plain_from_dec && g_plain_off == self->block_size + 4 && g_plain_n <= g_dec_n - self->block_size - 4))
__CPROVER_ensures(!__CPROVER_return_value ==> !g_plain_set)
/* a failed MAC never reaches the block cipher */
__CPROVER_ensures((g_eq_called && !g_eq_result) ==> (!g_dec_called && !__CPROVER_return_value))
'''),
    dict(cname='aes_factory_split', file=A, locate=r'aes_factory::aes_factory\(std::string const &algo,crypto::key const &k\)\s*:\s*cbc_\(algo\),\s*hmac_\("sha1"\)',
         sig='void aes_factory_split(struct ckey const *k)', throw_ret='',
         rewrites=[(r'std::unique_ptr<crypto::message_digest> md_ptr\(crypto::message_digest::create_by_name\(hmac_\)\);', '', 1), (r'std::unique_ptr<crypto::cbc> cbc_ptr\(crypto::cbc::create\(algo\)\);', '', 1),
                   (r'!cbc_ptr\.get\(\)', '!g_cbc_supported', 1), (r'md_ptr->digest_size\(\)', 'g_digest_size', 1), (r'cbc_ptr->key_size\(\)', 'g_cbc_key_size', 1),
                   (r'k\.size\(\)', 'k->n', 4), (r'k\.data\(\)', 'k->p', 2), (r'cbc_key_\.set\(', 'key_set(KEY_CBC, ', 2), (r'hmac_key_\.set\(', 'key_set(KEY_HMAC, ', 2),
                   (r'std::string name = ', 'char const *name = ', 1), (r'crypto::hmac mac\(name,k\);', 'hmac_init(name, k);', 1),
                   (r'std::vector<char> (k\w)\(mac\.digest_size\(\),\w\);', r'char \1[64] = {0};', 2), (r'mac\.append\(', 'hmac_append(', 2), (r'mac\.readout\(&(k\w)\[\w\]\)', r'hmac_readout(\1)', 2),
                   (r'&(k\w)\[\w\]', r'\1', 4), (r'(k\w)\.size\(\)', 'hmac_dsize()', 2), (r'std::ostringstream ss;\s*ss\s*<<(?:[^;"]|"[^"]*")*;', '', 1)],
         contract=r'''
__CPROVER_requires(k->n <= 4096 && __CPROVER_r_ok(k->p, k->n) && g_digest_size >= 16 && g_digest_size <= 64 && g_cbc_key_size >= 16 && g_cbc_key_size <= 32 &&
                   g_ks_calls[0] == 0 && g_ks_calls[1] == 0 && verif_thrown == 0)
__CPROVER_assigns(verif_thrown, __CPROVER_object_whole(g_ks_calls), __CPROVER_object_whole(g_ks_p), __CPROVER_object_whole(g_ks_n), __CPROVER_object_whole(g_hm_out), g_hm_readouts, g_hm_appends, g_hm_dsize, g_hm_name)
/* either the key is refused, or both keys are set exactly once with the lengths the two primitives need */
__CPROVER_ensures(verif_thrown ? (g_ks_calls[0] == 0 && g_ks_calls[1] == 0) : (g_ks_calls[0] == 1 && g_ks_calls[1] == 1 && g_ks_n[KEY_CBC] == g_cbc_key_size && g_ks_n[KEY_HMAC] == g_digest_size))
/* combined key: the AES key is the first cbc_key_size bytes, the MAC key the remaining digest_size bytes: every key byte is used, none twice
   (a cookie sealed under a key that differs in ANY byte must not verify, so no byte of the configured key may be ignored) */
__CPROVER_ensures((!verif_thrown && k->n == g_cbc_key_size + g_digest_size) ==> (g_ks_p[KEY_CBC] == k->p && g_ks_p[KEY_HMAC] == k->p + g_cbc_key_size && g_ks_n[KEY_CBC] + g_ks_n[KEY_HMAC] == k->n))
/* any other accepted key: both keys are derived from the WHOLE key with a keyed hash (two different read-outs), never cut out of it */
__CPROVER_ensures((!verif_thrown && k->n != g_cbc_key_size + g_digest_size) ==> (k->n >= g_cbc_key_size && g_hm_readouts == 2 && g_hm_appends == 2 && g_ks_p[KEY_CBC] == g_hm_out[0] && g_ks_p[KEY_HMAC] == g_hm_out[1] && g_hm_out[0] != g_hm_out[1]))
'''),
]

CTX_SETUP = r'''
    struct cipherctx c; size_t n; __CPROVER_assume(n <= BUF_CAP); char *ct = malloc(n + 1); __CPROVER_assume(ct != NULL);
    c.c_p = ct; c.c_n = n; size_t k; g_k = k;
    g_mac_appended = 0; g_mac_read = 0; g_eq_called = 0; g_plain_set = 0; g_dec_called = 0; g_plain_from_dec = 0; g_eq_result = 0;
    WIT(0, n); WIT(1, c.digest_size); WIT(2, c.block_size);
'''
jobs = [
    dict(name='hmac_equal', props=P, enforce='hmac_equal', harness=r'''
    size_t n, k; __CPROVER_assume(n <= BUF_CAP); g_k = k; char *a = malloc(n); char *b = malloc(n); __CPROVER_assume(a != NULL && b != NULL);
    hmac_equal(a, b, n); VERIF_REACH;'''),
    dict(name='hmac_decrypt', props=P, enforce='hmac_decrypt', harness=CTX_SETUP + 'hmac_decrypt(&c); VERIF_REACH;',
         witness=dict(vals=['n', 'digest_size', 'block_size'])),
    dict(name='aes_decrypt', props=P, enforce='aes_decrypt', harness=CTX_SETUP + 'aes_decrypt(&c); VERIF_REACH;',
         witness=dict(vals=['n', 'digest_size', 'block_size'])),
    dict(name='aes_factory_split', props=P, enforce='aes_factory_split', harness=r'''
    struct ckey k; size_t kn; __CPROVER_assume(kn <= 4096); char *kb = malloc(kn); __CPROVER_assume(kb != NULL); k.p = kb; k.n = kn;
    size_t ds, cs; int ok; g_digest_size = ds; g_cbc_key_size = cs; g_cbc_supported = ok != 0; g_ks_calls[0] = 0; g_ks_calls[1] = 0; verif_thrown = 0;
    aes_factory_split(&k); VERIF_REACH;'''),
]

UNIT = dict(
    name='sesscrypto', pre=PRE, functions=functions, jobs=jobs,
    trusted=['sesscrypto: crypto::hmac / message_digest / cbc objects are stubs that record and range-check their arguments (R10); cryptographic strength (unforgeability of HMAC, confidentiality of CBC) is assumed, not proved',
             'sesscrypto: std::string cipher is (pointer,length+NUL); std::vector<char> temporaries are malloc of the exact size; plain = substr()/assign() are stubs recording the range',
             'sesscrypto: constant-time shape of hmac_cipher::equal = no data-dependent exit from the loop; timing of the machine code is not modelled'],
    not_covered={'C05': ['"the data returned are exactly those of some earlier save": follows from HMAC unforgeability (assumed) plus the proved facts that the MAC covers the whole message and is compared in full',
                         'encrypt side (buffer arithmetic of aes_cipher::encrypt), key derivation in aes_factory, session_cookies::load/save, base64 layer (unit base64), confidentiality / equality hiding of the encrypting backend']},
)
