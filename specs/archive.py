# Unit "archive" -- chunk reader/writer of cppcms::archive (src/archive.cpp) and the
# POD-vector load/save bodies of cppcms/archive_traits.h.  Serves C19.
import sys, os
sys.path.insert(0, os.path.join(os.path.dirname(os.path.abspath(__file__)), '..', 'tools'))
from cxx2c import lit

A = 'src/archive.cpp'
T = 'cppcms/archive_traits.h'
P = ['C19']

# R8: std::string buffer_ -> (buf_p, buf_n); c_str() yields buf_n+1 readable bytes (the terminating NUL)
BUF_RULES = [(r'buffer_\.size\(\)', 'self->buf_n'), (r'buffer_\.c_str\(\)', 'self->buf_p')]
def rules(*extra):
    return list(extra)
ARCH_OK = '(__CPROVER_rw_ok(self, sizeof(*self)) && self->buf_n <= BUF_CAP && __CPROVER_r_ok(self->buf_p, self->buf_n + 1) && verif_thrown == 0)'
LE32 = lambda off: ('((uint32_t)(unsigned char)self->buf_p[%s] | ((uint32_t)(unsigned char)self->buf_p[(%s)+1] << 8) | '
                    '((uint32_t)(unsigned char)self->buf_p[(%s)+2] << 16) | ((uint32_t)(unsigned char)self->buf_p[(%s)+3] << 24))') % (off, off, off, off)
# the chunk that starts at the cursor is complete inside the archive (property C19: "never reads outside the archive")
CHUNK_FITS = '(OLDPTR < self->buf_n && self->buf_n - OLDPTR >= 4 && %s <= self->buf_n - OLDPTR - 4)' % LE32('OLDPTR')

functions = [
    dict(cname='archive_eof', file=A, locate=lit('bool archive::eof()'), sig='bool archive_eof(struct archive *self)', self_arg='self',
         members=['ptr_'], rewrites=[(BUF_RULES[0][0], BUF_RULES[0][1], 1)],
         contract='__CPROVER_requires(%s)\n__CPROVER_assigns()\n__CPROVER_ensures(__CPROVER_return_value == (self->ptr_ >= self->buf_n))' % ARCH_OK),
    dict(cname='archive_next_chunk_size', file=A, locate=lit('size_t archive::next_chunk_size()'), sig='size_t archive_next_chunk_size(struct archive *self)',
         self_arg='self', members=['ptr_'], throw_ret='0', rename={'eof': 'archive_eof'},
         rewrites=[(BUF_RULES[0][0], BUF_RULES[0][1], 2), (BUF_RULES[1][0], BUF_RULES[1][1], 1)],
         contract=('__CPROVER_requires(%s)\n__CPROVER_assigns(verif_thrown)\n' % ARCH_OK) +
         '/* no exception => the announced chunk (4-byte header + payload) lies completely inside the archive */\n'
         '__CPROVER_ensures(!verif_thrown ==> (self->ptr_ <= self->buf_n && 4 <= self->buf_n - self->ptr_ && __CPROVER_return_value <= self->buf_n - self->ptr_ - 4))\n'
         '__CPROVER_ensures(!verif_thrown ==> __CPROVER_return_value == %s)\n' % LE32('self->ptr_') +
         '/* a chunk that does fit is not rejected (needed for save/load round trips) */\n'
         '__CPROVER_ensures(%s ==> !verif_thrown)\n' % CHUNK_FITS.replace('OLDPTR', 'self->ptr_')),
    dict(cname='archive_read_chunk', file=A, locate=lit('void archive::read_chunk(void *begin,size_t len)'),
         sig='void archive_read_chunk(struct archive *self, void *begin, size_t len)', self_arg='self', members=['ptr_'], throw_ret='',
         rename={'next_chunk_size': 'archive_next_chunk_size'}, throwing_callees=['archive_next_chunk_size'],
         rewrites=[(BUF_RULES[1][0], BUF_RULES[1][1], 1)],
         contract=('__CPROVER_requires(%s && len <= BUF_CAP && (len == 0 || __CPROVER_w_ok(begin, len)))\n' % ARCH_OK) +
         '__CPROVER_assigns(verif_thrown, self->ptr_, __CPROVER_object_upto(begin, len))\n'
         '/* success: exactly the payload bytes were copied and the cursor is after the chunk, still inside the archive */\n'
         '__CPROVER_ensures(!verif_thrown ==> (self->ptr_ == __CPROVER_old(self->ptr_) + 4 + len && self->ptr_ <= self->buf_n))\n'
         '__CPROVER_ensures(!verif_thrown ==> (g_ar_k < len ==> ((char *)begin)[g_ar_k] == self->buf_p[__CPROVER_old(self->ptr_) + 4 + g_ar_k]))\n'
         '/* failure: cursor unchanged; success iff the chunk fits and has the requested length */\n'
         '__CPROVER_ensures(verif_thrown ==> self->ptr_ == __CPROVER_old(self->ptr_))\n'
         '__CPROVER_ensures((%s && %s == len) == !verif_thrown)\n' % (CHUNK_FITS.replace('OLDPTR', '__CPROVER_old(self->ptr_)'), LE32('__CPROVER_old(self->ptr_)'))),
    dict(stub=True, cname='str_construct', sig='void str_construct(char const *p, size_t n)',
         contract='/* std::string(p,n): reads [p,p+n), which must lie inside the archive bytes [g_ar_p, g_ar_p+g_ar_n) */\n'
                  '__CPROVER_requires(SAME(p, g_ar_p) && OFF(p) >= OFF(g_ar_p) && n <= g_ar_n && OFF(p) - OFF(g_ar_p) <= g_ar_n - n)\n'
                  '__CPROVER_assigns(g_ar_str_off, g_ar_str_n)\n__CPROVER_ensures(g_ar_str_off == OFF(p) - OFF(g_ar_p) && g_ar_str_n == n)'),
    dict(cname='archive_read_chunk_as_string', file=A, locate=lit('std::string archive::read_chunk_as_string()'),
         sig='void archive_read_chunk_as_string(struct archive *self)', self_arg='self', members=['ptr_'], throw_ret='',
         rename={'next_chunk_size': 'archive_next_chunk_size'}, throwing_callees=['archive_next_chunk_size'],
         rewrites=[(r'std::string result\(buffer_\.c_str\(\)', 'str_construct(self->buf_p', 1),
                   (r'return result;', 'return;', 1)],
         contract=('__CPROVER_requires(%s && g_ar_p == self->buf_p && g_ar_n == self->buf_n)\n' % ARCH_OK) +
         '__CPROVER_assigns(verif_thrown, self->ptr_, g_ar_str_off, g_ar_str_n)\n'
         '__CPROVER_ensures(!verif_thrown ==> (self->ptr_ == __CPROVER_old(self->ptr_) + 4 + g_ar_str_n && self->ptr_ <= self->buf_n && g_ar_str_off == __CPROVER_old(self->ptr_) + 4))\n'
         '__CPROVER_ensures(verif_thrown ==> self->ptr_ == __CPROVER_old(self->ptr_))\n'
         '__CPROVER_ensures(%s == !verif_thrown)\n' % CHUNK_FITS.replace('OLDPTR', '__CPROVER_old(self->ptr_)')),
    dict(cname='archive_write_chunk', file=A, locate=lit('void archive::write_chunk(void const *begin,size_t len)'),
         sig='void archive_write_chunk(void const *begin, size_t len)',
         rewrites=[(r'buffer_\.append\(', 'snk_append(', 2)],
         contract='/* uint32_t size = len silently truncates: lengths above 2^32-1 are outside the contract (listed assumption) */\n'
                  '__CPROVER_requires(len <= BUF_CAP && __CPROVER_r_ok(begin, len) && snk_len <= BUF_CAP)\n'
                  '__CPROVER_assigns(snk_len, snk_at_k)\n'
                  '/* appends a 4-byte header holding len, then exactly the len payload bytes (arbitrary ghost index snk_k) */\n'
                  '__CPROVER_ensures(snk_len == __CPROVER_old(snk_len) + 4 + len)\n'
                  '__CPROVER_ensures((snk_k >= __CPROVER_old(snk_len) + 4 && snk_k < snk_len) ==> snk_at_k == (unsigned char)((char const *)begin)[snk_k - __CPROVER_old(snk_len) - 4])\n'
                  '__CPROVER_ensures((snk_k >= __CPROVER_old(snk_len) && snk_k < __CPROVER_old(snk_len) + 4) ==> snk_at_k == (unsigned char)(len >> (8 * (snk_k - __CPROVER_old(snk_len)))))\n'),
]

# POD vector load body from the CPPCMS_TRIVIAL_ARCHIVE macro, Type bound to two element types (R2)
for tname, ctype in (('u16', 'unsigned short'), ('i64', 'long long')):
    functions.append(dict(
        cname='vec_load_' + tname, file=T, macro_body=True, locate=lit('static void load(vec &v,archive &a)'),
        sig='void vec_load_%s(struct podvec *v, struct archive *a)' % tname, throw_ret='',
        rewrites=[(r'\bType\b', ctype, 2), (r'a\.next_chunk_size\(\)', 'archive_next_chunk_size(a)', 1), (r'a\.read_chunk\(', 'archive_read_chunk(a, ', 1),
                  (r'v\.clear\(\);', '', 1), (r'v\.resize\(([^;]*)\);', r'podvec_resize(v, \1, sizeof(%s));' % ctype, 1),
                  (r'!v\.empty\(\)', '(v->n != 0)', 1), (r'&v\.front\(\)', 'v->p', 1)],
        throwing_callees=['archive_next_chunk_size', 'archive_read_chunk'],
        contract=('__CPROVER_requires(%s && __CPROVER_rw_ok(v, sizeof(*v)))\n' % ARCH_OK.replace('self', 'a')) +
                 '__CPROVER_assigns(verif_thrown, a->ptr_, *v)\n'
                 '/* loads only a chunk whose size is a whole number of elements; cursor stays inside the archive */\n'
                 '__CPROVER_ensures(!verif_thrown ==> (a->ptr_ == __CPROVER_old(a->ptr_) + 4 + v->n * sizeof(%s) && a->ptr_ <= a->buf_n))\n' % ctype +
                 '__CPROVER_ensures(verif_thrown ==> a->ptr_ == __CPROVER_old(a->ptr_))\n'))

PRE = r'''
struct archive { char const *buf_p; size_t buf_n; size_t ptr_; };
struct podvec { void *p; size_t n; };
size_t g_ar_k;                                /* arbitrary ghost index into a chunk payload */
char const *g_ar_p; size_t g_ar_n;            /* ghost: the archive bytes, for the std::string construction stub */
size_t g_ar_str_off, g_ar_str_n;
/* R7 ghost sink for buffer_.append(p,n): length, the byte at one arbitrary ghost index */
size_t snk_len, snk_k; unsigned char snk_at_k;
static void snk_append(char const *p, size_t n)
{
  if(snk_k >= snk_len && snk_k - snk_len < n) snk_at_k = (unsigned char)p[snk_k - snk_len];
  snk_len += n;
}
/* v.clear(); v.resize(n): exactly n elements of storage */
static void podvec_resize(struct podvec *v, size_t n, size_t elem)
{
  __CPROVER_assert(n <= BUF_CAP, "vector size derived from the archive is bounded by the archive size");
  v->p = malloc(n * elem); __CPROVER_assume(v->p != NULL); v->n = n;
}
'''
ARCH_HARNESS = r'''
    size_t n; __CPROVER_assume(n <= BUF_CAP); WIT_CAP(n);
    char *buf = malloc(n + 1); __CPROVER_assume(buf != NULL); buf[n] = 0;   /* std::string: n bytes + NUL */
    struct archive a; a.buf_p = buf; a.buf_n = n; size_t pos; a.ptr_ = pos;
    g_ar_p = buf; g_ar_n = n; size_t k; g_ar_k = k;
    WIT_BUF(0, buf, n); WIT(0, pos);
'''
jobs = [
    dict(name='archive_eof', props=P, enforce='archive_eof', harness=ARCH_HARNESS + 'archive_eof(&a); VERIF_REACH;'),
    dict(name='archive_next_chunk_size', props=P, enforce='archive_next_chunk_size', replace=['archive_eof'],
         harness=ARCH_HARNESS + 'archive_next_chunk_size(&a); VERIF_REACH;', witness=dict(bufs=['archive'], vals=['ptr']), replay='c19:next_chunk_size', replay_link=['-L{BUILD}/booster', '-lbooster']),
    dict(name='archive_read_chunk', props=P, enforce='archive_read_chunk', replace=['archive_next_chunk_size'],
         harness=ARCH_HARNESS + r'''
    size_t len; __CPROVER_assume(len <= BUF_CAP); char *out = malloc(len); __CPROVER_assume(out != NULL);
    WIT(1, len);
    archive_read_chunk(&a, out, len); VERIF_REACH;''', witness=dict(bufs=['archive'], vals=['ptr', 'len']), replay='c19:read_chunk', replay_link=['-L{BUILD}/booster', '-lbooster']),
    dict(name='archive_read_chunk_as_string', props=P, enforce='archive_read_chunk_as_string', replace=['archive_next_chunk_size', 'str_construct'],
         harness=ARCH_HARNESS + 'archive_read_chunk_as_string(&a); VERIF_REACH;', witness=dict(bufs=['archive'], vals=['ptr']), replay='c19:read_chunk_as_string', replay_link=['-L{BUILD}/booster', '-lbooster']),
    dict(name='archive_write_chunk', props=P, enforce='archive_write_chunk',
         harness=r'''
    size_t len; __CPROVER_assume(len <= BUF_CAP); char *in = malloc(len); __CPROVER_assume(in != NULL);
    size_t l0, k; __CPROVER_assume(l0 <= BUF_CAP); snk_len = l0; snk_k = k;
    archive_write_chunk(in, len); VERIF_REACH;'''),
]
for tname in ('u16', 'i64'):
    jobs.append(dict(name='vec_load_' + tname, props=P, enforce='vec_load_' + tname, replace=['archive_next_chunk_size', 'archive_read_chunk'],
                     harness=ARCH_HARNESS + 'struct podvec v; v.p = 0; v.n = 0; vec_load_%s(&v, &a); VERIF_REACH;' % tname))
# round trip at chunk level: corollary of the writer and reader contracts (the archive bytes are what the writer appended)
jobs.append(dict(name='chunk_roundtrip', props=P, kind='lemma', replace=['archive_read_chunk'], harness=r'''
    /* an archive whose bytes at [pos, pos+4+len) are what write_chunk(x,len) appends: header = len, payload = x */
    size_t n; __CPROVER_assume(n <= BUF_CAP);
    char *buf = malloc(n + 1); __CPROVER_assume(buf != NULL); buf[n] = 0;
    size_t len, pos, k; __CPROVER_assume(len <= BUF_CAP && pos <= n && n - pos >= 4 && len <= n - pos - 4 && k < len);
    char *x = malloc(len); char *y = malloc(len); __CPROVER_assume(x != NULL && y != NULL);
    uint32_t h = (uint32_t)len; __CPROVER_assume(memcmp(buf + pos, &h, 4) == 0);       /* writer contract: snk_hdr == len */
    __CPROVER_assume(buf[pos + 4 + k] == x[k]);                                          /* writer contract at ghost index k */
    struct archive a; a.buf_p = buf; a.buf_n = n; a.ptr_ = pos; g_ar_k = k; verif_thrown = 0;
    archive_read_chunk(&a, y, len);
    __CPROVER_assert(!verif_thrown, "a chunk written by write_chunk is accepted by read_chunk");
    __CPROVER_assert(y[k] == x[k], "read_chunk returns the byte that write_chunk stored (arbitrary index)");
    __CPROVER_assert(a.ptr_ == pos + 4 + len, "cursor after the chunk");
    VERIF_REACH;'''))

UNIT = dict(
    name='archive', pre=PRE, functions=functions, jobs=jobs,
    trusted=['archive: std::string buffer_ is modelled as (pointer,length) with length+1 readable bytes (R8); buffer_.append as a scalar ghost sink (R7)',
             'archive: std::string(p,n) construction is a stub that requires [p,p+n) to lie inside the archive (R10)',
             'archive: std::vector<T> of the POD-vector loader is a malloc of exactly n*sizeof(T) bytes (R10); memcpy is cbmc\'s built-in model (checks both ranges)',
             'archive: lengths above 2^32-1 in write_chunk (silent uint32_t truncation) are outside the contract'],
    not_covered={'C19': ['user-defined serialize() graphs, smart pointers, std containers other than POD vectors, JSON values (templates over STL; outside the C front end)',
                         'session/cache convenience calls that store objects']},
)
