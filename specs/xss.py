# Unit "xss" -- tokeniser and strict tag/attribute/entity grammar of the XSS filter (src/xss.cpp).  Serves C04.
import sys, os
sys.path.insert(0, os.path.join(os.path.dirname(os.path.abspath(__file__)), '..', 'tools'))
from cxx2c import lit

X = 'src/xss.cpp'
P = ['C04']

PRE = r'''
@@REGION:html_data_type@@
struct property_data { char const *property_begin, *property_end, *value_begin, *value_end; };
struct tag_data { char const *tag_begin, *tag_end; int pair; };
struct entry { char const *begin, *end; html_data_type type; struct tag_data tag; };
#define SPECIAL(c) ((c) == '<' || (c) == '>' || (c) == '&')
size_t g_k;                                   /* arbitrary absolute offset (ghost index) */
size_t g_v0, g_p0;
/* strlen / memcmp on the short entity literals of validate_property_value ("amp;" ... "#x27;", at most 6 bytes): loop-free equivalents (R9) */
static size_t lit_strlen(char const *s) { return !s[0] ? 0 : !s[1] ? 1 : !s[2] ? 2 : !s[3] ? 3 : !s[4] ? 4 : !s[5] ? 5 : 6; }
static int lit_memcmp(char const *a, char const *b, size_t n)
{
  __CPROVER_assert(n <= 6 && __CPROVER_r_ok(a, n) && __CPROVER_r_ok(b, n), "memcmp ranges are readable (entity literal of at most 6 bytes)");
  return ((n > 0 && a[0] != b[0]) || (n > 1 && a[1] != b[1]) || (n > 2 && a[2] != b[2]) || (n > 3 && a[3] != b[3]) || (n > 4 && a[4] != b[4]) || (n > 5 && a[5] != b[5])) ? 1 : 0;
}
#define ALNUM(c) (((c) >= '0' && (c) <= '9') || ((c) >= 'a' && (c) <= 'z') || ((c) >= 'A' && (c) <= 'Z'))
#define ALPHA(c) ((((c) >= 'a' && (c) <= 'z') || ((c) >= 'A' && (c) <= 'Z')) || (c) == '_')
/* ---- tags.push_back(entry(b,e,type)) (R10): checks the TILING (each part starts where the previous ended, is non-empty, stays inside the input)
        and the CLASSIFICATION of the part at the arbitrary ghost offset g_k */
char const *g_in_b, *g_in_e; size_t g_last_end; size_t g_parts;
static void tags_push(char const *b, char const *e, html_data_type t)
{
  __CPROVER_assert(SAME(b, g_in_b) && SAME(e, g_in_b) && OFF(b) == g_last_end && OFF(b) < OFF(e) && OFF(e) <= OFF(g_in_e), "parts tile the input: contiguous, non-empty, inside [begin,end)");
  if(OFF(b) <= g_k && g_k < OFF(e)) {
    char c = g_in_b[g_k - OFF(g_in_b)];
    __CPROVER_assert(t != plain_text || !SPECIAL(c), "plain_text part contains none of < > &");
    __CPROVER_assert(t != html_entity || (*b == '&' && e[-1] == ';' && (g_k + 1 == OFF(e) || c != ';')), "html_entity part is &...; with no ; before its last byte");
    __CPROVER_assert(t != html_tag || (*b == '<' && e[-1] == '>' && (g_k + 1 == OFF(e) || c != '>')), "html_tag part is <...> with no > before its last byte");
    __CPROVER_assert(t != html_comment || (OFF(e) - OFF(b) >= 7 && b[0] == '<' && b[1] == '!' && b[2] == '-' && b[3] == '-' && e[-3] == '-' && e[-2] == '-' && e[-1] == '>' &&
                     ((g_k >= OFF(b) + 4 && g_k + 3 < OFF(e)) ==> !SPECIAL(c))), "html_comment part is <!--...--> whose interior has none of < > &");
    __CPROVER_assert(t == plain_text || t == html_entity || t == html_tag || t == html_comment || t == invalid_data, "the tokeniser only emits the five raw types");
  }
  g_last_end = OFF(e); g_parts++;
}
static void tags_clear(void) { }
static void tags_reserve(unsigned n) { }
/* part.tag.properties.push_back(property_data(b,e)) / .back() */
struct property_data g_prop; size_t g_props;
static void props_push(char const *b, char const *e) { g_prop.property_begin = b; g_prop.property_end = e; g_prop.value_begin = 0; g_prop.value_end = 0; g_props++; }
'''

TAG_PART_OK = ('(__CPROVER_rw_ok(part, sizeof(*part)) && VALID_RANGE(part->begin, part->end) && OFF(part->end) - OFF(part->begin) >= 2 && OFF(part->end) - OFF(part->begin) <= BUF_CAP && '
               "part->begin[0] == '<' && part->end[-1] == '>')")

functions = [
    dict(cname='ascii_isalpha', file=X, locate=lit('bool ascii_isalpha(char c)'), sig='bool ascii_isalpha(char c)',
         contract="__CPROVER_assigns()\n__CPROVER_ensures(__CPROVER_return_value == (('a' <= c && c <= 'z') || ('A' <= c && c <= 'Z') || c == '_'))"),
    dict(cname='ascii_isdigit', file=X, locate=lit('bool ascii_isdigit(char c)'), sig='bool ascii_isdigit(char c)',
         contract="__CPROVER_assigns()\n__CPROVER_ensures(__CPROVER_return_value == ('0' <= c && c <= '9'))"),
    dict(cname='ascii_isalnum', file=X, locate=lit('bool ascii_isalnum(char c)'), sig='bool ascii_isalnum(char c)',
         contract="__CPROVER_assigns()\n__CPROVER_ensures(__CPROVER_return_value == (('0' <= c && c <= '9') || ('a' <= c && c <= 'z') || ('A' <= c && c <= 'Z')))"),
    dict(cname='ascii_isspace', file=X, locate=lit('bool ascii_isspace(char c)'), sig='bool ascii_isspace(char c)',
         contract="__CPROVER_assigns()\n__CPROVER_ensures(__CPROVER_return_value == (c == ' ' || c == '\\r' || c == '\\n' || c == '\\t'))"),
    # ---------------- tokeniser
    dict(cname='xss_split_to_parts', file=X, locate=lit('void split_to_parts(char const *begin,char const *end,std::vector<entry> &tags)'),
         sig='void xss_split_to_parts(char const *begin, char const *end)',
         rewrites=[(r'tags\.push_back\(entry\(', 'tags_push((', 9), (r'tags\.clear\(\);', 'tags_clear();', 1), (r'tags\.reserve\(count\);', 'tags_reserve(count);', 1)],
         post_rewrites=[(r'tags_push\(\(([^;]*)\)\);', r'tags_push(\1);', 9)],
         loops={
           0: '__CPROVER_assigns(tmp, count)\n__CPROVER_loop_invariant(IN_RANGE(tmp, begin, end) && count <= OFF(tmp) - OFF(begin))\n__CPROVER_decreases(OFF(end) - OFF(tmp))',
           1: '''__CPROVER_assigns(p, g_last_end, g_parts)
__CPROVER_loop_invariant(IN_RANGE(p, begin, end) && g_last_end == OFF(p) && g_parts <= OFF(p) - OFF(begin))
__CPROVER_decreases(OFF(end) - OFF(p))''',
           2: '''__CPROVER_assigns(e)
__CPROVER_loop_invariant(IN_RANGE(e, p, end) && OFF(e) > OFF(p) && ((g_k > OFF(p) && g_k < OFF(e)) ==> REBASE(p, end)[g_k - OFF(p)] != ';'))
__CPROVER_decreases(OFF(end) - OFF(e))''',
           3: '''__CPROVER_assigns(e)
__CPROVER_loop_invariant(IN_RANGE(e, p, end) && OFF(e) >= OFF(p) + 4)
__CPROVER_decreases(OFF(end) - OFF(e))''',
           4: '''__CPROVER_assigns(tmp, type, c)
__CPROVER_loop_invariant(IN_RANGE(tmp, p, e) && OFF(tmp) >= OFF(p) + 4 && (type == html_comment || type == invalid_data) &&
      (type == html_comment ==> ((g_k >= OFF(p) + 4 && g_k < OFF(tmp)) ==> !SPECIAL(REBASE(p, end)[g_k - OFF(p)]))))
__CPROVER_decreases(OFF(e) - OFF(tmp))''',
           5: '''__CPROVER_assigns(e)
__CPROVER_loop_invariant(IN_RANGE(e, p, end) && OFF(e) > OFF(p) && ((g_k > OFF(p) && g_k < OFF(e)) ==> REBASE(p, end)[g_k - OFF(p)] != '>'))
__CPROVER_decreases(OFF(end) - OFF(e))''',
           6: '''__CPROVER_assigns(e, c)
__CPROVER_loop_invariant(IN_RANGE(e, p, end) && OFF(e) > OFF(p) && ((g_k > OFF(p) && g_k < OFF(e)) ==> !SPECIAL(REBASE(p, end)[g_k - OFF(p)])))
__CPROVER_decreases(OFF(end) - OFF(e))'''},
         contract=r'''
__CPROVER_requires(VALID_RANGE(begin, end) && OFF(end) - OFF(begin) <= BUF_CAP && g_in_b == begin && g_in_e == end && g_last_end == OFF(begin) && g_parts == 0)
__CPROVER_assigns(g_last_end, g_parts)
/* the parts tile the whole input (each push is checked in the stub; here: the last part ends at `end`) */
__CPROVER_ensures(g_last_end == OFF(end))
'''),
]

# (specs/wip/xss_tag.inc holds the tag-grammar jobs: parked, they do not close within the time budget yet)

jobs = [
    dict(name='ascii_isalpha', props=P, enforce='ascii_isalpha', harness='char c; ascii_isalpha(c); VERIF_REACH;'),
    dict(name='ascii_isdigit', props=P, enforce='ascii_isdigit', harness='char c; ascii_isdigit(c); VERIF_REACH;'),
    dict(name='ascii_isalnum', props=P, enforce='ascii_isalnum', replace=['ascii_isdigit'], harness='char c; ascii_isalnum(c); VERIF_REACH;'),
    dict(name='ascii_isspace', props=P, enforce='ascii_isspace', harness='char c; ascii_isspace(c); VERIF_REACH;'),
    dict(name='xss_split_to_parts', props=P, kind='plainloops', per_property=r'^xss_split_to_parts\.|^tags_push\.assertion', pp_chunk=16, pp_workers=14, timeout=300, cost=10,
         complete_note='all 7 loops closed by loop contracts (goto-instrument --apply-loop-contracts); obligations are solved in chunks of 16 per cbmc process (solving them all in one process does not finish)',
         harness=r"""
    /* the tokeniser forms p+4 and e+2 before comparing them with end: up to 3 bytes past the end (never dereferenced); the input is modelled inside an object with 4 bytes of slack (observation) */
    size_t n; __CPROVER_assume(n <= BUF_CAP); WIT_CAP(n); char *buf = malloc(n + 4); __CPROVER_assume(buf != NULL); size_t k; g_k = k; g_in_b = buf; g_in_e = buf + n;
    g_last_end = OFF(buf); g_parts = 0;
    WIT_BUF(0, buf, n);
    xss_split_to_parts(buf, buf + n);
    __CPROVER_assert(g_last_end == OFF(buf) + n, "the parts tile the whole input: the last part ends at `end`");
    VERIF_REACH;""", witness=dict(bufs=['in'])),
]

UNIT = dict(
    name='xss', pre=PRE, functions=functions, jobs=jobs,
    regions=[dict(name='html_data_type', file=X, start=r'typedef enum \{\s*invalid_data', end=r'\} html_data_type;')],
    trusted=['xss: std::vector<entry>::push_back is a stub that asserts the tiling and the per-part classification at an arbitrary ghost offset (R10); reserve/clear are no-ops',
             'xss: memcmp/strlen are cbmc built-in models'],
    not_covered={'C04': ['rule lookup (std::map/std::set, regex, URI parser), validate_nesting (std::stack), character-encoding validation of the input (unit encoding/utf8), '
                         'the composition validate(filter(x)) over unbounded token vectors: the tiling + classification contracts are the stability argument (DESIGN.md)']},
)
