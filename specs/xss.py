# Unit "xss" -- tokeniser and strict tag/attribute/entity grammar of the XSS filter (src/xss.cpp).  Serves C04.
import sys, os
sys.path.insert(0, os.path.join(os.path.dirname(os.path.abspath(__file__)), '..', 'tools'))
from cxx2c import lit

X = 'src/xss.cpp'
P = ['C04']

PRE = r'''
@@REGION:html_data_type@@
struct property_data { char const *property_begin, *property_end, *value_begin, *value_end; };
struct tag_data { char const *tag_begin, *tag_end; int pair; };
struct entry { char const *begin, *end; html_data_type type; struct tag_data tag; };
#define SPECIAL(c) ((c) == '<' || (c) == '>' || (c) == '&')
size_t g_k;                                   /* arbitrary absolute offset (ghost index) */
size_t g_v0, g_p0;
/* strlen / memcmp on the short entity literals of validate_property_value ("amp;" ... "#x27;", at most 6 bytes): loop-free equivalents (R9) */
static size_t lit_strlen(char const *s) { return !s[0] ? 0 : !s[1] ? 1 : !s[2] ? 2 : !s[3] ? 3 : !s[4] ? 4 : !s[5] ? 5 : 6; }
static int lit_memcmp(char const *a, char const *b, size_t n)
{
  __CPROVER_assert(n <= 6 && __CPROVER_r_ok(a, n) && __CPROVER_r_ok(b, n), "memcmp ranges are readable (entity literal of at most 6 bytes)");
  return ((n > 0 && a[0] != b[0]) || (n > 1 && a[1] != b[1]) || (n > 2 && a[2] != b[2]) || (n > 3 && a[3] != b[3]) || (n > 4 && a[4] != b[4]) || (n > 5 && a[5] != b[5])) ? 1 : 0;
}
#define ALNUM(c) (((c) >= '0' && (c) <= '9') || ((c) >= 'a' && (c) <= 'z') || ((c) >= 'A' && (c) <= 'Z'))
#define ALPHA(c) ((((c) >= 'a' && (c) <= 'z') || ((c) >= 'A' && (c) <= 'Z')) || (c) == '_')
/* ---- tags.push_back(entry(b,e,type)) (R10): checks the TILING (each part starts where the previous ended, is non-empty, stays inside the input)
        and the CLASSIFICATION of the part at the arbitrary ghost offset g_k */
char const *g_in_b, *g_in_e; size_t g_last_end; size_t g_parts;
static void tags_push(char const *b, char const *e, html_data_type t)
{
  __CPROVER_assert(SAME(b, g_in_b) && SAME(e, g_in_b) && OFF(b) == g_last_end && OFF(b) < OFF(e) && OFF(e) <= OFF(g_in_e), "parts tile the input: contiguous, non-empty, inside [begin,end)");
  if(OFF(b) <= g_k && g_k < OFF(e)) {
    char c = g_in_b[g_k - OFF(g_in_b)];
    __CPROVER_assert(t != plain_text || !SPECIAL(c), "plain_text part contains none of < > &");
    __CPROVER_assert(t != html_entity || (*b == '&' && e[-1] == ';' && (g_k + 1 == OFF(e) || c != ';')), "html_entity part is &...; with no ; before its last byte");
    __CPROVER_assert(t != html_tag || (*b == '<' && e[-1] == '>' && (g_k + 1 == OFF(e) || c != '>')), "html_tag part is <...> with no > before its last byte");
    __CPROVER_assert(t != html_comment || (OFF(e) - OFF(b) >= 7 && b[0] == '<' && b[1] == '!' && b[2] == '-' && b[3] == '-' && e[-3] == '-' && e[-2] == '-' && e[-1] == '>' &&
                     ((g_k >= OFF(b) + 4 && g_k + 3 < OFF(e)) ==> !SPECIAL(c))), "html_comment part is <!--...--> whose interior has none of < > &");
    __CPROVER_assert(t == plain_text || t == html_entity || t == html_tag || t == html_comment || t == invalid_data, "the tokeniser only emits the five raw types");
  }
  g_last_end = OFF(e); g_parts++;
}
static void tags_clear(void) { }
static void tags_reserve(unsigned n) { }
/* part.tag.properties.push_back(property_data(b,e)) / .back() */
struct property_data g_prop; size_t g_props;
static void props_push(char const *b, char const *e) { g_prop.property_begin = b; g_prop.property_end = e; g_prop.value_begin = 0; g_prop.value_end = 0; g_props++; }
'''

TAG_PART_OK = ('(__CPROVER_rw_ok(part, sizeof(*part)) && VALID_RANGE(part->begin, part->end) && OFF(part->end) - OFF(part->begin) >= 2 && OFF(part->end) - OFF(part->begin) <= BUF_CAP && '
               "part->begin[0] == '<' && part->end[-1] == '>')")

PRE += r'''
/* ---- validate_nesting: std::stack<unsigned> as an array + depth (R8); ascii_streq on two tag names is an arbitrary predicate here */
unsigned *g_stk; unsigned g_sp, g_stk_cap; unsigned g_ci, g_s1, g_s2;     /* an arbitrary entry and an arbitrary stack slot */
static void st_init(void);
static bool st_empty(void) { return g_sp == 0; }
/* history facts of a stack whose pushes are strictly increasing (asserted in st_push): every element was pushed earlier, so it is below the push bound,
   and elements are sorted, so any lower slot (ghost slot g_s1) holds a smaller value than the top.  Assumed where the top is read. */
unsigned g_push_bound, g_obs_open; bool g_obs_armed;
static unsigned st_top(void)
{
  __CPROVER_assert(g_sp > 0, "st.top() on a non-empty stack");
  unsigned v = g_stk[g_sp - 1];
  /* ... and a value that was popped earlier (the opener of the observed pair, recorded in g_obs_open when it was matched) never reappears */
  __CPROVER_assume(v < g_push_bound && (g_s1 < g_sp - 1 ==> g_stk[g_s1] < v) && (g_obs_armed ==> (v != g_obs_open && v != g_ci /* armed while entry g_ci was processed as a CLOSE tag: it was never pushed */)));
  return v;
}
static void st_pop(void) { __CPROVER_assert(g_sp > 0, "st.pop() on a non-empty stack"); g_sp--; }
static void st_push(unsigned v) { __CPROVER_assert(g_sp < g_stk_cap, "model capacity (one slot per entry)"); __CPROVER_assert(v >= g_push_bound, "pushes are strictly increasing entry indices"); g_stk[g_sp] = v; g_sp++; g_push_bound = v + 1; }
static void st_init(void) { g_sp = 0; g_push_bound = 0; g_obs_armed = 0; }
static bool names_eq(char const *a, char const *b, char const *c, char const *d, bool x) { int r; return r != 0; }

/* facts about the stack at the ghost slots: every element is an earlier entry; elements are strictly increasing; the opener of the observed pair is not on it */
#define STK_INV(i) (g_sp <= (i) && g_sp <= g_stk_cap && g_push_bound <= (i))
/* the observed entry, once processed: a close tag that is still a close tag and has a partner is paired with an EARLIER entry that points back at it and is not on the stack any more */
#define PAIR_OK(parsed) ((parsed)[g_ci].type == close_tag ==> \
     (/* a processed closing tag keeps its type only if it found its partner */ (parsed)[g_ci].tag.pair >= 0 && (unsigned)(parsed)[g_ci].tag.pair < g_ci && (parsed)[(parsed)[g_ci].tag.pair].tag.pair == (int)g_ci && g_obs_armed && g_obs_open == (unsigned)(parsed)[g_ci].tag.pair))
'''

PRE += r'''
/* ---- attribute values: validate_property_value / ends_with.  g_vb is the first byte of the value, g_vn its length; facts are stated at the relative ghost index g_vi, never through the walking pointer */
char const *g_vb; size_t g_vn, g_vi;
#define LITLEN(v) (!(v)[0] ? 0 : !(v)[1] ? 1 : !(v)[2] ? 2 : !(v)[3] ? 3 : !(v)[4] ? 4 : !(v)[5] ? 5 : 6)
#define M3(j,a,b,c) ((j) + 3 <= g_vn && g_vb[(j)] == (a) && g_vb[(j)+1] == (b) && g_vb[(j)+2] == (c))
#define M4(j,a,b,c,d) ((j) + 4 <= g_vn && g_vb[(j)] == (a) && g_vb[(j)+1] == (b) && g_vb[(j)+2] == (c) && g_vb[(j)+3] == (d))
#define M5(j,a,b,c,d,e) ((j) + 5 <= g_vn && g_vb[(j)] == (a) && g_vb[(j)+1] == (b) && g_vb[(j)+2] == (c) && g_vb[(j)+3] == (d) && g_vb[(j)+4] == (e))
/* the entity names an attribute value may contain: &amp; &lt; &gt; &quot; &apos; &#x27; &#X27; &#39; */
#define ENT_AT(j) (M4(j,'a','m','p',';') || M3(j,'l','t',';') || M3(j,'g','t',';') || M5(j,'q','u','o','t',';') || M5(j,'a','p','o','s',';') || M5(j,'#','x','2','7',';') || M5(j,'#','X','2','7',';') || M4(j,'#','3','9',';'))
/* what a TRUE answer of ends_with(cursor, end, literal) means, at the cursor offset o (relative to g_vb): used verbatim in the contract of xss_ends_with (proved) and in ends_with_model */
#define EW_FACTS(o, end_, v) (LITLEN(v) <= OFF(end_) - OFF(g_vb) - (o) && (LITLEN(v) > 0 ==> g_vb[(o)] == (v)[0]) && (LITLEN(v) > 1 ==> g_vb[(o) + 1] == (v)[1]) && (LITLEN(v) > 2 ==> g_vb[(o) + 2] == (v)[2]) && \
                              (LITLEN(v) > 3 ==> g_vb[(o) + 3] == (v)[3]) && (LITLEN(v) > 4 ==> g_vb[(o) + 4] == (v)[4]))
/* executable restatement of the postcondition proved for xss_ends_with (job xss_ends_with): true only under EW_FACTS, the cursor then moves by the literal's length; false leaves it alone.
   (A contract REPLACEMENT of the call is vacuous in the loop-contract context of cbmc 6.11: the cursor equation is never satisfiable there, DESIGN.md section 4.) */
static bool ends_with_model(char const **begin, char const *end, char const *value)
{
  __CPROVER_assert(SAME(*begin, end) && SAME(*begin, g_vb) && OFF(g_vb) <= OFF(*begin) && OFF(*begin) <= OFF(end) && LITLEN(value) <= 5, "ends_with is called inside its precondition");
  int r; if(!r) return 0;
  __CPROVER_assume(EW_FACTS(OFF(*begin) - OFF(g_vb), end, value));
  *begin = *begin + LITLEN(value); return 1;
}
#define VCH_OK(i) (g_vb[(i)] != '<' && g_vb[(i)] != '>' && (g_vb[(i)] == '&' ==> ENT_AT((i) + 1)))
'''
functions = [
    dict(cname='ascii_isalpha', file=X, locate=lit('bool ascii_isalpha(char c)'), sig='bool ascii_isalpha(char c)',
         contract="__CPROVER_assigns()\n__CPROVER_ensures(__CPROVER_return_value == (('a' <= c && c <= 'z') || ('A' <= c && c <= 'Z') || c == '_'))"),
    dict(cname='ascii_isdigit', file=X, locate=lit('bool ascii_isdigit(char c)'), sig='bool ascii_isdigit(char c)',
         contract="__CPROVER_assigns()\n__CPROVER_ensures(__CPROVER_return_value == ('0' <= c && c <= '9'))"),
    dict(cname='ascii_isalnum', file=X, locate=lit('bool ascii_isalnum(char c)'), sig='bool ascii_isalnum(char c)',
         contract="__CPROVER_assigns()\n__CPROVER_ensures(__CPROVER_return_value == (('0' <= c && c <= '9') || ('a' <= c && c <= 'z') || ('A' <= c && c <= 'Z')))"),
    dict(cname='ascii_isspace', file=X, locate=lit('bool ascii_isspace(char c)'), sig='bool ascii_isspace(char c)',
         contract="__CPROVER_assigns()\n__CPROVER_ensures(__CPROVER_return_value == (c == ' ' || c == '\\r' || c == '\\n' || c == '\\t'))"),
    # ---------------- tokeniser
    dict(cname='xss_ends_with', file=X, locate=lit('bool ends_with(char const *&begin,char const *end,char const *value)'),
         sig='bool xss_ends_with(char const **begin, char const *end, char const *value)', refs=['begin'], rename={'strlen': 'lit_strlen', 'memcmp': 'lit_memcmp'},
         contract=r'''
__CPROVER_requires(__CPROVER_rw_ok(begin, sizeof(*begin)) && SAME(*begin, end) && SAME(*begin, g_vb) && OFF(g_vb) <= OFF(*begin) && OFF(*begin) <= OFF(end) && OFF(end) <= BUF_CAP && OFF(end) <= __CPROVER_OBJECT_SIZE(end) && LITLEN(value) <= 5)
__CPROVER_assigns(*begin)
/* true: the bytes at the cursor are exactly the literal, and the cursor moved past them; false: the cursor did not move */
__CPROVER_ensures(__CPROVER_return_value ==> (*begin == __CPROVER_old(*begin) + LITLEN(value) && EW_FACTS(OFF(__CPROVER_old(*begin)) - OFF(g_vb), end, value)))
__CPROVER_ensures(!__CPROVER_return_value ==> *begin == __CPROVER_old(*begin))
'''),
    dict(cname='xss_validate_property_value', file=X, locate=lit('bool validate_property_value(char const *begin,char const *end)'),
         sig='bool xss_validate_property_value(char const *begin, char const *end)', rewrites=[(r'\bends_with\(begin,end,', 'ends_with_model(&begin, end, ', 1)],
         loops={0: r'''
__CPROVER_assigns(begin)
__CPROVER_loop_invariant(SAME(begin, g_vb) && OFF(begin) >= OFF(g_vb) && OFF(begin) <= OFF(end) && (g_vi < OFF(begin) - OFF(g_vb) ==> VCH_OK(g_vi)))
__CPROVER_decreases(OFF(end) - OFF(begin))'''},
         contract=r'''
__CPROVER_requires(VALID_RANGE(begin, end) && begin == g_vb && g_vn == OFF(end) - OFF(begin) && g_vn <= BUF_CAP)
__CPROVER_assigns()
/* C04: an accepted attribute value contains no < and no >, and every & in it starts one of the eight white-listed entities that lies entirely inside the value (arbitrary ghost index) */
__CPROVER_ensures(__CPROVER_return_value ==> (g_vi < g_vn ==> VCH_OK(g_vi)))
'''),

    dict(cname='xss_split_to_parts', file=X, locate=lit('void split_to_parts(char const *begin,char const *end,std::vector<entry> &tags)'),
         sig='void xss_split_to_parts(char const *begin, char const *end)',
         rewrites=[(r'tags\.push_back\(entry\(', 'tags_push((', 9), (r'tags\.clear\(\);', 'tags_clear();', 1), (r'tags\.reserve\(count\);', 'tags_reserve(count);', 1)],
         post_rewrites=[(r'tags_push\(\(([^;]*)\)\);', r'tags_push(\1);', 9)],
         loops={
           0: '__CPROVER_assigns(tmp, count)\n__CPROVER_loop_invariant(IN_RANGE(tmp, begin, end) && count <= OFF(tmp) - OFF(begin))\n__CPROVER_decreases(OFF(end) - OFF(tmp))',
           1: '''__CPROVER_assigns(p, g_last_end, g_parts)
__CPROVER_loop_invariant(IN_RANGE(p, begin, end) && g_last_end == OFF(p) && g_parts <= OFF(p) - OFF(begin))
__CPROVER_decreases(OFF(end) - OFF(p))''',
           2: '''__CPROVER_assigns(e)
__CPROVER_loop_invariant(IN_RANGE(e, p, end) && OFF(e) > OFF(p) && ((g_k > OFF(p) && g_k < OFF(e)) ==> REBASE(p, end)[g_k - OFF(p)] != ';'))
__CPROVER_decreases(OFF(end) - OFF(e))''',
           3: '''__CPROVER_assigns(e)
__CPROVER_loop_invariant(IN_RANGE(e, p, end) && OFF(e) >= OFF(p) + 4)
__CPROVER_decreases(OFF(end) - OFF(e))''',
           4: '''__CPROVER_assigns(tmp, type, c)
__CPROVER_loop_invariant(IN_RANGE(tmp, p, e) && OFF(tmp) >= OFF(p) + 4 && (type == html_comment || type == invalid_data) &&
      (type == html_comment ==> ((g_k >= OFF(p) + 4 && g_k < OFF(tmp)) ==> !SPECIAL(REBASE(p, end)[g_k - OFF(p)]))))
__CPROVER_decreases(OFF(e) - OFF(tmp))''',
           5: '''__CPROVER_assigns(e)
__CPROVER_loop_invariant(IN_RANGE(e, p, end) && OFF(e) > OFF(p) && ((g_k > OFF(p) && g_k < OFF(e)) ==> REBASE(p, end)[g_k - OFF(p)] != '>'))
__CPROVER_decreases(OFF(end) - OFF(e))''',
           6: '''__CPROVER_assigns(e, c)
__CPROVER_loop_invariant(IN_RANGE(e, p, end) && OFF(e) > OFF(p) && ((g_k > OFF(p) && g_k < OFF(e)) ==> !SPECIAL(REBASE(p, end)[g_k - OFF(p)])))
__CPROVER_decreases(OFF(end) - OFF(e))'''},
         contract=r'''
__CPROVER_requires(VALID_RANGE(begin, end) && OFF(end) - OFF(begin) <= BUF_CAP && g_in_b == begin && g_in_e == end && g_last_end == OFF(begin) && g_parts == 0)
__CPROVER_assigns(g_last_end, g_parts)
/* the parts tile the whole input (each push is checked in the stub; here: the last part ends at `end`) */
__CPROVER_ensures(g_last_end == OFF(end))
'''),
    dict(cname='xss_validate_nesting', file=X, locate=lit('void validate_nesting(std::vector<entry> &parsed,bool xhtml)'), sig='void xss_validate_nesting(struct entry *parsed, unsigned parsed_n, bool xhtml)',
         rename={'ascii_streq': 'names_eq'},
         rewrites=[(r'std::stack<unsigned> st;', 'st_init();', 1), (r'st\.empty\(\)', 'st_empty()', 3), (r'st\.top\(\)', 'st_top()', 3), (r'st\.pop\(\)', 'st_pop()', 3), (r'st\.push\(i\)', 'st_push(i)', 0),
                   (r'parsed\.size\(\)', 'parsed_n', 1), (r'entry &cur = parsed\[i\];', 'struct entry *cur = &parsed[i];', 1), (r'\bcur\.', 'cur->', 8)],
         inserts=[(r'cur->tag\.pair = top_index;', 0, 'g_obs_open = (i == g_ci) ? top_index : g_obs_open; g_obs_armed = (i == g_ci) ? 1 : g_obs_armed;'),
                  (r'cur->tag\.pair = top_index;', 1, 'g_obs_open = (i == g_ci) ? top_index : g_obs_open; g_obs_armed = (i == g_ci) ? 1 : g_obs_armed;')],
         loops={0: r'''
__CPROVER_assigns(i, g_sp, g_push_bound, g_obs_open, g_obs_armed, __CPROVER_object_whole(g_stk), __CPROVER_object_whole(parsed))
__CPROVER_loop_invariant(i <= parsed_n && STK_INV(i) && (g_ci >= i ==> (parsed[g_ci].tag.pair == -1 && !g_obs_armed)) && (g_ci < i ==> PAIR_OK(parsed)))
__CPROVER_decreases(parsed_n - i)''',
                1: r'''
__CPROVER_assigns(g_sp, g_obs_open, g_obs_armed, __CPROVER_object_whole(parsed))
__CPROVER_loop_invariant(i < parsed_n && STK_INV(i) && cur == &parsed[i] && (g_ci > i ==> (parsed[g_ci].tag.pair == -1 && !g_obs_armed)) && (g_ci < i ==> PAIR_OK(parsed)) &&
      (g_ci == i ==> ((parsed[i].tag.pair == -1 && !g_obs_armed) || PAIR_OK(parsed))) && parsed[i].type == close_tag)
__CPROVER_decreases(g_sp)''',
                2: r'''
__CPROVER_assigns(g_sp, __CPROVER_object_whole(parsed))
__CPROVER_loop_invariant(STK_INV(parsed_n) && PAIR_OK(parsed))
__CPROVER_decreases(g_sp)'''},
         contract=r'''
/* entries come from split_to_parts with tag_data() defaults: pair == -1 (required at the observed entry) */
__CPROVER_requires(parsed_n <= 100000 && g_stk_cap >= parsed_n && __CPROVER_rw_ok(parsed, parsed_n * sizeof(struct entry)) && __CPROVER_rw_ok(g_stk, g_stk_cap * sizeof(unsigned)) &&
                   g_ci < parsed_n && parsed[g_ci].tag.pair == -1 && !SAME(parsed, g_stk))
__CPROVER_assigns(g_sp, g_push_bound, g_obs_open, g_obs_armed, __CPROVER_object_whole(g_stk), __CPROVER_object_whole(parsed))
/* C04 (what filter() relies on to drop BOTH halves of a rejected pair): a closing tag that found its partner is linked to an earlier entry that links back to it */
__CPROVER_ensures(g_sp == 0 && ((parsed[g_ci].type == close_tag && parsed[g_ci].tag.pair >= 0) ==> ((unsigned)parsed[g_ci].tag.pair < g_ci && parsed[parsed[g_ci].tag.pair].tag.pair == (int)g_ci)))
'''),
]

# (specs/wip/xss_tag.inc holds the tag-grammar jobs: parked, they do not close within the time budget yet)

jobs = [
    dict(name='ascii_isalpha', props=P, enforce='ascii_isalpha', harness='char c; ascii_isalpha(c); VERIF_REACH;'),
    dict(name='ascii_isdigit', props=P, enforce='ascii_isdigit', harness='char c; ascii_isdigit(c); VERIF_REACH;'),
    dict(name='ascii_isalnum', props=P, enforce='ascii_isalnum', replace=['ascii_isdigit'], harness='char c; ascii_isalnum(c); VERIF_REACH;'),
    dict(name='ascii_isspace', props=P, enforce='ascii_isspace', harness='char c; ascii_isspace(c); VERIF_REACH;'),
    dict(name='xss_ends_with', props=P, enforce='xss_ends_with', harness=r'''
    SYM_BUF(char, b, n, BUF_CAP); size_t off; __CPROVER_assume(off <= n); char const *cur = b + off; int w; g_vb = b; g_vn = n;
    char const *lit = w == 0 ? "amp;" : w == 1 ? "lt;" : w == 2 ? "gt;" : w == 3 ? "quot;" : w == 4 ? "apos;" : w == 5 ? "#x27;" : w == 6 ? "#X27;" : "#39;";
    xss_ends_with(&cur, b + n, lit); VERIF_REACH;'''),
    dict(name='xss_validate_property_value', props=P, enforce='xss_validate_property_value', timeout=1500, object_bits=12, harness=r'''
    SYM_BUF(char, b, n, BUF_CAP); size_t k; g_vi = k; g_vb = b; g_vn = n;
    xss_validate_property_value(b, b + n); VERIF_REACH;'''),
    dict(name='xss_split_to_parts', props=P, kind='plainloops', per_property=r'^xss_split_to_parts\.|^tags_push\.assertion', pp_chunk=16, pp_workers=14, timeout=300, cost=10,
         complete_note='all 7 loops closed by loop contracts (goto-instrument --apply-loop-contracts); obligations are solved in chunks of 16 per cbmc process (solving them all in one process does not finish)',
         harness=r"""
    /* the tokeniser forms p+4 and e+2 before comparing them with end: up to 3 bytes past the end (never dereferenced); the input is modelled inside an object with 4 bytes of slack (observation) */
    size_t n; __CPROVER_assume(n <= BUF_CAP); WIT_CAP(n); char *buf = malloc(n + 4); __CPROVER_assume(buf != NULL); size_t k; g_k = k; g_in_b = buf; g_in_e = buf + n;
    g_last_end = OFF(buf); g_parts = 0;
    WIT_BUF(0, buf, n);
    xss_split_to_parts(buf, buf + n);
    __CPROVER_assert(g_last_end == OFF(buf) + n, "the parts tile the whole input: the last part ends at `end`");
    VERIF_REACH;""", witness=dict(bufs=['in'])),
    dict(name='xss_validate_nesting', props=P, kind='plainloops', per_property=r'.', pp_chunk=12, pp_workers=12, timeout=600,
         complete_note='all three loops closed by loop contracts (goto-instrument --apply-loop-contracts, no dfcc); pre/postcondition of the function contract are assumed/asserted by the harness',
         harness=r'''
    unsigned n, cap, ci, s1, s2; __CPROVER_assume(n <= 1000 && cap >= n && cap <= 1002);   /* entry-table bound of the harness (cbmc allocates per element); the invariants do not depend on it */ struct entry *ps = malloc(n * sizeof(struct entry)); g_stk = malloc(cap * sizeof(unsigned)); g_stk_cap = cap;
    __CPROVER_assume(ps != NULL && g_stk != NULL); g_ci = ci; g_s1 = s1; g_s2 = s2; int xh;
    __CPROVER_assume(ci < n && ps[ci].tag.pair == -1);                 /* = the requires clause */
    xss_validate_nesting(ps, n, xh != 0);
    __CPROVER_assert(g_sp == 0, "the stack of open tags is drained");
    __CPROVER_assert((ps[ci].type == close_tag && ps[ci].tag.pair >= 0) ==> ((unsigned)ps[ci].tag.pair < ci && ps[ps[ci].tag.pair].tag.pair == (int)ci),
                     "a closing tag that found its partner is linked to an earlier entry that links back to it (filter() drops both halves of a rejected pair through these links)");
    VERIF_REACH;'''),
]

UNIT = dict(
    name='xss', pre=PRE, functions=functions, jobs=jobs,
    regions=[dict(name='html_data_type', file=X, start=r'typedef enum \{\s*invalid_data', end=r'\} html_data_type;')],
    trusted=['xss: validate_property_value calls ends_with_model, an executable restatement of the postcondition proved for xss_ends_with (shared macro EW_FACTS), because a contract replacement of that call is vacuous inside the loop contract (cbmc 6.11)', 'xss: std::vector<entry>::push_back is a stub that asserts the tiling and the per-part classification at an arbitrary ghost offset (R10); reserve/clear are no-ops',
             'xss: memcmp/strlen are cbmc built-in models',
             'xss: validate_nesting: std::stack<unsigned> is an array + depth; three HISTORY facts of a stack whose pushes are strictly increasing (asserted at every push) are ASSUMED where the top is read: '
             'the top was pushed earlier (below the push bound), lower slots hold smaller values, and a value that was popped (the opener of the observed pair) or never pushed (the observed close tag) is not on the stack; '
             'ascii_streq on two tag names is an arbitrary predicate; entry table bounded to 1000 entries in the harness'],
    not_covered={'C04': ['rule lookup (std::map/std::set, regex, URI parser), that every open tag left unmatched is re-typed (converse direction of the pairing), character-encoding validation of the input (unit encoding/utf8), '
                         'the composition validate(filter(x)) over unbounded token vectors: the tiling + classification contracts are the stability argument (DESIGN.md)']},
)
