# Unit "encoding" -- single-byte charset validators (private/encoding_validators.h)
# and the filter functions of src/encoding.cpp.  Serves C14.
import sys, os
sys.path.insert(0, os.path.join(os.path.dirname(os.path.abspath(__file__)), '..', 'tools'))
sys.path.insert(0, os.path.dirname(os.path.abspath(__file__)))
from cxx2c import lit
import utf8 as U8

V = 'private/encoding_validators.h'
E = 'src/encoding.cpp'
P = ['C14']

VALIDATORS = ['ascii_valid', 'iso_8859_1_2_4_5_9_10_13_14_15_16_valid', 'iso_8859_3_valid', 'iso_8859_6_valid',
              'iso_8859_7_valid', 'iso_8859_8_valid', 'iso_8859_11_valid', 'windows_1250_valid', 'windows_1251_valid',
              'windows_1252_valid', 'windows_1253_valid', 'windows_1254_valid', 'windows_1255_valid', 'windows_1256_valid',
              'windows_1257_valid', 'windows_1258_valid', 'koi8_valid']

# generic contract of a single-byte tester, in terms of the ghost per-byte accept table g_sb_acc[256]
# and an arbitrary ghost index g_sb_k: the verdict is the conjunction of per-byte verdicts.
TESTER_CONTRACT = r'''
__CPROVER_requires(VALID_RANGE(p, e) && OFF(e) - OFF(p) <= BUF_CAP)
__CPROVER_requires(__CPROVER_rw_ok(count, sizeof(*count)) && *count <= SIZE_MAX - BUF_CAP)
__CPROVER_assigns(*count, g_sb_prev)
/* accepted => every byte (arbitrary ghost index) is accepted on its own; all bytes were counted */
__CPROVER_ensures(__CPROVER_return_value ==> (g_sb_k < OFF(e) - OFF(p) ==> g_sb_acc[(unsigned char)p[g_sb_k]]))
/* (the same fact instantiated at index 0, for callers that test one byte at a time) */
__CPROVER_ensures(__CPROVER_return_value ==> (OFF(e) > OFF(p) ==> g_sb_acc[(unsigned char)p[0]]))
__CPROVER_ensures(__CPROVER_return_value ==> *count == __CPROVER_old(*count) + (OFF(e) - OFF(p)))
/* rejected => the byte at which the scan stopped is rejected on its own */
__CPROVER_ensures(!__CPROVER_return_value ==> (OFF(p) <= g_sb_prev && g_sb_prev < OFF(e) && !g_sb_acc[(unsigned char)p[g_sb_prev - OFF(p)]]))
'''
TESTER_INV = r'''
__CPROVER_assigns(p, *count, g_sb_prev)
__CPROVER_loop_invariant(IN_RANGE(p, __CPROVER_loop_entry(p), e))
__CPROVER_loop_invariant(*count == __CPROVER_loop_entry(*count) + (OFF(p) - OFF(__CPROVER_loop_entry(p))))
__CPROVER_loop_invariant(g_sb_k < OFF(p) - OFF(__CPROVER_loop_entry(p)) ==> g_sb_acc[(unsigned char)(__CPROVER_loop_entry(p))[g_sb_k]])
__CPROVER_loop_invariant(OFF(p) > OFF(__CPROVER_loop_entry(p)) ==> g_sb_acc[(unsigned char)(__CPROVER_loop_entry(p))[0]])
__CPROVER_decreases(OFF(e) - OFF(p))
'''
# property C14 for the per-byte judgement: printable ASCII, TAB, LF, CR accepted; other C0, DEL (and C1 for ISO-8859) rejected
def byte_contract(iso):
    forb = '((c < 0x20 && c != 0x09 && c != 0x0A && c != 0x0D) || c == 0x7F%s)' % (' || (c >= 0x80 && c <= 0x9F)' if iso else '')
    return r'''
__CPROVER_requires(c <= 0xFF)
__CPROVER_assigns()
__CPROVER_ensures(((c >= 0x20 && c <= 0x7E) || c == 0x09 || c == 0x0A || c == 0x0D) ==> __CPROVER_return_value)
__CPROVER_ensures(%s ==> !__CPROVER_return_value)
''' % forb

functions = []
jobs = []
for v in VALIDATORS:
    src = 'bool %s(Iterator p,Iterator e,size_t &count)' % v
    functions.append(dict(cname=v + '_byte', file=V, locate=lit(src), sig='bool %s_byte(unsigned c)' % v,
                          slice=dict(loop=0, after=r'unsigned c=\(unsigned char\)\*p\+\+;', tail=' return true; '),
                          rewrites=[(r'\bcontinue;', 'return true;', 1)],
                          contract=byte_contract(v.startswith('iso'))))
    functions.append(dict(cname=v, file=V, locate=lit(src), sig='bool %s(char const *p, char const *e, size_t *count)' % v,
                          refs=['count'], contract=TESTER_CONTRACT, loops={0: TESTER_INV},
                          loop_ghost={0: 'g_sb_prev = OFF(p);'}))
    jobs.append(dict(name=v + '_byte', props=P, enforce=v + '_byte',
                     harness='unsigned c; __CPROVER_assume(c <= 0xFF); WIT(0, c); %s_byte(c); VERIF_REACH;' % v,
                     witness=dict(vals=['c']), replay='c14:sb1:' + v))
    jobs.append(dict(name=v, props=P, enforce=v, unwind=257,
                     complete_note='the only unwound loop is the harness loop that fills the 256-entry ghost table (constant bound)',
                     harness=r'''
    for(unsigned c = 0; c < 256; c++) g_sb_acc[c] = %s_byte(c);   /* the table IS the loop body of this validator */
    SYM_BUF(char, buf, n, BUF_CAP);
    size_t cnt, k; __CPROVER_assume(cnt <= SIZE_MAX - BUF_CAP); g_sb_k = k;
    WIT_BUF(0, buf, n);
    %s(buf, buf + n, &cnt);
    VERIF_REACH;
''' % (v, v), witness=dict(bufs=['in']), replay='c14:sb:' + v))

# ---------------------------------------------------------------- src/encoding.cpp
u8 = {f['cname']: f for f in U8.UNIT['functions']}
functions += [u8['utf_valid'], u8['utf8_is_trail'], u8['utf8_trail_length'], u8['utf8_width'], u8['utf8_next']]

SINK_STUBS = [
    dict(stub=True, cname='sb_tester', sig='bool sb_tester(char const *p, char const *e, size_t *count)', refs=['count'], contract=TESTER_CONTRACT),
    dict(stub=True, cname='snk_reset', sig='void snk_reset(void)', contract='__CPROVER_assigns(snk_touched, snk_was_reset)\n__CPROVER_ensures(snk_was_reset && snk_touched)'),
    # output += <byte accepted by the tester on its own>
    dict(stub=True, cname='snk_put_acc', sig='void snk_put_acc(char c)',
         contract='__CPROVER_requires(snk_was_reset && g_sb_acc[(unsigned char)c])\n__CPROVER_assigns(snk_touched)\n__CPROVER_ensures(snk_touched)'),
    dict(stub=True, cname='snk_put_repl_sb', sig='void snk_put_repl_sb(char c)',
         contract='__CPROVER_requires(snk_was_reset && g_sb_acc[(unsigned char)c])\n__CPROVER_assigns(snk_touched)\n__CPROVER_ensures(snk_touched)'),
    # output.append(b,e) where [b,e) is one accepted HTML-safe UTF-8 sequence
    dict(stub=True, cname='snk_append_seq', sig='void snk_append_seq(char const *b, char const *e)',
         contract='__CPROVER_requires(snk_was_reset && VALID_RANGE(b, e) && spec_u8_seq_ok(b, OFF(e) - OFF(b), true) && spec_u8_len(b, OFF(e) - OFF(b)) == OFF(e) - OFF(b))\n'
                  '__CPROVER_assigns(snk_touched)\n__CPROVER_ensures(snk_touched)'),
    # output.append(b,e) where [b,e) is tiled by accepted sequences (ghost index form, as established by the scanning loop)
    dict(stub=True, cname='snk_append_tiled', sig='void snk_append_tiled(char const *b, char const *e)',
         contract='__CPROVER_requires(snk_was_reset && VALID_RANGE(b, e))\n'
                  '__CPROVER_requires(g_u8_k < OFF(e) - OFF(b) ==> (g_u8_found && g_u8_slen <= 4 && OFF(b) <= g_u8_s && g_u8_s <= OFF(b) + g_u8_k && '
                  'OFF(b) + g_u8_k < g_u8_s + g_u8_slen && g_u8_s + g_u8_slen <= OFF(e) && '
                  'spec_u8_seq_ok(b + (g_u8_s - OFF(b)), OFF(e) - g_u8_s, true) && spec_u8_len(b + (g_u8_s - OFF(b)), OFF(e) - g_u8_s) == g_u8_slen))\n'
                  '__CPROVER_assigns(snk_touched)\n__CPROVER_ensures(snk_touched)'),
    # output += replace  (UTF-8 filter): replace is an HTML-safe ASCII character
    dict(stub=True, cname='snk_put_repl_u8', sig='void snk_put_repl_u8(char c)',
         contract='__CPROVER_requires(snk_was_reset && (unsigned char)c <= 0x7F && SPEC_HTML_OK((unsigned char)c))\n__CPROVER_assigns(snk_touched)\n__CPROVER_ensures(snk_touched)'),
]
functions += SINK_STUBS

FILTER_U8_LOOP0 = r'''
__CPROVER_assigns(ptr, prev, valid, g_u8_prev, g_u8_plen, g_u8_found, g_u8_s, g_u8_slen)
__CPROVER_loop_invariant(valid && IN_RANGE(ptr, begin, end) && IN_RANGE(prev, begin, ptr))
__CPROVER_loop_invariant(g_u8_k < OFF(ptr) - OFF(begin) ==> g_u8_found)
__CPROVER_loop_invariant(g_u8_found ==> (g_u8_slen <= 4 && g_u8_k <= BUF_CAP && OFF(begin) <= g_u8_s && g_u8_s <= OFF(ptr) && g_u8_s <= OFF(begin) + g_u8_k &&
    OFF(begin) + g_u8_k < g_u8_s + g_u8_slen && g_u8_s + g_u8_slen <= OFF(ptr) &&
    SPEC_U8_SEQ_OK_M(begin + (g_u8_s - OFF(begin)), OFF(end) - g_u8_s, true) &&
    SPEC_U8_LEN_M(begin + (g_u8_s - OFF(begin)), OFF(end) - g_u8_s) == g_u8_slen))
__CPROVER_decreases(OFF(end) - OFF(ptr))
'''
FILTER_U8_LOOP1 = r'''
__CPROVER_assigns(ptr, prev, snk_touched)
__CPROVER_loop_invariant(IN_RANGE(ptr, begin, end) && IN_RANGE(prev, begin, ptr) && snk_was_reset)
__CPROVER_decreases(OFF(end) - OFF(ptr))
'''
TILE_FACT = ('(g_u8_found && g_u8_slen <= 4 && OFF(begin) <= g_u8_s && g_u8_s <= OFF(begin) + g_u8_k && OFF(begin) + g_u8_k < g_u8_s + g_u8_slen && '
             'g_u8_s + g_u8_slen <= LIM && spec_u8_seq_ok(begin + (g_u8_s - OFF(begin)), OFF(end) - g_u8_s, true) && '
             'spec_u8_len(begin + (g_u8_s - OFF(begin)), OFF(end) - g_u8_s) == g_u8_slen)')
functions.append(dict(
    cname='enc_validate_or_filter_utf8', file=E,
    locate=lit('bool validate_or_filter_utf8(char const *begin,char const *end,std::string &output,char replace)'),
    sig='bool enc_validate_or_filter_utf8(char const *begin, char const *end, char replace)',
    rename={'valid': 'valid'},   # the local flag, not utf::valid
    rewrites=[(r'output\.clear\(\);', 'snk_reset();', 1),
              (r'output\.reserve\(end - begin\);', '', 1),
              (r'output\.append\(begin,prev\);', 'snk_append_tiled(begin,prev);', 1),
              (r'output\.append\(prev,ptr\);', 'snk_append_seq(prev,ptr);', 1),
              (r'output\+=replace;', 'snk_put_repl_u8(replace);', 2)],
    body_ghost='g_u8_base = OFF(begin); g_u8_prev = OFF(begin); g_u8_plen = 0; g_u8_found = 0; g_u8_s = 0; g_u8_slen = 0;',
    loop_ghost={0: 'g_u8_prev = OFF(ptr); g_u8_plen = SPEC_U8_LEN_M(REBASE(ptr, end), OFF(end) - OFF(ptr)); '
                   'if(!g_u8_found && g_u8_prev <= g_u8_base + g_u8_k && g_u8_base + g_u8_k < g_u8_prev + g_u8_plen) '
                   '{ g_u8_found = 1; g_u8_s = g_u8_prev; g_u8_slen = g_u8_plen; }'},
    loops={0: FILTER_U8_LOOP0, 1: FILTER_U8_LOOP1},
    contract=r'''
__CPROVER_requires(VALID_RANGE(begin, end) && OFF(end) - OFF(begin) <= BUF_CAP)
/* the replacement character is absent or itself HTML-safe ASCII (otherwise "filtered text is valid" cannot hold) */
__CPROVER_requires(replace == 0 || ((unsigned char)replace <= 0x7F && SPEC_HTML_OK((unsigned char)replace)))
__CPROVER_assigns(snk_touched, snk_was_reset, g_u8_base, g_u8_prev, g_u8_plen, g_u8_found, g_u8_s, g_u8_slen)
/* valid text: accepted, output untouched, and every byte lies in an accepted sequence */
__CPROVER_ensures(__CPROVER_return_value ==> snk_touched == __CPROVER_old(snk_touched))
__CPROVER_ensures(__CPROVER_return_value ==> (g_u8_k < OFF(end) - OFF(begin) ==> ''' + TILE_FACT.replace('LIM', 'OFF(end)') + r'''))
/* invalid text: rejected only if some position (g_u8_prev) starts no accepted sequence while everything before it is tiled */
__CPROVER_ensures(!__CPROVER_return_value ==> (OFF(begin) <= g_u8_prev && g_u8_prev < OFF(end) &&
     !spec_u8_seq_ok(begin + (g_u8_prev - OFF(begin)), OFF(end) - g_u8_prev, true) &&
     (g_u8_k < g_u8_prev - OFF(begin) ==> ''' + TILE_FACT.replace('LIM', 'g_u8_prev') + r''')))
/* ... and then the output was rebuilt from scratch; each appended chunk satisfied its stub precondition
   (accepted sequence / tiled prefix / safe replacement), so the output is a concatenation of accepted sequences */
__CPROVER_ensures(!__CPROVER_return_value ==> snk_was_reset)
'''))

functions.append(dict(
    cname='enc_validate_or_filter_sb', file=E,
    locate=r'bool validate_or_filter_single_byte_charset\(\s*impl::validators_set::encoding_tester_type tester,\s*char const \*begin,\s*char const \*end,\s*std::string &output,\s*char repl\)',
    sig='bool enc_validate_or_filter_sb(char const *begin, char const *end, char repl)',
    rewrites=[(r'\btester\(', 'sb_tester(', 2),
              (r'output\.clear\(\);', 'snk_reset();', 1),
              (r'output\.reserve\(end - begin\);', '', 1),
              (r'output\+=\*p;', 'snk_put_acc(*p);', 1),
              (r'output\+=repl;', 'snk_put_repl_sb(repl);', 1)],
    loops={0: r'''
__CPROVER_assigns(p, snk_touched, g_sb_prev)
__CPROVER_loop_invariant(IN_RANGE(p, begin, end) && snk_was_reset)
__CPROVER_decreases(OFF(end) - OFF(p))
'''},
    contract=r'''
__CPROVER_requires(VALID_RANGE(begin, end) && OFF(end) - OFF(begin) <= BUF_CAP)
__CPROVER_requires(repl == 0 || g_sb_acc[(unsigned char)repl])
__CPROVER_assigns(snk_touched, snk_was_reset, g_sb_prev)
__CPROVER_ensures(__CPROVER_return_value ==> snk_touched == __CPROVER_old(snk_touched))
__CPROVER_ensures(__CPROVER_return_value ==> (g_sb_k < OFF(end) - OFF(begin) ==> g_sb_acc[(unsigned char)begin[g_sb_k]]))
__CPROVER_ensures(!__CPROVER_return_value ==> snk_was_reset)
'''))

# encodings_comparator::next : skips everything but [0-9a-zA-Z], folds case
functions.append(dict(
    cname='enc_cmp_next', file=E, locate=lit('static char next(char const *&p)'), sig='char enc_cmp_next(char const **p)', refs=['p'],
    loops={0: r'''
__CPROVER_assigns(*p)
__CPROVER_loop_invariant(SAME(*p, __CPROVER_loop_entry(*p)) && OFF(__CPROVER_loop_entry(*p)) <= OFF(*p) && OFF(*p) <= g_cmp_nul)
__CPROVER_decreases(g_cmp_nul - OFF(*p))
'''},
    contract=r'''
/* *p points into a NUL-terminated string whose terminator is at ghost offset g_cmp_nul */
__CPROVER_requires(__CPROVER_rw_ok(p, sizeof(*p)) && OFF(*p) <= g_cmp_nul && g_cmp_nul < BUF_CAP && __CPROVER_r_ok(*p, g_cmp_nul - OFF(*p) + 1) &&
                   (*p)[g_cmp_nul - OFF(*p)] == 0)
__CPROVER_assigns(*p)
/* result is 0 (end) or a normalised character [0-9a-z]; the cursor stays inside the string */
__CPROVER_ensures(__CPROVER_return_value == 0 || (__CPROVER_return_value >= '0' && __CPROVER_return_value <= '9') ||
                  (__CPROVER_return_value >= 'a' && __CPROVER_return_value <= 'z'))
__CPROVER_ensures(SAME(*p, __CPROVER_old(*p)) && OFF(__CPROVER_old(*p)) <= OFF(*p) && OFF(*p) <= g_cmp_nul)
__CPROVER_ensures(__CPROVER_return_value != 0 ==> (OFF(*p) > OFF(__CPROVER_old(*p)) &&
                  (__CPROVER_return_value == (*p)[-1] || __CPROVER_return_value == (*p)[-1] - 'A' + 'a')))
'''))

jobs += [
    dict(name='enc_validate_or_filter_utf8_bounded', props=P, enforce='enc_validate_or_filter_utf8', bounded=True, loop_contracts=False, pre_unwind=8, object_bits=10,
         bound_note='input length <= 6 bytes, all contents, both loops fully unwound (unwinding assertions on); same contract, utf8::next inlined with its real body',
         replace=['snk_reset', 'snk_append_seq', 'snk_append_tiled', 'snk_put_repl_u8'], timeout=600, cost=5,
         harness=r'''
    size_t n; __CPROVER_assume(n <= 6);
    char *buf = malloc(n); __CPROVER_assume(buf != NULL);
    size_t k; g_u8_k = k; char repl; bool touched; snk_touched = touched;
    WIT_BUF(0, buf, n); WIT(0, repl);
    enc_validate_or_filter_utf8(buf, buf + n, repl);
    VERIF_REACH;
''', witness=dict(bufs=['in'], vals=['repl']), replay='c14enc:filter_utf8', replay_link=['-L{BUILD}/booster', '-lbooster']),
    dict(name='enc_validate_or_filter_utf8', props=P, enforce='enc_validate_or_filter_utf8', tier='thorough', optional=True,
         replace=['utf8_next', 'snk_reset', 'snk_append_seq', 'snk_append_tiled', 'snk_put_repl_u8'], timeout=400, cost=10, object_bits=10,
         harness=r'''
    SYM_BUF(char, buf, n, BUF_CAP);
    size_t k; g_u8_k = k; char repl; bool touched; snk_touched = touched;
    WIT_BUF(0, buf, n); WIT(0, repl);
    enc_validate_or_filter_utf8(buf, buf + n, repl);
    VERIF_REACH;
''', witness=dict(bufs=['in'], vals=['repl']), replay='c14enc:filter_utf8', replay_link=['-L{BUILD}/booster', '-lbooster']),
    dict(name='enc_validate_or_filter_sb', props=P, enforce='enc_validate_or_filter_sb',
         replace=['sb_tester', 'snk_reset', 'snk_put_acc', 'snk_put_repl_sb'],
         harness=r'''
    SYM_BUF(char, buf, n, BUF_CAP);
    size_t k; g_sb_k = k; char repl; bool touched; snk_touched = touched;
    bool acc[256]; __CPROVER_array_copy(g_sb_acc, acc);     /* arbitrary per-byte table */
    WIT_BUF(0, buf, n); WIT(0, repl);
    enc_validate_or_filter_sb(buf, buf + n, repl);
    VERIF_REACH;
''', witness=dict(bufs=['in'], vals=['repl']), replay='c14enc:filter_sb:latin1', replay_link=['-L{BUILD}/booster', '-lbooster']),
    dict(name='enc_cmp_next', props=P, enforce='enc_cmp_next',
         harness=r'''
    SYM_BUF(char, buf, n, BUF_CAP);
    size_t off, nul; __CPROVER_assume(off <= nul && nul < n && buf[nul] == 0);
    g_cmp_nul = nul;
    char const *p = buf + off;
    enc_cmp_next(&p);
    VERIF_REACH;
'''),
]

UNIT = dict(
    name='encoding',
    includes=['utf8_spec.h'],
    pre=U8.UNIT['pre'] + r'''
bool g_sb_acc[256]; size_t g_sb_k, g_sb_prev;       /* ghosts of the single-byte testers */
bool snk_touched; bool snk_was_reset;               /* ghost sink for std::string output (R7) */
size_t g_cmp_nul;
''',
    regions=U8.UNIT['regions'],
    rename=U8.UNIT['rename'],
    functions=functions,
    jobs=jobs,
    trusted=['encoding: std::string output is modelled as an append-only sink; every append site is a stub whose precondition states what the appended chunk must be (R7)',
             'encoding: the tester function pointer of validate_or_filter_single_byte_charset is replaced by a stub with the generic tester contract that each of the 17 validators is proved to satisfy (R10)',
             'encoding: std::map dispatch by encoding name (validators_set) is not verified; windows_1254_valid is defined but not registered (observation)'],
    not_covered={'C14': ['validate_or_filter(): iconv/ICU conversion branch', 'encodings_comparator::operator() strict-weak-order property (only next() is under contract)']},
)
