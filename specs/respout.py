# Unit "respout" -- the output side of a connection: pending-output bookkeeping of src/cgi_api.cpp (write / nonblocking_write /
# append_pending), FastCGI STDOUT record framing (src/fastcgi_api.cpp format_output, prepare_eof), HTTP chunked framing
# (src/http_api.cpp make_chunked_wrapper) and the "headers once" prefix of SCGI.  Serves C03.
import sys, os
sys.path.insert(0, os.path.join(os.path.dirname(os.path.abspath(__file__)), '..', 'tools'))
from cxx2c import lit

C = 'src/cgi_api.cpp'; F = 'src/fastcgi_api.cpp'; H = 'src/http_api.cpp'; S = 'src/scgi_api.cpp'
P = ['C03']

PRE = r'''
#include <arpa/inet.h>
/* ---- abstract booster::aio::const_buffer for the bookkeeping functions -------------------------------------------------
 * Let U = (bytes of pending_output_ at entry) ++ (bytes format_output returned).  Every const_buffer value the code handles
 * denotes a contiguous piece U[src, src+n); concatenation (operator+) is only ever applied to adjacent pieces and
 * operator+(size_t) drops a prefix -- both asserted in the models below.  pending_output_ holds U[pend_src, pend_src+pend_n). */
struct cbuf { size_t n; size_t src; };
struct conn { size_t pend_n; size_t pend_src; };
size_t g_new_n; int g_fmt_err, g_nb_err, g_ws_err; bool g_wb;
int g_ws_calls; size_t g_ws_src, g_ws_offered, g_ws_n, g_ws_pick; bool g_wr_ok;
static struct cbuf format_output_abs(struct conn *self, int *e) { struct cbuf r = { g_new_n, self->pend_src + self->pend_n }; if(g_fmt_err) *e = g_fmt_err; return r; }
static struct cbuf cb_of_pending(struct conn *self) { struct cbuf r = { self->pend_n, self->pend_src }; return r; }
static struct cbuf cb_cat(struct cbuf a, struct cbuf b) { __CPROVER_assert(b.src == a.src + a.n, "operator+ joins adjacent pieces of the output stream, in order"); struct cbuf r = { a.n + b.n, a.src }; return r; }
static struct cbuf cb_advance(struct cbuf a, size_t k) { __CPROVER_assert(k <= a.n, "operator+(n): n does not exceed the buffer"); struct cbuf r = { a.n - k, a.src + k }; return r; }
static void sock_set_nb(int *e) { if(g_nb_err) *e = g_nb_err; }
/* stream_socket::write_some: accepts ANY prefix (possibly nothing) and may report an error or would-block */
static size_t sock_write_some(struct cbuf out, int *e)
{
  g_ws_calls++; g_ws_src = out.src; g_ws_offered = out.n;
  size_t k = g_ws_pick; __CPROVER_assume(k <= out.n); g_ws_n = k;
  if(g_ws_err) *e = g_ws_err;
  return k;
}
/* stream_socket::write (blocking): everything or failure */
static bool sock_write_all(struct cbuf out, int *e) { g_ws_calls++; g_ws_src = out.src; g_ws_offered = out.n; g_ws_n = g_wr_ok ? out.n : 0; if(!g_wr_ok) *e = 1; return g_wr_ok; }
static bool sock_would_block(int e) { return g_wb; }
static void pend_clear(struct conn *self) { self->pend_n = 0; }
static void pend_swap(struct conn *self, struct conn *tmp) { struct conn t = *self; *self = *tmp; *tmp = t; }
/* connection::append_pending in this vocabulary (its byte-level contract is job conn_append_pending): the piece is appended after what is pending */
static void append_pending_abs(struct conn *self, struct cbuf x)
{
  if(self->pend_n == 0) self->pend_src = x.src;
  __CPROVER_assert(x.src == self->pend_src + self->pend_n, "append_pending keeps pending_output_ a contiguous piece of the output stream");
  self->pend_n += x.n;
}

size_t g_c, g_o, g_mk;
/* ---- FastCGI output side */
@@REGION:fcgi_header@@
@@REGION:fcgi_enum@@
@@REGION:fcgi_enum4@@
@@REGION:fcgi_end_request_body@@
struct eof_str { struct fcgi_header headers_[2]; struct fcgi_end_request_body record_; };
struct chunks;
struct fcgi_out { struct fcgi_header header_, full_header_; struct eof_str eof_; int request_id_; bool response_headers_written_; struct chunks const *hdr_plus_input; };
/* the const_buffer under construction (packet += buffer(p,n)): total length, and for ONE arbitrary output position g_pos the ADDRESS that will
   be read when the packet is sent (the bytes are read at send time, not when the chunk is added: headers are observed after the call) */
size_t out_len, g_pos; bool g_pos_seen; char const *g_pos_ptr; bool g_hdr_used; size_t g_rec;
static void out_reset(void) { out_len = 0; g_pos_seen = 0; }
static void out_add(void const *p, size_t n)
{
  if(n == 0) return;                                   /* buffer_impl::add ignores empty chunks */
  if(g_pos >= out_len && g_pos - out_len < n) { g_pos_seen = 1; g_pos_ptr = (char const *)p + (g_pos - out_len); }
  out_len += n;
}
static struct chunks const *fcgi_headers_plus(struct fcgi_out *self, struct chunks const *input) { g_hdr_used = 1; return self->hdr_plus_input; }
/* record geometry: a full record is 8 + 65535 + 1 bytes; T bytes of content make (T-1)/65535 full records and one last record of 1..65535 bytes */
#define FREC 65544u
#define FCON 65535u
/* division-free: the harness fixes the decomposition T = FCON*g_nfull + g_last (1 <= g_last <= FCON for T > 0) and g_pos = FREC*g_gr + g_go (g_go < FREC); both are unique */
uint32_t g_nfull, g_last, g_gr, g_go;
#define DECOMP(T) ((T) == 0 ? (g_nfull == 0 && g_last == 0) : (g_nfull <= 15 && g_last >= 1 && g_last <= FCON && (T) == (size_t)FCON * g_nfull + g_last))
#define NFULL(T) g_nfull
#define RLEN(T, r) ((uint32_t)(r) < g_nfull ? FCON : g_last)
#define PADL(L) ((8u - (uint32_t)(L) % 8u) % 8u)
#define BODYLEN(T) ((T) == 0 ? 0u : NFULL(T) * FREC + 8u + RLEN(T, NFULL(T)) + PADL(RLEN(T, NFULL(T))))
/* which list was formatted and its length, seen from the postcondition (the flag has been set by then: g_hdr_used tells) */
#define IN_OF(self, input) (g_hdr_used ? (self)->hdr_plus_input : (input))
#define T_OF(self, input) (IN_OF(self, input)->pre[IN_OF(self, input)->n])
/* where the byte at output position g_pos must come from.  For a content position the harness chose (g_c,g_o) as the chunk/offset of that content byte */
#define G_R g_gr
#define G_O g_go
#define EXPECT_PTR(self, in, T) (G_O < 8 ? ((G_R < NFULL(T) ? (char const *)&(self)->full_header_ : (char const *)&(self)->header_) + G_O) : \
     G_O < 8 + RLEN(T, G_R) ? (in)->e[g_c].ptr + g_o : pad + (G_O - 8 - RLEN(T, G_R)))
#define OBS_PRE(in) (g_pos <= 2 * BUF_CAP && DECOMP((in)->pre[(in)->n]) && g_go < FREC && g_gr <= 32 && g_pos == (size_t)FREC * g_gr + g_go && ((g_pos < BODYLEN((in)->pre[(in)->n]) && G_O >= 8 && G_O < 8 + RLEN((in)->pre[(in)->n], G_R)) ==> \
     (g_c < (in)->n && (in)->pre[g_c] <= (in)->pre[g_c + 1] && (in)->pre[g_c + 1] - (in)->pre[g_c] == (in)->e[g_c].size && (in)->pre[g_c + 1] <= (in)->pre[(in)->n] && \
      g_o < (in)->e[g_c].size && (in)->pre[g_c] + g_o == (size_t)FCON * G_R + (G_O - 8))))
#define OBS_OK(self, in, T) (g_pos_seen == (g_pos < out_len) && (g_pos_seen ==> g_pos_ptr == EXPECT_PTR(self, in, T)))
#define SWAP16(x) ((uint16_t)((((uint16_t)(x)) >> 8) | (((uint16_t)(x)) << 8)))
#define FULLHDR_OK(self) ((self)->full_header_.version == 1 && (self)->full_header_.type == fcgi_stdout && (self)->full_header_.request_id == SWAP16((self)->request_id_) && \
     (self)->full_header_.content_length == SWAP16(FCON) && (self)->full_header_.padding_length == 1 && (self)->full_header_.reserved == 0)
#define LASTHDR_OK(self, T) ((self)->header_.version == 1 && (self)->header_.type == fcgi_stdout && (self)->header_.request_id == SWAP16((self)->request_id_) && \
     (self)->header_.content_length == SWAP16(RLEN(T, NFULL(T))) && (self)->header_.padding_length == PADL(RLEN(T, NFULL(T))) && (self)->header_.reserved == 0)
/* ---- HTTP chunked wrapper / SCGI prefix: the returned const_buffer as a short sequence of pieces */
enum { PC_none, PC_in, PC_hdr, PC_lit };
struct http_out { size_t hdr_hex_of; bool hdr_set; bool headers_written_; };
int g_pc_n; int g_pc_kind[4]; char const *g_lit_p; size_t g_lit_n;
static void pc_add(int kind) { __CPROVER_assert(g_pc_n < 4, "at most four pieces"); g_pc_kind[g_pc_n] = kind; g_pc_n++; }
static void pc_lit(char const *p, size_t n) { __CPROVER_assert(__CPROVER_r_ok(p, n), "buffer(literal,n): n bytes of the literal are readable"); g_lit_p = p; g_lit_n = n; pc_add(PC_lit); }
/* chunked_header_ = hex(n) + CRLF via std::ostringstream << std::hex (library formatting assumed: lower-case hexadecimal, no prefix) */
static void hdr_set_hex_crlf(struct http_out *self, size_t n) { self->hdr_hex_of = n; self->hdr_set = 1; }
/* ---- HTTP format_output: mode selection and the lines it appends to the header block (recorder keyed on the literal's text) */
#define CPPCMS_PACKAGE_VERSION "x"
enum { PC_chunked = 7 };
struct http_fmt { bool headers_done_, chunked_te_, client_accepts_keep_alive_, error_state_, is_http_11_, keep_alive_, rh_empty; long long output_content_length_, output_written_; };
int g_h_server, g_h_cl, g_h_ka, g_h_close, g_h_te, g_h_end, g_h_num, g_h_other, g_h_seq_end; unsigned long long g_fmt_num; extern bool g_after_num;
static void rh_lit(char const *p)
{
  __CPROVER_assert(g_h_end == 0, "nothing is appended after the empty line that ends the header block");
  if(p[0] == 'S' && p[1] == 'e') g_h_server++;
  else if(p[0] == 'C' && p[1] == 'o' && p[2] == 'n' && p[3] == 't') g_h_cl++;                    /* "Content-Length: " */
  else if(p[0] == 'C' && p[1] == 'o' && p[2] == 'n' && p[3] == 'n' && p[12] == 'k') g_h_ka++;      /* "Connection: keep-alive\r\n" */
  else if(p[0] == 'C' && p[1] == 'o' && p[2] == 'n' && p[3] == 'n' && p[12] == 'c') g_h_close++;   /* "Connection: close\r\n" */
  else if(p[0] == 'T' && p[1] == 'r') g_h_te++;                                                   /* "Transfer-Encoding: chunked\r\n" */
  else if(p[0] == '\r' && p[1] == '\n' && p[2] == 0) { if(g_after_num) { /* the CRLF that ends the Content-Length line */ } else g_h_end++; }
  else g_h_other++;
  g_after_num = 0;
}
/* the CRLF after the Content-Length number is the same literal as the end-of-headers line: told apart by position (right after the number) */
bool g_after_num;
static void rh_buf(char const *buf) { g_h_num++; g_after_num = 1; }
static void format_number_rec(size_t v, char *buf, size_t n) { g_fmt_num = v; }
/* set_response_headers(dummy): no Content-Length header -> length unknown, nothing written yet; keep-alive wish from the request */
static void set_response_headers_dummy(struct http_fmt *self) { self->output_content_length_ = -1; self->output_written_ = 0; int k; self->client_accepts_keep_alive_ = k != 0; self->rh_empty = 0; }
/* ---- concrete chunk lists (const_buffer::get()): entries + ghost prefix-sum table; buffer_impl::add never stores an empty chunk */
struct entry { char const *ptr; size_t size; };
struct chunks { struct entry *e; size_t n; size_t *pre; };
#define CHUNKS_OK(c) ((c)->n <= 1000 && __CPROVER_r_ok((c)->e, (c)->n * sizeof(struct entry)) && __CPROVER_r_ok((c)->pre, ((c)->n + 1) * sizeof(size_t)) && (c)->pre[0] == 0 && (c)->pre[(c)->n] <= BUF_CAP)
/* the facts about entry i a walk may use (not a restriction: definition of the prefix table, chunks are non-empty readable ranges) */
static struct entry const *chunk_at(struct chunks const *c, size_t i);
/* the walking entry pointer `chunks` is shadowed by the ghost index g_ci (chunks == list + g_ci, asserted at every use) */
size_t g_ci;
static struct entry const *chunk_cur(struct chunks const *c, struct entry const *p)
{
  __CPROVER_assert(p == c->e + g_ci, "entry pointer walks the list returned by get()");
  return chunk_at(c, g_ci);
}
/* `chunks++`: the next entry of the list; like every entry it is non-empty (buffer_impl::add) */
static struct entry const *chunk_next(struct chunks const *c, struct entry const *p)
{
  g_ci++;
  if(g_ci < c->n) __CPROVER_assume(c->e[g_ci].size >= 1);
  return p + 1;
}
static struct entry const *chunk_at(struct chunks const *c, size_t i)
{
  __CPROVER_assert(i < c->n, "chunk index inside the list returned by get()");
  __CPROVER_assume(c->e[i].size >= 1 && c->pre[i] <= c->pre[i + 1] && c->pre[i + 1] - c->pre[i] == c->e[i].size && c->pre[i + 1] <= c->pre[c->n] &&
                    /* monotonicity of the prefix sums, instantiated for the observed chunk g_c */
                    (g_c < c->n ==> ((i < g_c ==> c->pre[i + 1] <= c->pre[g_c]) && (i > g_c ==> c->pre[i] >= c->pre[g_c + 1]))));
  return &c->e[i];
}
/* std::vector<char> pending_output_ at byte level: logical size + a write observer.  The content after the call is observed at ONE
 * arbitrary position g_mpos; writes must be laid out back to back starting at the old size (asserted), so the byte observed is final and
 * the old content is never overwritten. */
struct pvec { size_t n; };
size_t g_mpos, g_wr_end; bool g_m_seen; char g_m_val;
static void pvec_resize(struct pvec *v, size_t n) { __CPROVER_assert(n <= 2 * BUF_CAP, "model capacity"); v->n = n; }
static void pvec_write(struct pvec *v, size_t pos, char const *src, size_t n)
{
  __CPROVER_assert(n <= v->n && pos <= v->n - n, "memcpy target [pos,pos+n) lies inside the resized vector");
  __CPROVER_assert(pos == g_wr_end, "chunks are copied back to back behind the old content");
  /* source readability is the chunk-list invariant of const_buffer (every entry denotes a live range), assumed in chunk_at */
  if(g_mpos >= pos && g_mpos - pos < n) { g_m_seen = 1; g_m_val = src[g_mpos - pos]; }
  g_wr_end = pos + n;
}
'''

functions = [
    dict(stub=True, cname='verif_memcpy', sig='void *verif_memcpy(void *dst, void const *src, size_t n)',
         contract='/* C11 7.24.2.1 memcpy, observed at the arbitrary index g_mk */\n'
                  '__CPROVER_requires(n <= BUF_CAP && __CPROVER_w_ok(dst, n) && __CPROVER_r_ok(src, n))\n__CPROVER_assigns(__CPROVER_object_upto(dst, n))\n'
                  '__CPROVER_ensures(g_mk < n ==> ((char *)dst)[g_mk] == ((char const *)src)[g_mk])'),
    # ---------------- pending-output bookkeeping
    dict(cname='conn_nonblocking_write', file=C, locate=lit('bool connection::nonblocking_write(booster::aio::const_buffer const &buf,bool eof,booster::system::error_code &e)'),
         sig='bool conn_nonblocking_write(struct conn *self, int *e)', refs=['e'],
         rewrites=[(r'booster::aio::const_buffer new_data = format_output\(buf,eof,e\);', 'struct cbuf new_data = format_output_abs(self, &e);', 1),
                   (r'booster::aio::const_buffer output = pending_output_\.empty\(\) \? new_data : \(booster::aio::buffer\(pending_output_\) \+ new_data\);',
                    'struct cbuf output = (self->pend_n == 0) ? new_data : cb_cat(cb_of_pending(self), new_data);', 1),
                   (r'output\.empty\(\)', '(output.n == 0)', 1), (r'socket\(\)\.set_non_blocking_if_needed\(true,e\)', 'sock_set_nb(&e)', 1),
                   (r'socket\(\)\.write_some\(output,e\)', 'sock_write_some(output, &e)', 1), (r'(output|new_data)\.bytes_count\(\)', r'\1.n', 1),
                   (r'pending_output_\.clear\(\)', 'pend_clear(self)', 1), (r'append_pending\((\w+)\)', r'append_pending_abs(self, \1)', 0),
                   (r'std::vector<char> tmp;', 'struct conn tmp = {0, 0};', 0), (r'pending_output_\.swap\(tmp\)', 'pend_swap(self, &tmp)', 0),
                   (r'append_pending\((\w+) \+ (\w+)\)', r'append_pending_abs(self, cb_advance(\1, \2))', 0), (r'socket\(\)\.would_block\(e\)', 'sock_would_block(e)', 1),
                   (r'e=booster::system::error_code\(\);', 'e = 0;', 1)],
         contract=r'''
__CPROVER_requires(__CPROVER_rw_ok(self, sizeof(*self)) && __CPROVER_rw_ok(e, sizeof(*e)) && *e == 0 && self->pend_src == 0 && self->pend_n <= BUF_CAP && g_new_n <= BUF_CAP && g_ws_calls == 0)
__CPROVER_assigns(*self, *e, g_ws_calls, g_ws_src, g_ws_offered, g_ws_n)
/* U = pending ++ formatted new data.  Whatever prefix of U the socket accepted (none, some, all; with or without an error / would-block):
   the socket was offered ALL of U from its first byte, and what stays pending is exactly the rest of U -- nothing lost, duplicated or reordered */
__CPROVER_ensures((g_fmt_err == 0 && g_nb_err == 0 && __CPROVER_old(self->pend_n) + g_new_n > 0) ==>
     (g_ws_calls == 1 && g_ws_src == 0 && g_ws_offered == __CPROVER_old(self->pend_n) + g_new_n &&
      self->pend_n == g_ws_offered - g_ws_n && (self->pend_n > 0 ==> self->pend_src == g_ws_n) &&
      __CPROVER_return_value == (g_ws_n == g_ws_offered)))
/* nothing to send: success without touching the socket */
__CPROVER_ensures((g_fmt_err == 0 && __CPROVER_old(self->pend_n) + g_new_n == 0) ==> (__CPROVER_return_value && g_ws_calls == 0 && self->pend_n == 0))
/* would-block is not an error for the caller; a real error is reported */
__CPROVER_ensures((g_fmt_err == 0 && g_nb_err == 0 && !__CPROVER_return_value) ==> (*e == ((g_ws_err && g_wb) ? 0 : g_ws_err)))
__CPROVER_ensures(g_fmt_err != 0 ==> (!__CPROVER_return_value && g_ws_calls == 0 && self->pend_n == __CPROVER_old(self->pend_n)))
'''),
    dict(cname='conn_write', file=C, locate=lit('bool connection::write(booster::aio::const_buffer const &buf,bool eof,booster::system::error_code &e)'),
         sig='bool conn_write(struct conn *self, int *e)', refs=['e'],
         rewrites=[(r'booster::aio::const_buffer new_data = format_output\(buf,eof,e\);', 'struct cbuf new_data = format_output_abs(self, &e);', 1),
                   (r'booster::aio::const_buffer output = pending_output_\.empty\(\) \? new_data : \(booster::aio::buffer\(pending_output_\) \+ new_data\);',
                    'struct cbuf output = (self->pend_n == 0) ? new_data : cb_cat(cb_of_pending(self), new_data);', 1),
                   (r'output\.empty\(\)', '(output.n == 0)', 1), (r'socket\(\)\.set_non_blocking_if_needed\(false,e\)', 'sock_set_nb(&e)', 1),
                   (r'write_to_socket\(output,e\)', 'sock_write_all(output, &e)', 1), (r'pending_output_\.clear\(\)', 'pend_clear(self)', 1)],
         contract=r'''
__CPROVER_requires(__CPROVER_rw_ok(self, sizeof(*self)) && __CPROVER_rw_ok(e, sizeof(*e)) && *e == 0 && self->pend_src == 0 && self->pend_n <= BUF_CAP && g_new_n <= BUF_CAP && g_ws_calls == 0)
__CPROVER_assigns(*self, *e, g_ws_calls, g_ws_src, g_ws_offered, g_ws_n)
/* blocking write: pending ++ new data offered to the socket as one piece, from the first byte; success exactly when the socket took all of it */
__CPROVER_ensures((g_fmt_err == 0 && g_nb_err == 0 && __CPROVER_old(self->pend_n) + g_new_n > 0) ==>
     (g_ws_calls == 1 && g_ws_src == 0 && g_ws_offered == __CPROVER_old(self->pend_n) + g_new_n && self->pend_n == 0 && __CPROVER_return_value == g_wr_ok))
__CPROVER_ensures((g_fmt_err == 0 && __CPROVER_old(self->pend_n) + g_new_n == 0) ==> (__CPROVER_return_value && g_ws_calls == 0))
'''),
    dict(cname='conn_append_pending', file=C, locate=lit('void connection::append_pending(booster::aio::const_buffer const &new_data)'),
         sig='void conn_append_pending(struct pvec *pend, struct chunks const *new_data)',
         rewrites=[(r'pending_output_\.size\(\)', 'pend->n', 2), (r'pending_output_\.resize\(', 'pvec_resize(pend, ', 1), (r'new_data\.bytes_count\(\)', 'new_data->pre[new_data->n]', 1),
                   (r'std::pair<booster::aio::const_buffer::entry const \*,size_t> packets = new_data\.get\(\);', 'struct chunks const *packets = new_data;', 1),
                   (r'packets\.second', 'packets->n', 1), (r'memcpy\(&pending_output_\[pos\],', 'pvec_write(pend, pos, ', 1), (r'packets\.first\[i\]\.', 'chunk_at(packets, i)->', 3)],
         body_ghost='g_n0 = pend->n; g_wr_end = pend->n; g_m_seen = 0;',
         loops={0: r'''
__CPROVER_assigns(i, pos, g_wr_end, g_m_seen, g_m_val)
/* the i chunks copied so far sit back to back behind the old content; the byte at g_mpos, once written, is byte g_o of chunk g_c */
__CPROVER_loop_invariant(i <= packets->n && packets->pre[i] <= packets->pre[packets->n] && pos == g_n0 + packets->pre[i] && g_wr_end == pos && pend->n == g_n0 + packets->pre[packets->n] &&
      g_m_seen == (g_mpos >= g_n0 && g_mpos < pos) && (g_m_seen ==> g_m_val == packets->e[g_c].ptr[g_o]) &&
      (g_c < i ==> packets->pre[i] >= packets->pre[g_c] + packets->e[g_c].size))
__CPROVER_decreases(packets->n - i)'''},
         contract=r'''
/* (g_c, g_o) is the chunk/offset of the new byte that lands at g_mpos: g_mpos == old size + pre[g_c] + g_o */
__CPROVER_requires(__CPROVER_rw_ok(pend, sizeof(*pend)) && pend->n <= BUF_CAP && CHUNKS_OK(new_data) && g_c < new_data->n && new_data->e[g_c].size >= 1 && g_o < new_data->e[g_c].size &&
                   new_data->pre[g_c] <= new_data->pre[g_c + 1] && new_data->pre[g_c + 1] - new_data->pre[g_c] == new_data->e[g_c].size && new_data->pre[g_c + 1] <= new_data->pre[new_data->n] && __CPROVER_r_ok(new_data->e[g_c].ptr, new_data->e[g_c].size) &&
                   g_mpos == pend->n + new_data->pre[g_c] + g_o)
__CPROVER_assigns(pend->n, g_n0, g_wr_end, g_m_seen, g_m_val)
/* pending' = pending ++ chunk_0 ++ chunk_1 ++ ... : new length, every new position written exactly once in order, old bytes not touched, and the new byte at g_mpos is the right one */
__CPROVER_ensures(pend->n == g_n0 + new_data->pre[new_data->n] && g_wr_end == pend->n)
__CPROVER_ensures(g_m_seen)
__CPROVER_ensures(g_m_val == new_data->e[g_c].ptr[g_o])
'''),
    # ---------------- FastCGI STDOUT framing
    dict(cname='fcgi_header_to_net', file=F, locate=r'content_length = ntohs\(content_length\);\s*\}\s*void to_net\(\)', sig='void fcgi_header_to_net(struct fcgi_header *self)',
         members=['request_id', 'content_length'],
         contract='__CPROVER_requires(__CPROVER_rw_ok(self, sizeof(*self)))\n__CPROVER_assigns(self->request_id, self->content_length)\n'
                  '/* host to network (big endian) order of the two 16-bit fields */\n'
                  '__CPROVER_ensures(self->request_id == (uint16_t)((__CPROVER_old(self->request_id) >> 8) | (__CPROVER_old(self->request_id) << 8)) && '
                  'self->content_length == (uint16_t)((__CPROVER_old(self->content_length) >> 8) | (__CPROVER_old(self->content_length) << 8)))'),
    dict(cname='fcgi_end_request_body_to_net', file=F, locate=r'void to_host\(\) \{  app_status = ntohl\(app_status\); \}\s*void to_net\(\)', sig='void fcgi_end_request_body_to_net(struct fcgi_end_request_body *self)',
         members=['app_status'], contract='__CPROVER_requires(__CPROVER_rw_ok(self, sizeof(*self)))\n__CPROVER_assigns(self->app_status)\n__CPROVER_ensures(self->app_status == htonl(__CPROVER_old(self->app_status)))'),
    dict(cname='fcgi_prepare_eof', file=F, locate=lit('void prepare_eof()'), sig='void fcgi_prepare_eof(struct fcgi_out *self)', members=['eof_', 'request_id_'], self_arg='self',
         rewrites=[(r'(eof_\.headers_\[\w+\])\.to_net\(\);', r'fcgi_header_to_net(&\1);', 2), (r'eof_\.record_\.to_net\(\);', 'fcgi_end_request_body_to_net(&eof_.record_);', 1)],
         contract=r'''
__CPROVER_requires(__CPROVER_rw_ok(self, sizeof(*self)))
__CPROVER_assigns(self->eof_)
/* the 24 bytes that end a response: an empty STDOUT record and an END_REQUEST record (8-byte body: app status 0, REQUEST_COMPLETE), both for this request id, in network order */
__CPROVER_ensures(self->eof_.headers_[0].version == 1 && self->eof_.headers_[0].type == fcgi_stdout && self->eof_.headers_[0].request_id == htons((uint16_t)self->request_id_) &&
                  self->eof_.headers_[0].content_length == 0 && self->eof_.headers_[0].padding_length == 0 && self->eof_.headers_[0].reserved == 0)
__CPROVER_ensures(self->eof_.headers_[1].version == 1 && self->eof_.headers_[1].type == fcgi_end_request && self->eof_.headers_[1].request_id == htons((uint16_t)self->request_id_) &&
                  self->eof_.headers_[1].content_length == htons(8) && self->eof_.headers_[1].padding_length == 0 && self->eof_.headers_[1].reserved == 0)
__CPROVER_ensures(self->eof_.record_.app_status == 0 && self->eof_.record_.protocol_status == fcgi_request_complete &&
                  self->eof_.record_.reserved[0] == 0 && self->eof_.record_.reserved[1] == 0 && self->eof_.record_.reserved[2] == 0)
'''),
    dict(cname='fcgi_format_output', file=F, locate=lit('virtual booster::aio::const_buffer format_output(booster::aio::const_buffer const &input,bool completed,booster::system::error_code &)'),
         sig='void fcgi_format_output(struct fcgi_out *self, struct chunks const *input, bool completed)',
         members=['header_', 'full_header_', 'eof_', 'request_id_', 'response_headers_written_'], rename={'prepare_eof': 'fcgi_prepare_eof'}, self_arg='self',
         hoist=[r'static const char pad\[\w+\]=\{[^}]*\};', r'static const size_t max_packet_len = \w+;'],
         rewrites=[(r'booster::aio::const_buffer in;', 'struct chunks const *in;', 1), (r'in=booster::aio::buffer\(response_headers_\) \+ input;', 'in = fcgi_headers_plus(self, input);', 1),
                   (r'booster::aio::const_buffer packet;', 'out_reset();', 1), (r'booster::aio::const_buffer::entry const \*chunks = in\.get\(\)\.first;', 'struct entry const *chunks = in->e;', 1),
                   (r'in\.bytes_count\(\)', 'in->pre[in->n]', 1), (r'packet \+= io::buffer\(', 'out_add(', 5), (r'(\w+)\.to_net\(\);', r'fcgi_header_to_net(&\1);', 2),
                   (r'chunks->(size|ptr)', r'chunk_cur(in, chunks)->\1', 3), (r'chunks\+\+;', 'chunks = chunk_next(in, chunks);', 1), (r'return packet;', 'return;', 1)],
         loop_ghost={1: 'g_rec = g_rec + 1;'},
         body_ghost='g_rec = 0; g_hdr_used = 0; g_ci = 0;',
         loops={1: r'''
__CPROVER_assigns(reminder, chunks, chunk_consumed, out_len, g_pos_seen, g_pos_ptr, g_rec, g_ci, self->header_, self->full_header_)
/* g_rec records have been emitted; while input remains they were all full ones */
__CPROVER_loop_invariant(in_size == in->pre[in->n] && in_size <= BUF_CAP && reminder <= in_size && g_rec <= 16 &&
      (reminder > 0 ==> (in_size - reminder == (size_t)FCON * g_rec && out_len == (size_t)FREC * g_rec && g_rec <= NFULL(in_size))) &&
      (reminder == 0 ==> (out_len == BODYLEN(in_size) && (in_size > 0 ==> (g_rec == NFULL(in_size) + 1 && LASTHDR_OK(self, in_size))))) &&
      /* the chunk walk stands at stream position in_size - reminder */
      g_ci <= in->n && chunks == in->e + g_ci &&
      chunk_consumed <= in_size && in->pre[g_ci] <= in_size && in->pre[g_ci] + chunk_consumed == in_size - reminder &&
      (g_ci == in->n ==> chunk_consumed == 0) && (g_ci < in->n ==> chunk_consumed < in->e[g_ci].size) &&
      /* a full header, once prepared, stays */
      self->full_header_.reserved == 0 && (g_rec >= 1 && in_size > FCON ==> FULLHDR_OK(self)) &&
      OBS_OK(self, in, in_size))
__CPROVER_decreases(reminder)''',
                2: r'''
__CPROVER_assigns(chunk, chunks, chunk_consumed, out_len, g_pos_seen, g_pos_ptr, g_ci)
/* inside record g_rec-1: rec_len - chunk content bytes of it are out */
__CPROVER_loop_invariant(chunk <= RLEN(in_size, g_rec - 1) && g_rec >= 1 && g_rec <= NFULL(in_size) + 1 && in_size == in->pre[in->n] && in_size <= BUF_CAP && in_size >= 1 &&
      reminder == in_size - ((size_t)FCON * (g_rec - 1) + RLEN(in_size, g_rec - 1)) &&
      out_len == (size_t)FREC * (g_rec - 1) + 8 + (RLEN(in_size, g_rec - 1) - chunk) &&
      g_ci <= in->n && chunks == in->e + g_ci &&
      chunk_consumed <= in_size && in->pre[g_ci] <= in_size && in->pre[g_ci] + chunk_consumed == (size_t)FCON * (g_rec - 1) + (RLEN(in_size, g_rec - 1) - chunk) &&
      (g_ci == in->n ==> chunk_consumed == 0) && (g_ci < in->n ==> chunk_consumed < in->e[g_ci].size) &&
      OBS_OK(self, in, in_size))
__CPROVER_decreases(chunk)'''},
         contract=r'''
__CPROVER_requires(__CPROVER_rw_ok(self, sizeof(*self)) && CHUNKS_OK(input) && CHUNKS_OK(self->hdr_plus_input) && OBS_PRE(self->response_headers_written_ ? input : self->hdr_plus_input) &&
                   /* full_header_ is value-initialised by the constructor and `reserved` is never written */ self->full_header_.reserved == 0)
__CPROVER_assigns(self->header_, self->full_header_, self->eof_, self->response_headers_written_, out_len, g_pos_seen, g_pos_ptr, g_hdr_used, g_rec, g_ci)
/* the response headers go in front of the first output only */
__CPROVER_ensures(self->response_headers_written_ && g_hdr_used == !__CPROVER_old(self->response_headers_written_))
/* total length: the records for T content bytes (+ the 24 end bytes when completed) */
__CPROVER_ensures(out_len == BODYLEN(T_OF(self, input)) + (completed ? 24 : 0))
/* the byte that will be sent at position g_pos comes from the right place (header of its record / content byte / padding / end records) */
__CPROVER_ensures(g_pos < out_len ==> (g_pos_seen && g_pos_ptr == (g_pos < BODYLEN(T_OF(self, input)) ? EXPECT_PTR(self, IN_OF(self, input), T_OF(self, input)) : (char const *)&self->eof_ + (g_pos - BODYLEN(T_OF(self, input))))))
'''),
    # ---------------- HTTP chunked transfer encoding, SCGI "headers once"
    dict(cname='http_make_chunked_wrapper', file=H, locate=lit('booster::aio::const_buffer make_chunked_wrapper(booster::aio::const_buffer const &in,bool completed)'),
         sig='void http_make_chunked_wrapper(struct http_out *self, size_t in_n, bool completed)',
         rewrites=[(r'in\.bytes_count\(\)', 'in_n', 2), (r'return in;', '{ pc_add(PC_in); return; }', 1), (r'return booster::aio::buffer\(("[^"]*"),(\w+)\);', r'{ pc_lit(\1, \2); return; }', 1),
                   (r'std::ostringstream ss;\s*ss << std::hex << in_n << "\\r\\n";\s*chunked_header_ = std::move\(ss\.str\(\)\);', 'hdr_set_hex_crlf(self, in_n);', 1),
                   (r'return booster::aio::buffer\(chunked_header_\) \+ in \+ booster::aio::buffer\(trailer,trailer_len\);', '{ pc_add(PC_hdr); pc_add(PC_in); pc_lit(trailer, trailer_len); return; }', 1)],
         contract=r'''
__CPROVER_requires(__CPROVER_rw_ok(self, sizeof(*self)) && g_pc_n == 0 && in_n <= BUF_CAP)
__CPROVER_assigns(self->hdr_hex_of, self->hdr_set, g_pc_n, __CPROVER_object_whole(g_pc_kind), g_lit_p, g_lit_n)
/* RFC 7230 4.1: nothing to send and not finished -> nothing; finished with nothing to send -> the last-chunk "0 CRLF CRLF" */
__CPROVER_ensures((in_n == 0 && !completed) ==> (g_pc_n == 1 && g_pc_kind[0] == PC_in))
__CPROVER_ensures((in_n == 0 && completed) ==> (g_pc_n == 1 && g_pc_kind[0] == PC_lit && g_lit_n == 5 && g_lit_p[0] == '0' && g_lit_p[1] == '\r' && g_lit_p[2] == '\n' && g_lit_p[3] == '\r' && g_lit_p[4] == '\n'))
/* otherwise one chunk: hex(size) CRLF, the data, CRLF -- followed by the last-chunk when the response is complete; the size announced is the size of the data */
__CPROVER_ensures(in_n > 0 ==> (g_pc_n == 3 && g_pc_kind[0] == PC_hdr && g_pc_kind[1] == PC_in && g_pc_kind[2] == PC_lit && self->hdr_set && self->hdr_hex_of == in_n &&
                  g_lit_p[0] == '\r' && g_lit_p[1] == '\n' &&
                  (completed ? (g_lit_n == 7 && g_lit_p[2] == '0' && g_lit_p[3] == '\r' && g_lit_p[4] == '\n' && g_lit_p[5] == '\r' && g_lit_p[6] == '\n') : g_lit_n == 2)))
'''),
    dict(cname='scgi_format_output', file=S, locate=r'virtual booster::aio::const_buffer format_output\(booster::aio::const_buffer const &in,bool\s*,booster::system::error_code &\s*\)',
         sig='void scgi_format_output(struct http_out *self)', members=['headers_written_'],
         rewrites=[(r'return in;', '{ pc_add(PC_in); return; }', 1), (r'return booster::aio::buffer\(headers_\) \+ in;', '{ pc_add(PC_hdr); pc_add(PC_in); return; }', 1)],
         contract=r'''
__CPROVER_requires(__CPROVER_rw_ok(self, sizeof(*self)) && g_pc_n == 0)
__CPROVER_assigns(self->headers_written_, g_pc_n, __CPROVER_object_whole(g_pc_kind))
/* the header block goes out exactly once, in front of the first output; the body bytes pass unchanged */
__CPROVER_ensures(self->headers_written_ && (__CPROVER_old(self->headers_written_) ? (g_pc_n == 1 && g_pc_kind[0] == PC_in) : (g_pc_n == 2 && g_pc_kind[0] == PC_hdr && g_pc_kind[1] == PC_in)))
'''),
    dict(cname='http_format_output', file=H, locate=lit('virtual booster::aio::const_buffer format_output(booster::aio::const_buffer const &in,bool completed,booster::system::error_code &e)'),
         sig='void http_format_output(struct http_fmt *self, size_t in_n, bool completed, int *e)', refs=['e'],
         members=['headers_done_', 'chunked_te_', 'client_accepts_keep_alive_', 'error_state_', 'is_http_11_', 'keep_alive_', 'output_content_length_', 'output_written_'],
         rewrites=[(r'return make_chunked_wrapper\(in,completed\);', '{ pc_add(PC_chunked); return; }', 1), (r'packet\+= make_chunked_wrapper\(in,completed\);', 'pc_add(PC_chunked);', 1),
                   (r'return in;', '{ pc_add(PC_in); return; }', 1), (r'packet\+=in;', 'pc_add(PC_in);', 1), (r'return packet;', 'return;', 1),
                   (r'booster::aio::const_buffer packet = booster::aio::buffer\(response_headers_\);', 'pc_add(PC_hdr);', 1),
                   (r'in\.bytes_count\(\)', 'in_n', 4), (r'e = booster::system::error_code\(errc::protocol_violation,cppcms_category\);', 'e = 2;', 2),
                   (r'response_headers_\.empty\(\)', 'self->rh_empty', 1), (r'cppcms::impl::response_headers dummy;\s*set_response_headers\(dummy\);', 'set_response_headers_dummy(self);', 1),
                   (r'char buf\[std::numeric_limits<size_t>::digits10 \+ \w+\];', 'char buf[24];', 1), (r'format_number\(', 'format_number_rec(', 1),
                   (r'response_headers_ \+= buf;', 'rh_buf(buf);', 1), (r'response_headers_ \+=\s*("[^;]*);', r'rh_lit(\1);', 6)],
         contract=r'''
__CPROVER_requires(__CPROVER_rw_ok(self, sizeof(*self)) && __CPROVER_rw_ok(e, sizeof(*e)) && *e == 0 && in_n <= BUF_CAP && g_pc_n == 0 && self->output_content_length_ >= -1 && self->output_content_length_ <= (1ll << 40) &&
                   self->output_written_ >= 0 && self->output_written_ <= (1ll << 40) &&
                   g_h_server == 0 && g_h_cl == 0 && g_h_ka == 0 && g_h_close == 0 && g_h_te == 0 && g_h_end == 0 && g_h_num == 0 && g_h_other == 0)
__CPROVER_assigns(*self, *e, g_pc_n, __CPROVER_object_whole(g_pc_kind), g_h_server, g_h_cl, g_h_ka, g_h_close, g_h_te, g_h_end, g_h_num, g_h_other, g_fmt_num, g_after_num)
/* after the first output the header block is never touched again: the body goes out as a chunk or verbatim */
__CPROVER_ensures(self->headers_done_)
__CPROVER_ensures(__CPROVER_old(self->headers_done_) ==> (g_pc_n == 1 && g_pc_kind[0] == (self->chunked_te_ ? PC_chunked : PC_in) && self->chunked_te_ == __CPROVER_old(self->chunked_te_) &&
                  g_h_server + g_h_cl + g_h_ka + g_h_close + g_h_te + g_h_end + g_h_num + g_h_other == 0))
/* first output: exactly one header block in front; it gets exactly one Connection line and ends with one empty line (other informational lines such as Server are not constrained) */
__CPROVER_ensures(!__CPROVER_old(self->headers_done_) ==> (g_pc_n == 2 && g_pc_kind[0] == PC_hdr && g_pc_kind[1] == (self->chunked_te_ ? PC_chunked : PC_in) &&
                  g_h_ka + g_h_close == 1 && g_h_end == 1 && g_h_ka == (self->keep_alive_ ? 1 : 0) && g_h_te == (self->chunked_te_ ? 1 : 0) && g_h_cl == g_h_num && g_h_cl <= 1))
/* framing: Content-Length is added exactly when the length was unknown and the whole body is in this first output, and it is the size of that body;
   chunked coding only for HTTP/1.1 keep-alive with unknown length; a connection that stays open always has a delimited body */
__CPROVER_ensures(!__CPROVER_old(self->headers_done_) ==> ((g_h_cl == 1) ==> (completed && g_fmt_num == in_n && self->output_content_length_ == (long long)in_n)))
__CPROVER_ensures(!__CPROVER_old(self->headers_done_) ==> (self->chunked_te_ ==> (self->keep_alive_ && self->output_content_length_ == -1 && self->is_http_11_)))
__CPROVER_ensures(!__CPROVER_old(self->headers_done_) ==> (self->keep_alive_ ==> (self->chunked_te_ || self->output_content_length_ != -1)))
/* without chunking the bytes are counted and writing past the announced Content-Length is a protocol violation */
__CPROVER_ensures((!self->chunked_te_ && *e == 0) ==> (self->output_content_length_ == -1 || self->output_written_ <= self->output_content_length_))
__CPROVER_ensures(!self->chunked_te_ ==> (*e != 0) == (self->output_content_length_ != -1 && self->output_written_ > self->output_content_length_))
'''),
]

CH_SETUP = r'''
#define SYM_CHUNKS(L) do { size_t cn_; __CPROVER_assume(cn_ <= 1000); (L).n = cn_; (L).e = malloc(cn_ * sizeof(struct entry)); (L).pre = malloc((cn_ + 1) * sizeof(size_t)); \
   __CPROVER_assume((L).e != NULL && (L).pre != NULL && (L).pre[0] == 0 && (L).pre[cn_] <= BUF_CAP); } while(0)
'''
ABS = r'''
    struct conn c; c.pend_src = 0; int e = 0; size_t nn, pick; int fe, ne, we, wb, ok; g_new_n = nn; g_ws_pick = pick; g_fmt_err = fe; g_nb_err = ne; g_ws_err = we; g_wb = wb != 0; g_wr_ok = ok != 0; g_ws_calls = 0;
'''
jobs = [
    dict(name='conn_nonblocking_write', props=P, replay='c03:stream', replay_link=['-fno-access-control', '-L{BUILD}', '-lcppcms', '-L{BUILD}/booster', '-lbooster', '-lpthread'], replay_exhaustive='60 write patterns (sizes 0, 1..10, 65535, 65536..8, up to 200000, 131070..3; 1..8 writes) x {scgi, fastcgi} through nonblocking_write into a socketpair with a 4 KiB send buffer drained in random amounts; received stream decoded and compared', enforce='conn_nonblocking_write', harness=ABS + 'bool r = conn_nonblocking_write(&c, &e); VERIF_REACH;'),
    dict(name='conn_write', props=P, replay='c03:stream', replay_link=['-fno-access-control', '-L{BUILD}', '-lcppcms', '-L{BUILD}/booster', '-lbooster', '-lpthread'], replay_exhaustive='60 write patterns (sizes 0, 1..10, 65535, 65536..8, up to 200000, 131070..3; 1..8 writes) x {scgi, fastcgi} through nonblocking_write into a socketpair with a 4 KiB send buffer drained in random amounts; received stream decoded and compared', enforce='conn_write', harness=ABS + 'bool r = conn_write(&c, &e); VERIF_REACH;'),
    dict(name='conn_append_pending', props=P, replay='c03:stream', replay_link=['-fno-access-control', '-L{BUILD}', '-lcppcms', '-L{BUILD}/booster', '-lbooster', '-lpthread'], replay_exhaustive='60 write patterns (sizes 0, 1..10, 65535, 65536..8, up to 200000, 131070..3; 1..8 writes) x {scgi, fastcgi} through nonblocking_write into a socketpair with a 4 KiB send buffer drained in random amounts; received stream decoded and compared', enforce='conn_append_pending', timeout=600, harness=CH_SETUP + r'''
    struct pvec v; struct chunks l; SYM_CHUNKS(l); size_t gc, go, mp; g_c = gc; g_o = go; g_mpos = mp;
    /* the observed chunk is a fresh object (it cannot alias the ghosts or the vector header) */
    if(gc < l.n) { char *src = malloc(l.e[gc].size); __CPROVER_assume(src != NULL); l.e[gc].ptr = src; }
    conn_append_pending(&v, &l); VERIF_REACH;'''),
    dict(name='fcgi_header_to_net', props=P, replay='c03:stream', replay_link=['-fno-access-control', '-L{BUILD}', '-lcppcms', '-L{BUILD}/booster', '-lbooster', '-lpthread'], replay_exhaustive='60 write patterns (sizes 0, 1..10, 65535, 65536..8, up to 200000, 131070..3; 1..8 writes) x {scgi, fastcgi} through nonblocking_write into a socketpair with a 4 KiB send buffer drained in random amounts; received stream decoded and compared', enforce='fcgi_header_to_net', harness='struct fcgi_header h; fcgi_header_to_net(&h); VERIF_REACH;'),
    dict(name='fcgi_prepare_eof', props=P, replay='c03:stream', replay_link=['-fno-access-control', '-L{BUILD}', '-lcppcms', '-L{BUILD}/booster', '-lbooster', '-lpthread'], replay_exhaustive='60 write patterns (sizes 0, 1..10, 65535, 65536..8, up to 200000, 131070..3; 1..8 writes) x {scgi, fastcgi} through nonblocking_write into a socketpair with a 4 KiB send buffer drained in random amounts; received stream decoded and compared', enforce='fcgi_prepare_eof', replace=['fcgi_header_to_net', 'fcgi_end_request_body_to_net'], pre_unwind=3, harness='struct fcgi_out o; fcgi_prepare_eof(&o); VERIF_REACH;'),
    dict(name='fcgi_format_output', props=P, replay='c03:stream', replay_link=['-fno-access-control', '-L{BUILD}', '-lcppcms', '-L{BUILD}/booster', '-lbooster', '-lpthread'], replay_exhaustive='60 write patterns (sizes 0, 1..10, 65535, 65536..8, up to 200000, 131070..3; 1..8 writes) x {scgi, fastcgi} through nonblocking_write into a socketpair with a 4 KiB send buffer drained in random amounts; received stream decoded and compared', kind='plainloops', unwind=3, timeout=900, cbmc_flags=['--external-sat-solver', 'kissat'], per_property=r'^fcgi_format_output\.|^h_fcgi_format_output\.|^out_add\.|^chunk_', pp_chunk=40, pp_workers=14,
         complete_note='both loops of format_output closed by loop contracts (goto-instrument --apply-loop-contracts, no dfcc: symex of the walking entry pointer does not finish under dfcc); '
                       'the 2-iteration loop of prepare_eof is unwound (constant bound, unwinding assertion on); pre/postcondition of the function contract are assumed/asserted by the harness',
         harness=CH_SETUP + r'''
    struct fcgi_out o; struct chunks in1, in2; SYM_CHUNKS(in1); SYM_CHUNKS(in2); o.hdr_plus_input = &in2; size_t gp, gc, go; g_pos = gp; g_c = gc; g_o = go; int ci; bool completed = ci != 0;
    uint32_t nf, la, gr, gg; g_nfull = nf; g_last = la; g_gr = gr; g_go = gg;
    int hw; o.response_headers_written_ = hw != 0; bool hw0 = o.response_headers_written_;
    struct chunks const *in = hw0 ? &in1 : &in2; size_t T = in->pre[in->n];
    __CPROVER_assume(OBS_PRE(in) && o.full_header_.reserved == 0);      /* = the requires clause of the contract */
    fcgi_format_output(&o, &in1, completed);
    __CPROVER_assert(o.response_headers_written_ && g_hdr_used == !hw0, "the response headers go in front of the first output only");
    __CPROVER_assert(out_len == BODYLEN(T) + (completed ? 24 : 0), "total length: the STDOUT records for T content bytes (+ the 24 end bytes when completed)");
    __CPROVER_assert(g_pos < out_len ==> (g_pos_seen && g_pos_ptr == (g_pos < BODYLEN(T) ? EXPECT_PTR(&o, in, T) : (char const *)&o.eof_ + (g_pos - BODYLEN(T)))),
                     "the byte sent at position g_pos comes from the right place: header of its record / the content byte at that stream offset / padding / end records");
    /* send time: what the peer reads at g_pos when it lies in a record header or in padding */
    if(g_pos < BODYLEN(T) && G_O < 8) {
      unsigned char b = *(unsigned char const *)g_pos_ptr; uint32_t len = RLEN(T, G_R); uint16_t rid = (uint16_t)o.request_id_;
      unsigned char want = G_O == 0 ? 1 : G_O == 1 ? 6 : G_O == 2 ? (rid >> 8) : G_O == 3 ? (rid & 255) : G_O == 4 ? (len >> 8) : G_O == 5 ? (len & 255) : G_O == 6 ? PADL(len) : 0;
      __CPROVER_assert(b == want, "record header on the wire: version 1, STDOUT, request id, content length of THIS record, padding to a multiple of 8, big endian");
    }
    if(g_pos < BODYLEN(T) && G_O >= 8 + RLEN(T, G_R)) __CPROVER_assert(*g_pos_ptr == 0, "padding bytes are zero");
    VERIF_REACH;'''),
    dict(name='http_make_chunked_wrapper', props=P, enforce='http_make_chunked_wrapper', harness='struct http_out o; size_t n; int ci; g_pc_n = 0; http_make_chunked_wrapper(&o, n, ci != 0); VERIF_REACH;'),
    dict(name='scgi_format_output', props=P, replay='c03:stream', replay_link=['-fno-access-control', '-L{BUILD}', '-lcppcms', '-L{BUILD}/booster', '-lbooster', '-lpthread'], replay_exhaustive='60 write patterns (sizes 0, 1..10, 65535, 65536..8, up to 200000, 131070..3; 1..8 writes) x {scgi, fastcgi} through nonblocking_write into a socketpair with a 4 KiB send buffer drained in random amounts; received stream decoded and compared', enforce='scgi_format_output', harness='struct http_out o; int hw; o.headers_written_ = hw != 0; g_pc_n = 0; scgi_format_output(&o); VERIF_REACH;'),
    dict(name='http_format_output', props=P, enforce='http_format_output', harness=r'''
    struct http_fmt o; int b1, b2, b3, b4, b5, b6, b7, ci; o.headers_done_ = b1 != 0; o.chunked_te_ = b2 != 0; o.client_accepts_keep_alive_ = b3 != 0; o.error_state_ = b4 != 0; o.is_http_11_ = b5 != 0; o.keep_alive_ = b6 != 0; o.rh_empty = b7 != 0;
    size_t n; int e = 0; g_pc_n = 0; g_h_server = 0; g_h_cl = 0; g_h_ka = 0; g_h_close = 0; g_h_te = 0; g_h_end = 0; g_h_num = 0; g_h_other = 0; g_after_num = 0;
    http_format_output(&o, n, ci != 0, &e); VERIF_REACH;'''),
]

UNIT = dict(
    name='respout', pre=PRE.replace('size_t g_c, g_o, g_mk;', 'size_t g_c, g_o, g_mk, g_n0;'), functions=functions, jobs=jobs,
    regions=[dict(name='fcgi_header', file=F, start=r'struct fcgi_header \{', end=None, rewrites=[(r'void to_host\(\) \{[^}]*\}', '', 1), (r'void to_net\(\) \{[^}]*\}', '', 1)]),
             dict(name='fcgi_enum', file=F, start=r'enum \{\s*fcgi_header_len', end=None),
             dict(name='fcgi_enum4', file=F, start=r'enum \{\s*fcgi_request_complete', end=None),
             dict(name='fcgi_end_request_body', file=F, start=r'struct fcgi_end_request_body \{', end=None, rewrites=[(r'void to_host\(\) \{[^}]*\}', '', 1), (r'void to_net\(\) \{[^}]*\}', '', 1)])],
    trusted=['respout: booster::aio::const_buffer is abstract in the bookkeeping jobs (a contiguous piece [src,src+n) of the output stream; operator+ joins adjacent pieces, operator+(n) drops a prefix: '
             'aio::details::advance / buffer_impl::add are NOT under contract) and a chunk list with a ghost prefix-sum table in the byte-level jobs; buffer_impl::add never stores an empty chunk (read from booster/aio/buffer.h)',
             'respout: stream_socket::write_some accepts any prefix and may set any error; would_block() is an arbitrary predicate of the error',
             'respout: format_output is virtual: in the bookkeeping jobs it returns a piece of arbitrary length adjacent to the pending bytes; its framing is proved per protocol in the other jobs'],
    not_covered={'C03': ['http::response streambuf chain, gzip, header assembly (response_headers.h), copy-to-cache, async_write_handler continuation, aio::details::advance and stream_socket internals',
                         'the composition over a whole sequence of writes (each call is proved for an arbitrary pending state; the induction over calls is a pen-and-paper step)']},
)
