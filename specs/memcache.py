# Unit "memcache" -- the glue code of mem_cache<Setup> (src/cache_storage.cpp): delete_node, check_limits, store, fetch, remove, rise.
# The containers (hash_map, std::list, std::multimap) are abstract: iterators are opaque handles, every container operation is a
# recorder that maintains ghost cardinalities.  Serves C07 (what a fetch returns / what gets invalidated) and C08 (limit, victim order).
import sys, os
sys.path.insert(0, os.path.join(os.path.dirname(os.path.abspath(__file__)), '..', 'tools'))
from cxx2c import lit

M = 'src/cache_storage.cpp'
P7 = ['C07']; P8 = ['C08']; P78 = ['C07', 'C08']

PRE = r'''
#include <time.h>
#include <stdbool.h>
bool g_policy_on, g_nomem_seen; int g_addtr_calls; size_t g_addtr_last_key, g_addtr_first_key; size_t g_addtr_node; unsigned long g_gen0;
/* ---- R8: iterators of primary (hash_map), lru (std::list), timeout (std::multimap), the triggers map and its per-trigger lists are opaque
 * handles; 0 is end().  Node payloads (struct container), multimap entries and trigger references live in symbolic tables indexed by handle. */
typedef size_t hnd;
#define NCAP 1024
struct node { size_t data; hnd lru; hnd timeout; uint64_t generation; size_t trig0, ntrig; };  /* container: data, lru, timeout, generation; triggers = refs [trig0, trig0+ntrig) */
struct tment { time_t first; hnd second; };                 /* timeout element: (deadline, node) */
struct tref { hnd first; hnd second; };                     /* trigger_ptr_type: (iterator into the triggers map, iterator into that trigger's list) */
struct mc { unsigned limit; size_t size; size_t triggers_count; uint64_t generation; };
struct node *g_nd; struct tment *g_tm; struct tref *g_tr; hnd *g_tl;
/* ghost cardinalities of the containers; the representation invariant ties them to the counters the code maintains */
size_t g_primary_n, g_lru_n, g_tm_n, g_links_n;
#define RI(s) ((s)->size == g_primary_n && g_lru_n == g_primary_n && g_tm_n == g_primary_n && (s)->triggers_count == g_links_n && g_primary_n <= NCAP && g_links_n <= 16 * NCAP)
/* what is true of every node handle stored in a container: its own references are live, its trigger links are counted in the total */
#define NODE_SANE(h) ((h) != 0 && (h) < NCAP && g_nd[h].ntrig <= 64 && g_nd[h].trig0 <= 15 * NCAP && g_nd[h].ntrig <= g_links_n && g_nd[h].lru != 0 && g_nd[h].timeout != 0 && g_nd[h].timeout < NCAP)
static struct node *ND(hnd p) { __CPROVER_assert(p != 0 && p < NCAP, "map iterator dereferenced is a live element, not end()"); return &g_nd[p]; }
static struct tment *TM(hnd t) { __CPROVER_assert(t != 0 && t < NCAP, "multimap iterator dereferenced is a live element"); return &g_tm[t]; }
static struct tref *TR(size_t i) { __CPROVER_assert(i < 16 * NCAP, "trigger reference inside the node's list"); __CPROVER_assume(g_tr[i].first != 0 && g_tr[i].second != 0); /* stored iterators are live */ return &g_tr[i]; }
static hnd TL(size_t i) { __CPROVER_assert(i < 16 * NCAP, "trigger list element"); __CPROVER_assume(NODE_SANE(g_tl[i])); return g_tl[i]; }

/* recorders */
time_t g_now; int g_time_calls;
static void verif_time(time_t *t) { *t = g_now; g_time_calls++; }
int g_lru_erase_calls, g_lru_push_calls, g_tm_erase_calls, g_tm_insert_calls, g_primary_erase_calls, g_primary_insert_calls, g_find_calls, g_tl_erase_calls, g_trig_erase_calls;
hnd g_lru_erase_arg, g_lru_push_arg, g_lru_front, g_tm_erase_arg, g_primary_erase_arg, g_find_res, g_new_node, g_new_tm, g_new_lru; size_t g_find_key, g_insert_key; time_t g_tm_insert_deadline; hnd g_tm_insert_node;
static void lru_erase(hnd it) { __CPROVER_assert(it != 0 && g_lru_n > 0, "lru.erase of a live iterator"); g_lru_n--; if(g_lru_erase_calls < 1000) g_lru_erase_calls++; g_lru_erase_arg = it; }
static void lru_push_front(hnd p) { g_lru_n++; g_lru_push_calls++; g_lru_push_arg = p; g_lru_front = g_new_lru; }
static hnd lru_begin(void) { return g_lru_front; }
static bool lru_empty(void) { return g_lru_n == 0; }
static void timeout_erase(hnd t) { __CPROVER_assert(t != 0 && g_tm_n > 0, "timeout.erase of a live iterator"); g_tm_n--; if(g_tm_erase_calls < 1000) g_tm_erase_calls++; g_tm_erase_arg = t; }
static hnd timeout_insert(time_t d, hnd p) { g_tm_n++; g_tm_insert_calls++; g_tm_insert_deadline = d; g_tm_insert_node = p; return g_new_tm; }
static bool timeout_empty(void) { return g_tm_n == 0; }
static hnd timeout_begin_again(void);
static hnd primary_find(size_t key) { g_find_calls++; g_find_key = key; return g_find_res; }
static void primary_erase(hnd p) { __CPROVER_assert(p != 0 && g_primary_n > 0, "primary.erase of a live iterator"); g_primary_n--; if(g_primary_erase_calls < 1000) g_primary_erase_calls++; g_primary_erase_arg = p; }
static hnd primary_insert(size_t key) { g_primary_n++; g_primary_insert_calls++; g_insert_key = key; /* value-initialised container(): no trigger links yet */ if(g_new_node < NCAP) g_nd[g_new_node].ntrig = 0; return g_new_node; }
/* per-trigger list of a node's trigger reference: erase one link; the list may become empty (arbitrary), then the map entry goes */
static void triglist_erase(hnd list, hnd pos) { __CPROVER_assert(list != 0 && pos != 0 && g_links_n > 0, "erase of a live trigger link"); g_links_n--; if(g_tl_erase_calls < 1000) g_tl_erase_calls++; }
static bool triglist_empty(hnd list) { int b; return b != 0; }
static void triggers_erase(hnd list) { g_trig_erase_calls = 1; }
/* add_trigger / nl_clear container operations */
size_t g_trig_ins_key; hnd g_ntp_list, g_ntp_pos, g_tlpf_list; hnd g_new_trig_list, g_new_tl_pos;
static hnd triggers_insert(size_t key) { g_trig_ins_key = key; hnd h = g_new_trig_list; __CPROVER_assume(h != 0); return h; }
static void tlist_push_front(hnd list, hnd p) { g_links_n++; g_tlpf_list = list; }
static hnd tlist_begin(hnd list) { hnd h = g_new_tl_pos; __CPROVER_assume(h != 0); return h; }
static void node_trigs_push_back(hnd p, hnd list, hnd pos) { g_nd[p].ntrig++; g_ntp_list = list; g_ntp_pos = pos; }
static void timeout_clear(void) { g_tm_n = 0; }
static void lru_clear(void) { g_lru_n = 0; }
static void primary_clear(void) { g_primary_n = 0; }
static void triggers_clear(void) { g_links_n = 0; }
/* the element the eviction loop may pick: the multimap's first element (smallest deadline) and the LRU list's last element; chosen afresh at every call */
hnd g_cand_tm, g_cand_lru_node; bool g_cand_tm_valid, g_cand_lru_valid;
/* the multimap's first element (smallest deadline) is fixed by a ghost statement at the start of every iteration of the eviction loop, whether or not the code looks at it */
static hnd pick_tm_min(void) { if(g_tm_n == 0) return 0; hnd t; __CPROVER_assume(t != 0 && t < NCAP && NODE_SANE(g_tm[t].second)); return t; }
static hnd timeout_begin(void) { __CPROVER_assert(g_tm_n > 0 && g_cand_tm_valid, "timeout.begin() of a non-empty multimap"); return g_cand_tm; }
/* a second timeout.begin() with nothing changed in between: the same element */
static hnd timeout_begin_again(void) { return timeout_begin(); }
static hnd lru_back(void) { __CPROVER_assert(g_lru_n > 0, "*lru.rbegin() of a non-empty list"); hnd p; __CPROVER_assume(NODE_SANE(p)); g_cand_lru_node = p; g_cand_lru_valid = 1; return p; }
/* Setup hooks */
static bool not_enough_memory(void) { int b; if(b) g_nomem_seen = 1; return b != 0; }
static size_t size_limit(void) { size_t v; return v; }
/* std::set<std::string> const &triggers_in as (ids, n); membership of the key chosen by the harness */
struct idset { size_t *id; size_t n; bool has_key; };
/* triggers_in.find(key): an index below n when the key is listed, n (= end()) otherwise */
static size_t set_find_key(struct idset const *s) { if(!s->has_key) return s->n; size_t i; __CPROVER_assume(i < s->n); return i; }
static size_t set_elem(struct idset const *s, size_t i) { __CPROVER_assert(i < s->n, "set iterator inside [begin,end)"); return s->id[i]; }
/* outputs of fetch */
int g_out_trig_calls; hnd g_out_trig_last;
static void out_trig_insert(hnd trigger_it) { g_out_trig_calls++; g_out_trig_last = trigger_it; }
/* kill list of rise(): a copy of consecutive elements of the trigger's list */
struct klist { size_t base; size_t n; };
static void kl_push(struct klist *k, size_t list_index) { if(k->n == 0) k->base = list_index; __CPROVER_assert(list_index == k->base + k->n, "kill list is a copy of the trigger list, in order"); k->n++; }
static hnd kl_get(struct klist *k, size_t i) { __CPROVER_assert(i < k->n, "kill list iterator inside the list"); return TL(k->base + i); }
hnd g_trig_find_res; size_t g_trig_l0, g_trig_ln;
static hnd triggers_find(size_t trigger) { return g_trig_find_res; }
/* ghosts for delete_node's recorder contract */
int g_del_calls; hnd g_del_first, g_del_last; size_t g_vi; hnd g_del_at_vi; time_t g_dl0;
'''

DEL_CONTRACT = r'''
/* p is an element of primary: the structure is consistent and holds at least this node.
   When called from the eviction loop the victim must be the candidate the policy prescribes: the entry with the smallest deadline if that
   deadline has passed, otherwise the least recently used one */
__CPROVER_requires(__CPROVER_rw_ok(self, sizeof(*self)) && RI(self) && self->size >= 1 && NODE_SANE(p) && g_del_calls >= 0 && g_del_calls <= 2 * NCAP &&
                   /* "deadline has passed" is the predicate fetch uses: deadline < now (an entry whose deadline equals the current second is still served, so it is live) */
                   (g_policy_on ==> ((g_cand_tm_valid && g_tm[g_cand_tm].first < g_now) ? p == g_tm[g_cand_tm].second : (g_cand_lru_valid && p == g_cand_lru_node))))
__CPROVER_assigns(self->size, self->triggers_count, g_primary_n, g_lru_n, g_tm_n, g_links_n, g_lru_erase_calls, g_lru_erase_arg, g_tm_erase_calls, g_tm_erase_arg, g_primary_erase_calls, g_primary_erase_arg,
                  g_tl_erase_calls, g_trig_erase_calls, g_del_calls, g_del_first, g_del_last, g_del_at_vi, g_cand_tm_valid, g_cand_lru_valid)
/* the node leaves ALL four structures: its LRU position, its deadline entry, every trigger link it owns, and the key map; the counters follow */
__CPROVER_ensures(RI(self) && self->size == __CPROVER_old(self->size) - 1 && self->triggers_count == __CPROVER_old(self->triggers_count) - g_nd[p].ntrig && g_links_n <= __CPROVER_old(g_links_n))
/* (each container shrinks by exactly one element: RI with size-1; these are the elements the node itself refers to) */
__CPROVER_ensures(g_lru_erase_arg == g_nd[p].lru && g_tm_erase_arg == g_nd[p].timeout && g_primary_erase_arg == p)
__CPROVER_ensures(g_del_calls == __CPROVER_old(g_del_calls) + 1 && g_del_last == p && g_del_first == (__CPROVER_old(g_del_calls) == 0 ? p : __CPROVER_old(g_del_first)) &&
                  g_del_at_vi == ((size_t)__CPROVER_old(g_del_calls) == g_vi ? p : __CPROVER_old(g_del_at_vi)) && !g_cand_tm_valid && !g_cand_lru_valid)
'''

CI = 'src/cache_interface.cpp'
PRE += r'''
/* ---- cache_interface: trigger propagation.  recorders_ = {0..nrec-1}; triggers_ (the set attached to the page being built) and the recorders' sets are recorders of insertions */
struct cif { bool has_cache; size_t nrec; bool has_context; bool page_compression_used_; };
int g_ci_trig_inserts; size_t g_ci_trig_last; size_t g_ri; int g_ci_rec_adds_at_ri, g_ci_rec_adds; size_t g_ci_rec_last_t;
static void rec_add(size_t rec, size_t t) { g_ci_rec_adds++; if(rec == g_ri) { g_ci_rec_adds_at_ri++; g_ci_rec_last_t = t; } }
static void trigs_insert(size_t t) { g_ci_trig_inserts++; g_ci_trig_last = t; }
/* triggers_.find(x) on the page's own trigger set: an oracle (present or not) */
#define TRIGS_END ((size_t)-1)
static size_t trigs_find(size_t t) { int present; return present ? t : TRIGS_END; }
/* cache_module_->fetch / store */
bool g_cm_hit; struct idset g_cm_trigs; int g_cm_fetch_calls, g_cm_store_calls; bool g_cm_fetch_wants_trigs; size_t g_cm_store_key, g_cm_store_data; struct idset const *g_cm_store_trigs; time_t g_cm_store_deadline;
size_t g_cm_fetch_key; int g_cm_store_at; int g_at_calls;
static bool cm_fetch(size_t key, struct idset *out) { g_cm_fetch_calls++; g_cm_fetch_key = key; g_cm_fetch_wants_trigs = out != 0; if(!g_cm_hit) return 0; if(out) *out = g_cm_trigs; return 1; }
static void cm_store(size_t key, size_t data, struct idset const *trigs, time_t deadline) { g_cm_store_calls++; g_cm_store_at = g_at_calls; g_cm_store_key = key; g_cm_store_data = data; g_cm_store_trigs = trigs; g_cm_store_deadline = deadline; }
int g_at_calls; size_t g_at_last, g_at_k, g_at_at_k;     /* add_trigger recorder: how many calls, the last argument, the argument of call number g_at_k */
#define INFTY_T ((time_t)(0x7FFFFFFFFFFFFFFFULL - 3600*24))
/* ---- whole-page caching: the response object and the "_Z:" / "_U:" key variants are recorders */
#define LBL_Z 1
#define LBL_U 2
#define ENC_gzip 1
struct idset g_empty_set; struct idset g_page_trigs;    /* stands for cache_interface::triggers_, the set attached to the page being built */
size_t g_rk_id, g_rk_key, g_cd_id, g_cm_data, g_w_data, g_w_len; int g_rk_calls, g_rk_label, g_fin_calls, g_cd_calls, g_cd_fin, g_w_calls, g_enc_calls, g_enc_last, g_copy_calls; bool g_need_gzip;
static size_t rkey_rec(bool c, int a, int b, size_t key) { if(g_rk_calls < 2) g_rk_calls++; g_rk_label = c ? a : b; g_rk_key = key; return g_rk_id; }
static void resp_finalize(void) { if(g_fin_calls < 2) g_fin_calls++; }
static size_t resp_copied_data(void) { if(g_cd_calls < 2) g_cd_calls++; g_cd_fin = g_fin_calls; return g_cd_id; }
static bool resp_need_gzip(void) { return g_need_gzip; }
static bool cm_fetch_data(size_t key, size_t *data, struct idset *out) { bool r = cm_fetch(key, out); if(r) *data = g_cm_data; return r; }
static void resp_content_encoding(int e) { if(g_enc_calls < 2) g_enc_calls++; g_enc_last = e; }
static void resp_write(size_t d, size_t l) { if(g_w_calls < 2) g_w_calls++; g_w_data = d; g_w_len = l; }
static void resp_copy_to_cache(void) { if(g_copy_calls < 2) g_copy_calls++; }
'''
functions = [
    dict(cname='mc_delete_node', file=M, locate=lit('void delete_node(pointer p)'), sig='void mc_delete_node(struct mc *self, hnd p)', self_arg='self', members=['size', 'triggers_count'],
         rewrites=[(r'lru\.erase\(p->second\.lru\)', 'lru_erase(ND(p)->lru)', 0), (r'timeout\.erase\(p->second\.timeout\)', 'timeout_erase(ND(p)->timeout)', 0),
                   (r'typename triggers_list_type::iterator i;', 'size_t i;', 1), (r'p->second\.triggers\.begin\(\)', 'ND(p)->trig0', 1), (r'p->second\.triggers\.end\(\)', 'ND(p)->trig0+ND(p)->ntrig', 1),
                   (r'i->first->second\.erase\(i->second\)', 'triglist_erase(TR(i)->first, TR(i)->second)', 0), (r'i->first->second\.empty\(\)', 'triglist_empty(TR(i)->first)', 1),
                   (r'triggers\.erase\(i->first\)', 'triggers_erase(TR(i)->first)', 1), (r'primary\.erase\(p\)', 'primary_erase(p)', 0)],
         body_ghost='g_del_first = (g_del_calls == 0) ? p : g_del_first; g_del_at_vi = ((size_t)g_del_calls == g_vi) ? p : g_del_at_vi; g_del_last = p; g_del_calls = g_del_calls + 1; g_cand_tm_valid = 0; g_cand_lru_valid = 0;',
         loops={0: r'''
__CPROVER_assigns(i, self->triggers_count, g_links_n, g_tl_erase_calls, g_trig_erase_calls)
__CPROVER_loop_invariant(i >= g_nd[p].trig0 && i <= g_nd[p].trig0 + g_nd[p].ntrig && g_links_n <= __CPROVER_loop_entry(g_links_n) && __CPROVER_loop_entry(g_links_n) - g_links_n == i - g_nd[p].trig0 && self->triggers_count == g_links_n)
__CPROVER_decreases(g_nd[p].trig0 + g_nd[p].ntrig - i)'''},
         contract=DEL_CONTRACT + r'''
'''),
    dict(cname='mc_check_limits', file=M, locate=lit('void check_limits()'), sig='void mc_check_limits(struct mc *self)', self_arg='self', members=['size', 'limit'],
         rename={'delete_node': 'mc_delete_node'},
         rewrites=[(r'pointer main=primary\.end\(\);', 'hnd main=0;', 1), (r'time\(&now\)', 'verif_time(&now)', 1),
                   (r'timeout\.empty\(\)', 'timeout_empty()', 1), (r'timeout\.begin\(\)->first', 'TM(timeout_begin())->first', 1), (r'timeout\.begin\(\)->second', 'TM(timeout_begin_again())->second', 1),
                   (r'lru\.empty\(\)', 'lru_empty()', 1), (r'\*lru\.rbegin\(\)', 'lru_back()', 1)],
         loop_ghost={0: 'g_cand_tm = pick_tm_min(); g_cand_tm_valid = (g_cand_tm != 0);'},
         loops={0: r'''
__CPROVER_assigns(main, self->size, self->triggers_count, g_primary_n, g_lru_n, g_tm_n, g_links_n, g_lru_erase_calls, g_lru_erase_arg, g_tm_erase_calls, g_tm_erase_arg, g_primary_erase_calls, g_primary_erase_arg,
                  g_tl_erase_calls, g_trig_erase_calls, g_del_calls, g_del_first, g_del_last, g_del_at_vi, g_cand_tm, g_cand_tm_valid, g_cand_lru_node, g_cand_lru_valid, g_nomem_seen)
__CPROVER_loop_invariant(RI(self) && self->size <= __CPROVER_loop_entry(self->size) && g_links_n <= __CPROVER_loop_entry(g_links_n) && g_del_calls >= 0 && g_del_calls <= 1 + (int)NCAP && (__CPROVER_loop_entry(g_del_calls) >= 1 ==> g_del_first == __CPROVER_loop_entry(g_del_first)) && g_del_calls >= __CPROVER_loop_entry(g_del_calls) && (size_t)(g_del_calls - __CPROVER_loop_entry(g_del_calls)) == __CPROVER_loop_entry(self->size) - self->size && !g_cand_tm_valid && !g_cand_lru_valid && now == g_now)
__CPROVER_decreases(self->size)'''},
         contract=r'''
__CPROVER_requires(__CPROVER_rw_ok(self, sizeof(*self)) && RI(self) && g_del_calls >= 0 && g_del_calls <= 1 && g_policy_on && !g_cand_tm_valid && !g_cand_lru_valid)
__CPROVER_assigns(self->size, self->triggers_count, g_primary_n, g_lru_n, g_tm_n, g_links_n, g_lru_erase_calls, g_lru_erase_arg, g_tm_erase_calls, g_tm_erase_arg, g_primary_erase_calls, g_primary_erase_arg,
                  g_tl_erase_calls, g_trig_erase_calls, g_del_calls, g_del_first, g_del_last, g_del_at_vi, g_cand_tm, g_cand_tm_valid, g_cand_lru_node, g_cand_lru_valid, g_time_calls, g_nomem_seen)
/* room is made: afterwards the cache is empty or strictly below its limit (limit 0 = unlimited), so one insertion keeps it within the limit;
   every victim was the prescribed candidate (precondition of delete_node, checked at each call); exactly size_before - size_after nodes were deleted */
__CPROVER_ensures(RI(self) && g_links_n <= __CPROVER_old(g_links_n) && self->size <= __CPROVER_old(self->size) && (self->size == 0 || self->limit == 0 || self->size < self->limit || g_nomem_seen))
__CPROVER_ensures(g_del_calls >= __CPROVER_old(g_del_calls) && (size_t)(g_del_calls - __CPROVER_old(g_del_calls)) == __CPROVER_old(self->size) - self->size && (__CPROVER_old(g_del_calls) >= 1 ==> g_del_first == __CPROVER_old(g_del_first)))
'''),
    dict(cname='mc_add_trigger', file=M, locate=lit('void add_trigger(pointer p,std::string const &key)'), sig='void mc_add_trigger(struct mc *self, hnd p, size_t key)', self_arg='self', members=['triggers_count'],
         rewrites=[(r'std::pair<string_type,pointer_list_type> tr\(to_int\(key\),pointer_list_type\(\)\);', '', 1), (r'std::pair<triggers_ptr,bool> r=triggers\.insert\(tr\);', 'hnd r_first = triggers_insert(key);', 0),
                   (r'triggers_ptr it = r\.first;', 'hnd it = r_first;', 1), (r'it->second\.push_front\(p\)', 'tlist_push_front(it, p)', 0),
                   (r'p->second\.triggers\.push_back\(trigger_ptr_type\(it,it->second\.begin\(\)\)\)', 'node_trigs_push_back(p, it, tlist_begin(it))', 0)],
         body_ghost='g_addtr_first_key = (g_addtr_calls == 0) ? key : g_addtr_first_key; g_addtr_last_key = key; g_addtr_node = p; g_addtr_calls = g_addtr_calls + 1;',
         contract='/* add_trigger(p,key): the trigger map gets (or already has) an entry for the name, the node is linked into that list, the node remembers the link, and the link is counted */\n'
                  '__CPROVER_requires(__CPROVER_rw_ok(self, sizeof(*self)) && p != 0 && p < NCAP && self->triggers_count == g_links_n && g_links_n < 16 * NCAP - 1 && g_addtr_calls >= 0 && g_addtr_calls <= 2000 && g_nd[p].ntrig <= 16 * NCAP)\n'
                  '__CPROVER_assigns(self->triggers_count, g_links_n, g_addtr_calls, g_addtr_last_key, g_addtr_first_key, g_addtr_node, g_nd[p].ntrig, g_trig_ins_key, g_ntp_list, g_ntp_pos, g_tlpf_list)\n'
                  '__CPROVER_ensures(self->triggers_count == __CPROVER_old(self->triggers_count) + 1 && g_links_n == __CPROVER_old(g_links_n) + 1 && g_addtr_calls == __CPROVER_old(g_addtr_calls) + 1 && '
                  'g_addtr_last_key == key && g_addtr_first_key == (__CPROVER_old(g_addtr_calls) == 0 ? key : __CPROVER_old(g_addtr_first_key)) && g_addtr_node == p)\n'
                  '__CPROVER_ensures(g_nd[p].ntrig == __CPROVER_old(g_nd[p].ntrig) + 1 && g_trig_ins_key == key && g_tlpf_list == g_ntp_list && g_ntp_pos != 0)'),
    dict(cname='mc_nl_clear', file=M, locate=lit('void nl_clear()'), sig='void mc_nl_clear(struct mc *self)', self_arg='self', members=['size', 'triggers_count', 'limit'],
         rewrites=[(r'timeout\.clear\(\)', 'timeout_clear()', 0), (r'lru\.clear\(\)', 'lru_clear()', 0), (r'primary\.clear\(\)', 'primary_clear()', 0), (r'triggers\.clear\(\)', 'triggers_clear()', 0),
                   (r'primary\.rehash\(limit\);', '', 1), (r'triggers\.rehash\(limit\);', '', 1)],
         contract='__CPROVER_requires(__CPROVER_rw_ok(self, sizeof(*self)))\n__CPROVER_assigns(self->size, self->triggers_count, g_primary_n, g_lru_n, g_tm_n, g_links_n)\n'
                  '/* clear: every structure is emptied and both counters are reset: the cache can be refilled from scratch */\n'
                  '__CPROVER_ensures(RI(self) && self->size == 0 && self->triggers_count == 0)'),
    dict(cname='mc_stats', file=M, locate=lit('virtual void stats(unsigned &keys,unsigned &triggers)'), sig='void mc_stats(struct mc *self, unsigned *keys, unsigned *triggers)', self_arg='self', refs=['keys', 'triggers'],
         members=['size', 'triggers_count'], rewrites=[(r'rdlock_guard lock\(\*access_lock\);', '', 1)],
         contract='__CPROVER_requires(__CPROVER_r_ok(self, sizeof(*self)) && RI(self) && __CPROVER_w_ok(keys, sizeof(*keys)) && __CPROVER_w_ok(triggers, sizeof(*triggers)))\n__CPROVER_assigns(*keys, *triggers)\n'
                  '/* the reported counts are the container cardinalities */\n__CPROVER_ensures(*keys == (unsigned)g_primary_n && *triggers == (unsigned)g_links_n)'),
    dict(cname='mc_store', file=M, locate=r'virtual void store\(\s*std::string const &key,\s*std::string const &a,\s*std::set<std::string> const &triggers_in,\s*time_t timeout_in,\s*uint64_t const \*gen\)',
         sig='void mc_store(struct mc *self, size_t key, size_t a, struct idset const *triggers_in, time_t timeout_in, uint64_t const *gen)', self_arg='self', members=['size', 'generation'],
         rename={'delete_node': 'mc_delete_node', 'check_limits': 'mc_check_limits', 'add_trigger': 'mc_add_trigger'},
         rewrites=[(r'string_type ar;', 'size_t ar = 0;', 1), (r'try \{', '{', 2), (r'string_type tmp = to_int\(a\);', 'size_t tmp = a;', 1), (r'ar\.swap\(tmp\);', 'ar = tmp;', 1),
                   (r'catch\(std::bad_alloc const &\)\s*\{\s*return;\s*\}', '', 1), (r'catch\(std::bad_alloc const &e\)\s*\{\s*nl_clear\(\);\s*\}', '', 1),
                   (r'wrlock_guard lock\(\*access_lock\);', '', 1), (r'pointer main\b', 'hnd main', 1), (r'primary\.find\(key\)', 'primary_find(key)', 1), (r'primary\.end\(\)', '0', 1),
                   (r'string_type int_key = to_int\(key\);', '', 1),
                   (r'std::pair<pointer,bool> res=primary\.insert\(std::pair<string_type,container>\(int_key,container\(\)\)\);', 'hnd res_first = primary_insert(key);', 0),
                   (r'main=res\.first;', 'main = res_first;', 1), (r'container &cont=main->second;', 'struct node *cont = ND(main);', 1), (r'cont\.data\.swap\(ar\);', 'cont->data = ar;', 0),
                   (r'cont\.', 'cont->', 4), (r'lru\.push_front\(main\)', 'lru_push_front(main)', 0), (r'lru\.begin\(\)', 'lru_begin()', 1),
                   (r'timeout\.insert\(std::pair<time_t,pointer>\(timeout_in,main\)\)', 'timeout_insert(timeout_in, main)', 0),
                   (r'triggers_in\.find\(key\)', 'set_find_key(triggers_in)', 0), (r'\btriggers\.find\(key\)', 'triggers_find(key)', 0), (r'\btriggers\.end\(\)', '0', 0), (r'std::set<std::string>::const_iterator si;', 'size_t si;', 1),
                   (r'triggers_in\.begin\(\)', '0', 1), (r'triggers_in\.end\(\)', 'triggers_in->n', 1), (r'\*si\b', 'set_elem(triggers_in, si)', 1)],
         body_ghost='g_gen0 = self->generation; g_policy_on = 0;',
         inserts=[(r'mc_delete_node\(self, main\);', 0, 'g_policy_on = 1;')],
         loops={0: r'''
__CPROVER_assigns(si, self->triggers_count, g_links_n, g_addtr_calls, g_addtr_last_key, g_addtr_first_key, g_addtr_node, g_nd[main].ntrig, g_trig_ins_key, g_ntp_list, g_ntp_pos, g_tlpf_list)
__CPROVER_loop_invariant(si <= triggers_in->n && self->triggers_count == g_links_n && g_links_n <= 15 * NCAP + si + 1 && g_addtr_calls == (int)si + (triggers_in->has_key ? 0 : 1) && (g_addtr_calls > 0 ==> g_addtr_node == main) && (!triggers_in->has_key ==> g_addtr_first_key == key) && main != 0 && main < NCAP && g_nd[main].ntrig <= si + 1 && g_addtr_calls >= 0)
__CPROVER_decreases(triggers_in->n - si)'''},
         contract=r'''
__CPROVER_requires(__CPROVER_rw_ok(self, sizeof(*self)) && RI(self) && g_primary_n < NCAP && g_links_n <= 15 * NCAP && triggers_in->n <= 1000 && __CPROVER_r_ok(triggers_in->id, triggers_in->n * sizeof(size_t)) &&
                   (gen == 0 || __CPROVER_r_ok(gen, sizeof(*gen))) && g_del_calls == 0 && g_addtr_calls == 0 && g_primary_insert_calls == 0 && g_lru_push_calls == 0 && g_tm_insert_calls == 0 &&
                   !g_cand_tm_valid && !g_cand_lru_valid && (g_find_res == 0 || (NODE_SANE(g_find_res) && self->size >= 1)) && g_new_node != 0 && g_new_node < NCAP && g_new_tm != 0 && g_new_lru != 0 && self->generation < (1ull << 62))
__CPROVER_assigns(self->size, self->triggers_count, self->generation, g_primary_n, g_lru_n, g_tm_n, g_links_n, g_lru_erase_calls, g_lru_erase_arg, g_tm_erase_calls, g_tm_erase_arg, g_primary_erase_calls, g_primary_erase_arg,
                  g_tl_erase_calls, g_trig_erase_calls, g_del_calls, g_del_first, g_del_last, g_del_at_vi, g_cand_tm, g_cand_tm_valid, g_cand_lru_node, g_cand_lru_valid, g_time_calls, g_find_calls, g_find_key,
                  g_primary_insert_calls, g_insert_key, g_lru_push_calls, g_lru_push_arg, g_lru_front, g_tm_insert_calls, g_tm_insert_deadline, g_tm_insert_node, g_addtr_calls, g_addtr_last_key, g_addtr_first_key, g_addtr_node,
                  g_gen0, g_policy_on, g_nomem_seen, g_nd[g_new_node], g_trig_ins_key, g_ntp_list, g_ntp_pos, g_tlpf_list)
__CPROVER_ensures(RI(self) && g_find_calls == 1 && g_find_key == key)
/* an entry already stored under the key is removed first (superseded data can never be found again) */
__CPROVER_ensures(g_find_res != 0 ==> (g_del_calls >= 1 && g_del_first == g_find_res))
/* C08: with a limit of n entries the cache never holds more than n */
__CPROVER_ensures((self->limit > 0 && !g_nomem_seen && __CPROVER_old(self->size) <= self->limit) ==> self->size <= self->limit)
/* the new entry: one node under this key, carrying the value, a generation no earlier store had (or the caller's), at the FRONT of the LRU list, with its deadline registered */
__CPROVER_ensures(g_primary_insert_calls <= 1 && (g_primary_insert_calls == 1 ==> (g_insert_key == key && g_nd[g_new_node].data == a &&
                  g_nd[g_new_node].generation == (gen ? *gen : g_gen0) && self->generation == (gen ? g_gen0 : g_gen0 + 1) &&
                  g_lru_push_calls == 1 && g_lru_push_arg == g_new_node && g_nd[g_new_node].lru == g_new_lru &&
                  g_tm_insert_calls == 1 && g_tm_insert_deadline == timeout_in && g_tm_insert_node == g_new_node && g_nd[g_new_node].timeout == g_new_tm)))
/* triggers: the key itself (unless listed) and every listed trigger, each attached to the new node */
__CPROVER_ensures(g_primary_insert_calls == 1 ==> (g_addtr_calls == (int)triggers_in->n + (triggers_in->has_key ? 0 : 1) && (g_addtr_calls > 0 ==> g_addtr_node == g_new_node) &&
                  (!triggers_in->has_key ==> g_addtr_first_key == key)))
__CPROVER_ensures(g_primary_insert_calls == 0 ==> (g_addtr_calls == 0 && g_lru_push_calls == 0 && g_tm_insert_calls == 0))
'''),
    dict(cname='mc_fetch', file=M, locate=lit('virtual bool fetch(std::string const &key,std::string *a,std::set<std::string> *triggers,time_t *timeout_out,uint64_t *gen)'),
         sig='bool mc_fetch(struct mc *self, size_t key, size_t *a, int *triggers, time_t *timeout_out, uint64_t *gen)', self_arg='self',
         rewrites=[(r'rdlock_guard lock\(\*access_lock\);', '', 1), (r'lock_guard lock\(\*lru_mutex\);', '', 1), (r'pointer p;', 'hnd p;', 1), (r'time\(&now\)', 'verif_time(&now)', 1),
                   (r'primary\.find\(key\)', 'primary_find(key)', 1), (r'primary\.end\(\)', '0', 1), (r'p->second\.timeout->first', 'TM(ND(p)->timeout)->first', 2),
                   (r'lru\.erase\(p->second\.lru\)', 'lru_erase(ND(p)->lru)', 0), (r'lru\.push_front\(p\)', 'lru_push_front(p)', 0), (r'p->second\.lru=lru\.begin\(\)', 'ND(p)->lru=lru_begin()', 0),
                   (r'to_std\(p->second\.data\)', 'ND(p)->data', 1), (r'typename triggers_list_type::iterator tp;', 'size_t tp;', 1),
                   (r'p->second\.triggers\.begin\(\)', 'ND(p)->trig0', 1), (r'p->second\.triggers\.end\(\)', 'ND(p)->trig0+ND(p)->ntrig', 1),
                   (r'triggers->insert\(to_std\(tp->first->first\)\)', 'out_trig_insert(TR(tp)->first)', 1), (r'p->second\.generation', 'ND(p)->generation', 1)],
         loops={0: r'''
__CPROVER_assigns(tp, g_out_trig_calls, g_out_trig_last)
__CPROVER_loop_invariant(tp >= g_nd[p].trig0 && tp <= g_nd[p].trig0 + g_nd[p].ntrig && g_out_trig_calls == (int)(tp - g_nd[p].trig0))
__CPROVER_decreases(g_nd[p].trig0 + g_nd[p].ntrig - tp)'''},
         contract=r'''
__CPROVER_requires(__CPROVER_rw_ok(self, sizeof(*self)) && RI(self) && (g_find_res == 0 || (NODE_SANE(g_find_res) && self->size >= 1)) &&
                   (a == 0 || __CPROVER_rw_ok(a, sizeof(*a))) && (timeout_out == 0 || __CPROVER_rw_ok(timeout_out, sizeof(*timeout_out))) && (gen == 0 || __CPROVER_rw_ok(gen, sizeof(*gen))) &&
                   g_find_calls == 0 && g_lru_erase_calls == 0 && g_lru_push_calls == 0 && g_out_trig_calls == 0 && g_new_lru != 0)
__CPROVER_assigns(g_find_calls, g_find_key, g_time_calls, g_lru_n, g_lru_erase_calls, g_lru_erase_arg, g_lru_push_calls, g_lru_push_arg, g_lru_front, g_out_trig_calls, g_out_trig_last, g_nd[g_find_res].lru;
                  a != 0: *a; timeout_out != 0: *timeout_out; gen != 0: *gen)
/* C07: a fetch misses exactly when the key is absent or its deadline has passed (deadline < now, the same predicate the eviction policy uses); nothing is evicted or counted differently */
__CPROVER_ensures(RI(self) && g_find_calls == 1 && g_find_key == key && __CPROVER_return_value == (g_find_res != 0 && !(g_tm[g_nd[g_find_res].timeout].first < g_now)))
/* a hit returns exactly the value, deadline, generation and the triggers of the node found, and makes it the most recently used entry */
__CPROVER_ensures(__CPROVER_return_value ==> ((a != 0 ==> *a == g_nd[g_find_res].data) && (timeout_out != 0 ==> *timeout_out == g_tm[g_nd[g_find_res].timeout].first) && (gen != 0 ==> *gen == g_nd[g_find_res].generation) &&
                  (triggers != 0 ==> g_out_trig_calls == (int)g_nd[g_find_res].ntrig) &&
                  g_lru_erase_calls == 1 && g_lru_push_calls == 1 && g_lru_push_arg == g_find_res && g_nd[g_find_res].lru == g_new_lru))
__CPROVER_ensures(!__CPROVER_return_value ==> (g_lru_erase_calls == 0 && g_lru_push_calls == 0 && g_out_trig_calls == 0))
'''),
    dict(cname='mc_remove', file=M, locate=lit('virtual void remove(std::string const &key)'), sig='void mc_remove(struct mc *self, size_t key)', self_arg='self', rename={'delete_node': 'mc_delete_node'},
         rewrites=[(r'wrlock_guard lock\(\*access_lock\);', '', 1), (r'pointer p=primary\.find\(key\);', 'hnd p=primary_find(key);', 1), (r'primary\.end\(\)', '0', 1)],
         contract=r'''
__CPROVER_requires(__CPROVER_rw_ok(self, sizeof(*self)) && RI(self) && (g_find_res == 0 || (NODE_SANE(g_find_res) && self->size >= 1)) && g_del_calls == 0 && g_find_calls == 0 && !g_policy_on)
__CPROVER_assigns(self->size, self->triggers_count, g_primary_n, g_lru_n, g_tm_n, g_links_n, g_lru_erase_calls, g_lru_erase_arg, g_tm_erase_calls, g_tm_erase_arg, g_primary_erase_calls, g_primary_erase_arg,
                  g_tl_erase_calls, g_trig_erase_calls, g_del_calls, g_del_first, g_del_last, g_del_at_vi, g_cand_tm_valid, g_cand_lru_valid, g_find_calls, g_find_key)
/* the node stored under the key, if any, is deleted -- that one and no other */
__CPROVER_ensures(RI(self) && g_find_calls == 1 && g_find_key == key && g_del_calls == (g_find_res != 0 ? 1 : 0) && (g_find_res != 0 ==> g_del_last == g_find_res))
'''),
    dict(cname='mc_rise', file=M, locate=lit('virtual void rise(std::string const &trigger)'), sig='void mc_rise(struct mc *self, size_t trigger)', self_arg='self', rename={'delete_node': 'mc_delete_node'},
         rewrites=[(r'wrlock_guard lock\(\*access_lock\);', '', 1), (r'triggers_ptr p = triggers\.find\(trigger\);', 'hnd p = triggers_find(trigger);', 1), (r'triggers\.end\(\)', '0', 1),
                   (r'std::list<pointer> kill_list;', 'struct klist kill_list = {0, 0};', 1),
                   (r'typename pointer_list_type::iterator it=p->second\.begin\(\)', 'size_t it=g_trig_l0', 1), (r'p->second\.end\(\)', 'g_trig_l0+g_trig_ln', 1),
                   (r'kill_list\.push_back\(\*it\)', 'kl_push(&kill_list, it)', 0), (r'typename std::list<pointer>::iterator lptr;', 'size_t lptr;', 1),
                   (r'kill_list\.begin\(\)', '0', 1), (r'kill_list\.end\(\)', 'kill_list.n', 1), (r'delete_node\(\*lptr\)', 'delete_node(kl_get(&kill_list, lptr))', 0)],
         loops={0: r'''
__CPROVER_assigns(it, kill_list)
__CPROVER_loop_invariant(it >= g_trig_l0 && it <= g_trig_l0 + g_trig_ln && kill_list.n == it - g_trig_l0 && (kill_list.n > 0 ==> kill_list.base == g_trig_l0))
__CPROVER_decreases(g_trig_l0 + g_trig_ln - it)''',
                1: r'''
__CPROVER_assigns(lptr, self->size, self->triggers_count, g_primary_n, g_lru_n, g_tm_n, g_links_n, g_lru_erase_calls, g_lru_erase_arg, g_tm_erase_calls, g_tm_erase_arg, g_primary_erase_calls, g_primary_erase_arg,
                  g_tl_erase_calls, g_trig_erase_calls, g_del_calls, g_del_first, g_del_last, g_del_at_vi, g_cand_tm_valid, g_cand_lru_valid)
__CPROVER_loop_invariant(lptr <= kill_list.n && RI(self) && g_del_calls == (int)lptr && self->size + lptr == __CPROVER_loop_entry(self->size) && (g_vi < lptr ==> g_del_at_vi == g_tl[g_trig_l0 + g_vi]))
__CPROVER_decreases(kill_list.n - lptr)'''},
         contract=r'''
/* the trigger's list holds g_trig_ln distinct live nodes (at most the whole cache) */
__CPROVER_requires(__CPROVER_rw_ok(self, sizeof(*self)) && RI(self) && g_del_calls == 0 && !g_policy_on && g_trig_ln <= self->size && g_trig_l0 <= 15 * NCAP && g_trig_ln <= NCAP)
__CPROVER_assigns(self->size, self->triggers_count, g_primary_n, g_lru_n, g_tm_n, g_links_n, g_lru_erase_calls, g_lru_erase_arg, g_tm_erase_calls, g_tm_erase_arg, g_primary_erase_calls, g_primary_erase_arg,
                  g_tl_erase_calls, g_trig_erase_calls, g_del_calls, g_del_first, g_del_last, g_del_at_vi, g_cand_tm_valid, g_cand_lru_valid)
/* C07: raising a trigger deletes every entry attached to it -- each element of the trigger's list exactly once, in order -- and nothing else */
__CPROVER_ensures(RI(self) && g_del_calls == (g_trig_find_res != 0 ? (int)g_trig_ln : 0) && ((g_trig_find_res != 0 && g_vi < g_trig_ln) ==> g_del_at_vi == g_tl[g_trig_l0 + g_vi]))
'''),
    # ---------------- cache_interface: triggers recorded while a page/frame is built (C07)
    dict(cname='ci_deadtime', file=CI, locate=lit('time_t deadtime(int sec)'), sig='time_t ci_deadtime(int sec)', throw_ret='0',
         rewrites=[(r'\binfty\b', 'INFTY_T', 1), (r'time\(&tmp\)', 'verif_time(&tmp)', 1)],
         contract='/* the clock is far from the end of time_t (the wrap test `tmp+sec<tmp` itself relies on signed wrap: observation) */\n__CPROVER_requires(verif_thrown == 0 && g_now >= 0 && g_now <= (1ll << 61))\n__CPROVER_assigns(verif_thrown, g_time_calls)\n'
                  '/* a negative timeout means "never expires"; otherwise the deadline is now + sec (no wrap: refused) */\n'
                  '__CPROVER_ensures(sec < 0 ? (__CPROVER_return_value == INFTY_T && !verif_thrown) : (verif_thrown || __CPROVER_return_value == g_now + sec))'),
    dict(cname='ci_add_trigger', file=CI, locate=lit('void cache_interface::add_trigger(string const &t)'), sig='void ci_add_trigger(struct cif *self, size_t t)', self_arg='self',
         rewrites=[(r'nocache\(\)', '(!self->has_cache)', 1), (r'std::set<triggers_recorder \*>::iterator p=recorders_\.begin\(\)', 'size_t p=0', 1), (r'recorders_\.end\(\)', 'self->nrec', 1),
                   (r'\(\*p\)->add\(t\)', 'rec_add(p, t)', 0), (r'triggers_\.insert\(t\)', 'trigs_insert(t)', 0)],
         body_ghost='g_at_at_k = ((size_t)g_at_calls == g_at_k) ? t : g_at_at_k; g_at_last = t; g_at_calls = g_at_calls + 1;',
         loops={0: r'''
__CPROVER_assigns(p, g_ci_rec_adds, g_ci_rec_adds_at_ri, g_ci_rec_last_t)
__CPROVER_loop_invariant(p <= self->nrec && g_ci_rec_adds == __CPROVER_loop_entry(g_ci_rec_adds) + (int)p && g_ci_rec_adds_at_ri == __CPROVER_loop_entry(g_ci_rec_adds_at_ri) + (g_ri < p ? 1 : 0) && (g_ri < p ==> g_ci_rec_last_t == t))
__CPROVER_decreases(self->nrec - p)'''},
         contract=r'''
__CPROVER_requires(__CPROVER_r_ok(self, sizeof(*self)) && self->nrec <= 1000 && g_ci_rec_adds >= 0 && g_ci_rec_adds <= 2000000 && g_ci_rec_adds_at_ri >= 0 && g_ci_rec_adds_at_ri <= 2000 && g_ci_trig_inserts >= 0 && g_ci_trig_inserts <= 2000 && g_at_calls >= 0 && g_at_calls <= 2000)
__CPROVER_assigns(g_ci_rec_adds, g_ci_rec_adds_at_ri, g_ci_rec_last_t, g_ci_trig_inserts, g_ci_trig_last, g_at_calls, g_at_last, g_at_at_k)
/* the trigger is attached to the page being built AND handed to EVERY active recorder (observed at the arbitrary recorder g_ri), exactly once each */
__CPROVER_ensures(self->has_cache ==> (g_ci_trig_inserts == __CPROVER_old(g_ci_trig_inserts) + 1 && g_ci_trig_last == t && g_ci_rec_adds == __CPROVER_old(g_ci_rec_adds) + (int)self->nrec &&
                  (g_ri < self->nrec ? (g_ci_rec_adds_at_ri == __CPROVER_old(g_ci_rec_adds_at_ri) + 1 && g_ci_rec_last_t == t) : g_ci_rec_adds_at_ri == __CPROVER_old(g_ci_rec_adds_at_ri))))
__CPROVER_ensures(!self->has_cache ==> (g_ci_trig_inserts == __CPROVER_old(g_ci_trig_inserts) && g_ci_rec_adds == __CPROVER_old(g_ci_rec_adds) && g_ci_rec_adds_at_ri == __CPROVER_old(g_ci_rec_adds_at_ri)))
__CPROVER_ensures(g_at_calls == __CPROVER_old(g_at_calls) + 1 && g_at_last == t && g_at_at_k == ((size_t)__CPROVER_old(g_at_calls) == g_at_k ? t : __CPROVER_old(g_at_at_k)))
'''),
    dict(cname='ci_fetch', file=CI, locate=lit('bool cache_interface::fetch(string const &key,string &result,bool notriggers)'), sig='bool ci_fetch(struct cif *self, size_t key, bool notriggers)', self_arg='self',
         rename={'add_trigger': 'ci_add_trigger'},
         rewrites=[(r'nocache\(\)', '(!self->has_cache)', 1), (r'set<string> new_trig;', 'struct idset new_trig = {0, 0, 0};', 1), (r'triggers_\.find\((\w+)\)', r'trigs_find(\1)', 0), (r'triggers_\.end\(\)', 'TRIGS_END', 0), (r'cache_module_->fetch\(key,result,', 'cm_fetch(key,', 1),
                   (r'std::set<std::string>::const_iterator p;', 'size_t p;', 1), (r'new_trig\.begin\(\)', '0', 1), (r'new_trig\.end\(\)', 'new_trig.n', 1), (r'\*p\b', 'set_elem(&new_trig, p)', 0)],
         loops={0: r'''
__CPROVER_assigns(p, g_ci_rec_adds, g_ci_rec_adds_at_ri, g_ci_rec_last_t, g_ci_trig_inserts, g_ci_trig_last, g_at_calls, g_at_last, g_at_at_k)
__CPROVER_loop_invariant(p <= new_trig.n && new_trig.n == g_cm_trigs.n && new_trig.id == g_cm_trigs.id && g_at_calls == (int)p && g_ci_trig_inserts == (int)p && g_ci_rec_adds >= 0 && g_ci_rec_adds <= 1000 * (int)p && g_ci_rec_adds_at_ri == (g_ri < self->nrec ? (int)p : 0) &&
      (g_at_k < p ==> g_at_at_k == g_cm_trigs.id[g_at_k]))
__CPROVER_decreases(new_trig.n - p)'''},
         contract=r'''
__CPROVER_requires(__CPROVER_r_ok(self, sizeof(*self)) && self->nrec <= 1000 && g_cm_trigs.n <= 1000 && __CPROVER_r_ok(g_cm_trigs.id, g_cm_trigs.n * sizeof(size_t)) && g_cm_fetch_calls == 0 &&
                   g_ci_rec_adds == 0 && g_ci_rec_adds_at_ri == 0 && g_ci_trig_inserts == 0 && g_at_calls == 0 && self->has_cache)
__CPROVER_assigns(g_cm_fetch_calls, g_cm_fetch_key, g_cm_fetch_wants_trigs, g_ci_rec_adds, g_ci_rec_adds_at_ri, g_ci_rec_last_t, g_ci_trig_inserts, g_ci_trig_last, g_at_calls, g_at_last, g_at_at_k)
/* a hit on a cached frame INHERITS its triggers: every trigger the back end reports is added (to the page being built and to every recorder), in order, exactly once; a miss or notriggers adds nothing */
__CPROVER_ensures(g_cm_fetch_calls == 1 && g_cm_fetch_key == key && __CPROVER_return_value == g_cm_hit && g_cm_fetch_wants_trigs == !notriggers)
__CPROVER_ensures((g_cm_hit && !notriggers) ? (g_at_calls == (int)g_cm_trigs.n && (g_at_k < g_cm_trigs.n ==> g_at_at_k == g_cm_trigs.id[g_at_k])) : g_at_calls == 0)
'''),
    dict(cname='ci_store', file=CI, locate=r'void cache_interface::store\(string const &key,string const &data,\s*set<string> const &triggers,\s*int timeout,\s*bool notriggers\)',
         sig='void ci_store(struct cif *self, size_t key, size_t data, struct idset const *triggers, int timeout, bool notriggers)', self_arg='self', throw_ret='', throwing_callees=['ci_deadtime'],
         rename={'add_trigger': 'ci_add_trigger', 'deadtime': 'ci_deadtime'},
         rewrites=[(r'nocache\(\)', '(!self->has_cache)', 1), (r'std::set<std::string>::const_iterator p;', 'size_t p;', 1), (r'triggers\.begin\(\)', '0', 1), (r'triggers\.end\(\)', 'triggers->n', 1),
                   (r'\*p\b', 'set_elem(triggers, p)', 0), (r'cache_module_->store\(key,data,triggers,deadtime\(timeout\)\);', 'time_t dl = deadtime(timeout); cm_store(key, data, triggers, dl);', 0)],
         loops={0: r'''
__CPROVER_assigns(p, g_ci_rec_adds, g_ci_rec_adds_at_ri, g_ci_rec_last_t, g_ci_trig_inserts, g_ci_trig_last, g_at_calls, g_at_last, g_at_at_k)
__CPROVER_loop_invariant(p <= triggers->n && g_at_calls == (int)p && g_ci_trig_inserts == (int)p && g_ci_rec_adds >= 0 && g_ci_rec_adds <= 1000 * (int)p && g_ci_rec_adds_at_ri == (g_ri < self->nrec ? (int)p : 0) && (g_at_k < p ==> g_at_at_k == triggers->id[g_at_k]))
__CPROVER_decreases(triggers->n - p)'''},
         contract=r'''
__CPROVER_requires(__CPROVER_r_ok(self, sizeof(*self)) && self->nrec <= 1000 && triggers->n <= 1000 && __CPROVER_r_ok(triggers->id, triggers->n * sizeof(size_t)) && g_cm_store_calls == 0 && verif_thrown == 0 && g_now >= 0 && g_now <= (1ll << 61) &&
                   g_ci_rec_adds == 0 && g_ci_rec_adds_at_ri == 0 && g_ci_trig_inserts == 0 && g_at_calls == 0 && self->has_cache)
__CPROVER_assigns(verif_thrown, g_time_calls, g_cm_store_calls, g_cm_store_at, g_cm_store_key, g_cm_store_data, g_cm_store_trigs, g_cm_store_deadline, g_ci_rec_adds, g_ci_rec_adds_at_ri, g_ci_rec_last_t, g_ci_trig_inserts, g_ci_trig_last, g_at_calls, g_at_last, g_at_at_k)
/* storing a frame makes the enclosing page depend on the frame's triggers and on the frame's own key; the back end receives exactly key, data, the trigger set and now+timeout */
__CPROVER_ensures(!notriggers ? (g_at_calls == (int)triggers->n + 1 && g_at_last == key && (g_at_k < triggers->n ==> g_at_at_k == triggers->id[g_at_k])) : g_at_calls == 0)
__CPROVER_ensures(!verif_thrown ==> (g_cm_store_calls == 1 && g_cm_store_key == key && g_cm_store_data == data && g_cm_store_trigs == triggers && g_cm_store_deadline == (timeout < 0 ? INFTY_T : g_now + timeout)))
'''),
    dict(cname='ci_store_page', file=CI, locate=lit('void cache_interface::store_page(string const &key,int timeout)'), sig='void ci_store_page(struct cif *self, size_t key, int timeout)', self_arg='self', throw_ret='',
         throwing_callees=['ci_deadtime'], rename={'add_trigger': 'ci_add_trigger', 'deadtime': 'ci_deadtime'}, members=['page_compression_used_'],
         rewrites=[(r'nocache\(\)', '(!self->has_cache)', 1), (r'!context_\b', '!self->has_context', 1), (r'context_->response\(\)\.finalize\(\);', 'resp_finalize();', 0),
                   (r'std::string r_key = \(([\w>-]+) \? "_(\w):" : "_(\w):"\) \+ key;', r'size_t r_key = rkey_rec(\1, LBL_\2, LBL_\3, key);', 1), (r'\btriggers_\b', '(&g_page_trigs)', 0), (r'(?:std::)?set<(?:std::)?string>\(\)', '(&g_empty_set)', 0),
                   (r'cache_module_->store\((\w+),context_->response\(\)\.copied_data\(\),([^,]+),deadtime\((\w+)\)\);', r'size_t cd = resp_copied_data(); time_t dl = deadtime(\3); cm_store(\1, cd, \2, dl);', 0)],
         contract=r'''
__CPROVER_requires(__CPROVER_r_ok(self, sizeof(*self)) && self->nrec <= 1000 && g_cm_store_calls == 0 && verif_thrown == 0 && g_now >= 0 && g_now <= (1ll << 61) && g_rk_calls == 0 && g_fin_calls == 0 && g_cd_calls == 0 &&
                   g_ci_rec_adds == 0 && g_ci_rec_adds_at_ri == 0 && g_ci_trig_inserts == 0 && g_at_calls == 0)
__CPROVER_assigns(verif_thrown, g_time_calls, g_cm_store_calls, g_cm_store_at, g_cm_store_key, g_cm_store_data, g_cm_store_trigs, g_cm_store_deadline, g_ci_rec_adds, g_ci_rec_adds_at_ri, g_ci_rec_last_t, g_ci_trig_inserts, g_ci_trig_last,
                  g_at_calls, g_at_last, g_at_at_k, g_rk_calls, g_rk_label, g_rk_key, g_fin_calls, g_cd_calls, g_cd_fin)
/* C07: a page is stored under the variant (compressed / plain) that fetch_page chose for this request, with the COMPLETE output (copied after finalize), and with the WHOLE set of triggers recorded while it
   was built -- its own key attached BEFORE the set is handed to the back end -- and deadline now + timeout */
__CPROVER_ensures((self->has_cache && self->has_context && !verif_thrown) ==> (g_cm_store_calls == 1 && g_rk_calls == 1 && g_cm_store_key == g_rk_id && g_rk_key == key && g_rk_label == (self->page_compression_used_ ? LBL_Z : LBL_U) &&
                  g_cd_calls == 1 && g_cm_store_data == g_cd_id && g_cd_fin == 1 && g_fin_calls == 1 && g_cm_store_trigs == &g_page_trigs && g_at_calls == 1 && g_at_last == key && g_cm_store_at == 1 &&
                  g_cm_store_deadline == (timeout < 0 ? INFTY_T : g_now + timeout)))
__CPROVER_ensures(!(self->has_cache && self->has_context) ==> (g_cm_store_calls == 0 && g_at_calls == 0 && g_fin_calls == 0))
'''),
    dict(cname='ci_fetch_page', file=CI, locate=lit('bool cache_interface::fetch_page(string const &key)'), sig='bool ci_fetch_page(struct cif *self, size_t key)', self_arg='self', members=['page_compression_used_'],
         rewrites=[(r'nocache\(\)', '(!self->has_cache)', 1), (r'!context_\b', '!self->has_context', 1), (r'context_->response\(\)\.need_gzip\(\)', 'resp_need_gzip()', 1),
                   (r'std::string r_key = \(([\w>-]+) \? "_(\w):" : "_(\w):"\) \+ key;', r'size_t r_key = rkey_rec(\1, LBL_\2, LBL_\3, key);', 1), (r'std::string tmp;', 'size_t tmp = 0;', 1),
                   (r'cache_module_->fetch\((\w+),tmp,', r'cm_fetch_data(\1, &tmp,', 1), (r'context_->response\(\)\.content_encoding\("(\w+)"\)', r'resp_content_encoding(ENC_\1)', 0),
                   (r'context_->response\(\)\.out\(\)\.write\((\w+)\.c_str\(\),(\w+)\.size\(\)\)', r'resp_write(\1, \2)', 0), (r'context_->response\(\)\.copy_to_cache\(\)', 'resp_copy_to_cache()', 0)],
         contract=r'''
__CPROVER_requires(__CPROVER_rw_ok(self, sizeof(*self)) && g_cm_fetch_calls == 0 && g_rk_calls == 0 && g_w_calls == 0 && g_enc_calls == 0 && g_copy_calls == 0)
__CPROVER_assigns(self->page_compression_used_, g_cm_fetch_calls, g_cm_fetch_key, g_cm_fetch_wants_trigs, g_rk_calls, g_rk_label, g_rk_key, g_w_calls, g_w_data, g_w_len, g_enc_calls, g_enc_last, g_copy_calls)
/* C07: the page is looked up under the variant this client can take (gzip or not), the choice is remembered for store_page, a hit writes exactly the cached bytes (declared gzip only for the compressed variant),
   and a miss arranges for the output to be copied so store_page can store it */
__CPROVER_ensures((self->has_cache && self->has_context) ==> (self->page_compression_used_ == g_need_gzip && g_cm_fetch_calls == 1 && g_rk_calls == 1 && g_cm_fetch_key == g_rk_id && g_rk_key == key &&
                  g_rk_label == (g_need_gzip ? LBL_Z : LBL_U) && __CPROVER_return_value == g_cm_hit))
__CPROVER_ensures((self->has_cache && self->has_context && g_cm_hit) ==> (g_w_calls == 1 && g_w_data == g_cm_data && g_w_len == g_cm_data && g_copy_calls == 0 && (g_need_gzip ? (g_enc_calls == 1 && g_enc_last == ENC_gzip) : g_enc_calls == 0)))
__CPROVER_ensures((self->has_cache && self->has_context && !g_cm_hit) ==> (g_w_calls == 0 && g_copy_calls == 1))
__CPROVER_ensures(!(self->has_cache && self->has_context) ==> (!__CPROVER_return_value && g_cm_fetch_calls == 0 && g_w_calls == 0))
'''),
]

SETUP = r'''
    struct mc c; size_t capn, capt, capr, capl; __CPROVER_assume(capn >= NCAP && capn <= NCAP + 2 && capt >= NCAP && capt <= NCAP + 2 && capr >= 16 * NCAP && capr <= 16 * NCAP + 2 && capl >= 16 * NCAP && capl <= 16 * NCAP + 2);
    g_nd = malloc(capn * sizeof(struct node)); g_tm = malloc(capt * sizeof(struct tment)); g_tr = malloc(capr * sizeof(struct tref)); g_tl = malloc(capl * sizeof(hnd));
    __CPROVER_assume(g_nd != NULL && g_tm != NULL && g_tr != NULL && g_tl != NULL);
    size_t pn, ln; __CPROVER_assume(pn <= NCAP && ln <= 15 * NCAP); g_primary_n = pn; g_lru_n = pn; g_tm_n = pn; g_links_n = ln; c.size = pn; c.triggers_count = ln;
    g_del_calls = 0; g_tl_erase_calls = 0; g_tm_erase_calls = 0; g_primary_erase_calls = 0; g_trig_erase_calls = 0; g_time_calls = 0; g_addtr_calls = 0; g_primary_insert_calls = 0; g_lru_push_calls = 0; g_lru_erase_calls = 0; g_tm_insert_calls = 0; g_find_calls = 0; g_out_trig_calls = 0; g_cand_tm_valid = 0; g_cand_lru_valid = 0; g_nomem_seen = 0;
    size_t vi; g_vi = vi; time_t nw; g_now = nw; hnd fr, nn, nt, nl; g_find_res = fr; g_new_node = nn; g_new_tm = nt; g_new_lru = nl; int pol; g_policy_on = pol != 0;
'''
jobs = [
    dict(name='mc_delete_node', props=P78, replay='c07:history', replay_link=['-fno-access-control', '-L{BUILD}', '-lcppcms', '-L{BUILD}/booster', '-lbooster', '-lpthread'], replay_exhaustive='the real thread cache with limits 0,1,2,3,5 through 4000-step pseudo-random histories of store/fetch/rise/remove/clear (keys that are also trigger names, expired and live deadlines) against a reference model (map + LRU list + expired-first eviction); fetch results and key/trigger counts compared after every step', enforce='mc_delete_node', harness=SETUP + 'hnd p; mc_delete_node(&c, p); VERIF_REACH;'),
    dict(name='mc_check_limits', props=P8, replay='c07:history', replay_link=['-fno-access-control', '-L{BUILD}', '-lcppcms', '-L{BUILD}/booster', '-lbooster', '-lpthread'], replay_exhaustive='the real thread cache with limits 0,1,2,3,5 through 4000-step pseudo-random histories of store/fetch/rise/remove/clear (keys that are also trigger names, expired and live deadlines) against a reference model (map + LRU list + expired-first eviction); fetch results and key/trigger counts compared after every step', enforce='mc_check_limits', replace=['mc_delete_node'], per_property=r'.', pp_chunk=8, pp_workers=14, timeout=600, harness=SETUP + 'mc_check_limits(&c); VERIF_REACH;'),
    dict(name='mc_add_trigger', props=P78, enforce='mc_add_trigger', harness=SETUP + 'hnd p, tl1, tl2; size_t key; g_new_trig_list = tl1; g_new_tl_pos = tl2; mc_add_trigger(&c, p, key); VERIF_REACH;'),
    dict(name='mc_nl_clear', props=P78, enforce='mc_nl_clear', harness=SETUP + 'mc_nl_clear(&c); VERIF_REACH;'),
    dict(name='mc_stats', props=P8, enforce='mc_stats', harness=SETUP + 'unsigned k, t; mc_stats(&c, &k, &t); VERIF_REACH;'),
    dict(name='mc_store', props=P78, replay='c07:history', replay_link=['-fno-access-control', '-L{BUILD}', '-lcppcms', '-L{BUILD}/booster', '-lbooster', '-lpthread'], replay_exhaustive='the real thread cache with limits 0,1,2,3,5 through 4000-step pseudo-random histories of store/fetch/rise/remove/clear (keys that are also trigger names, expired and live deadlines) against a reference model (map + LRU list + expired-first eviction); fetch results and key/trigger counts compared after every step', enforce='mc_store', replace=['mc_delete_node', 'mc_check_limits', 'mc_add_trigger'], per_property=r'.', pp_chunk=8, pp_workers=14, timeout=600, harness=SETUP + r'''
    struct idset ts; size_t tn; __CPROVER_assume(tn <= 1000); ts.n = tn; ts.id = malloc(tn * sizeof(size_t)); __CPROVER_assume(ts.id != NULL); int hk; ts.has_key = hk != 0;
    size_t key, a; time_t to; uint64_t gv; int gn; mc_store(&c, key, a, &ts, to, gn ? &gv : 0); VERIF_REACH;'''),
    dict(name='mc_fetch', props=P7, replay='c07:history', replay_link=['-fno-access-control', '-L{BUILD}', '-lcppcms', '-L{BUILD}/booster', '-lbooster', '-lpthread'], replay_exhaustive='the real thread cache with limits 0,1,2,3,5 through 4000-step pseudo-random histories of store/fetch/rise/remove/clear (keys that are also trigger names, expired and live deadlines) against a reference model (map + LRU list + expired-first eviction); fetch results and key/trigger counts compared after every step', enforce='mc_fetch', harness=SETUP + r'''
    size_t key, av; time_t tv; uint64_t gv; int tg, n1, n2, n3, n4; mc_fetch(&c, key, n1 ? &av : 0, n2 ? &tg : 0, n3 ? &tv : 0, n4 ? &gv : 0); VERIF_REACH;'''),
    dict(name='mc_remove', props=P7, replay='c07:history', replay_link=['-fno-access-control', '-L{BUILD}', '-lcppcms', '-L{BUILD}/booster', '-lbooster', '-lpthread'], replay_exhaustive='the real thread cache with limits 0,1,2,3,5 through 4000-step pseudo-random histories of store/fetch/rise/remove/clear (keys that are also trigger names, expired and live deadlines) against a reference model (map + LRU list + expired-first eviction); fetch results and key/trigger counts compared after every step', enforce='mc_remove', replace=['mc_delete_node'], harness=SETUP + 'size_t key; mc_remove(&c, key); VERIF_REACH;'),
    dict(name='mc_rise', props=P7, replay='c07:history', replay_link=['-fno-access-control', '-L{BUILD}', '-lcppcms', '-L{BUILD}/booster', '-lbooster', '-lpthread'], replay_exhaustive='the real thread cache with limits 0,1,2,3,5 through 4000-step pseudo-random histories of store/fetch/rise/remove/clear (keys that are also trigger names, expired and live deadlines) against a reference model (map + LRU list + expired-first eviction); fetch results and key/trigger counts compared after every step', enforce='mc_rise', replace=['mc_delete_node'], per_property=r'.', pp_chunk=8, pp_workers=14, timeout=600, harness=SETUP + 'size_t t, l0, lnn; hnd tf; g_trig_find_res = tf; g_trig_l0 = l0; g_trig_ln = lnn; mc_rise(&c, t); VERIF_REACH;'),
]

CISET = r'''
    struct cif ci; size_t nr, ri, ak; int hc; ci.nrec = nr; ci.has_cache = hc != 0; g_ri = ri; g_at_k = ak; g_ci_rec_adds = 0; g_ci_rec_adds_at_ri = 0; g_ci_trig_inserts = 0; g_at_calls = 0; g_cm_fetch_calls = 0; g_cm_store_calls = 0; verif_thrown = 0; g_time_calls = 0;
    time_t nw; g_now = nw; struct idset ts; size_t tn; __CPROVER_assume(tn <= 1000); ts.n = tn; ts.id = malloc(tn * sizeof(size_t)); __CPROVER_assume(ts.id != NULL); ts.has_key = 0;
'''
PGSET = r'''
    int hx, pc, ng; ci.has_context = hx != 0; ci.page_compression_used_ = pc != 0; g_need_gzip = ng != 0; size_t rk, cdi, cmd; g_rk_id = rk; g_cd_id = cdi; g_cm_data = cmd;
    g_rk_calls = 0; g_fin_calls = 0; g_cd_calls = 0; g_w_calls = 0; g_enc_calls = 0; g_copy_calls = 0;
'''
REPLAYP = dict(replay='c07p:pages', replay_link=['-fno-access-control', '-L{BUILD}', '-lcppcms', '-L{BUILD}/booster', '-lbooster', '-lpthread'], replay_exhaustive='the real cache_interface driven as an application drives it: 6000-step pseudo-random histories of page builds (gzip and plain variants, 0..2 frames each, frames nested to depth 2, triggers added directly / through store_frame / through triggers_recorder / inherited from cached frames, notriggers on and off), rise and clear, against a reference that tracks the dependency set of every cached page and frame; hit/miss, bytes served, Content-Encoding, every detach() set and the key count compared at every step')
jobs += [
    dict(name='ci_deadtime', props=P7, enforce='ci_deadtime', harness='time_t nw; g_now = nw; verif_thrown = 0; g_time_calls = 0; int sec; ci_deadtime(sec); VERIF_REACH;'),
    dict(name='ci_add_trigger', props=P7, **REPLAYP, enforce='ci_add_trigger', harness=CISET + 'size_t t; ci_add_trigger(&ci, t); VERIF_REACH;'),
    dict(name='ci_fetch', props=P7, **REPLAYP, enforce='ci_fetch', replace=['ci_add_trigger'], harness=CISET + 'g_cm_trigs = ts; int h, nt; g_cm_hit = h != 0; size_t key; ci_fetch(&ci, key, nt != 0); VERIF_REACH;'),
    dict(name='ci_store', props=P7, **REPLAYP, enforce='ci_store', replace=['ci_add_trigger', 'ci_deadtime'], harness=CISET + 'int nt, to; size_t key, data; ci_store(&ci, key, data, &ts, to, nt != 0); VERIF_REACH;'),
    dict(name='ci_store_page', props=P7, **REPLAYP, enforce='ci_store_page', replace=['ci_add_trigger', 'ci_deadtime'], harness=CISET + PGSET + 'int to; size_t key; ci_store_page(&ci, key, to); VERIF_REACH;'),
    dict(name='ci_fetch_page', props=P7, **REPLAYP, enforce='ci_fetch_page', harness=CISET + PGSET + 'g_cm_trigs = ts; int h; g_cm_hit = h != 0; size_t key; ci_fetch_page(&ci, key); VERIF_REACH;'),
]

UNIT = dict(
    name='memcache', functions=functions, jobs=jobs,
    pre=PRE,
    trusted=['memcache: hash_map / std::list / std::multimap are abstract: iterators are handles, each operation is a recorder that maintains ghost cardinalities; their own correctness (private/hash_map.h, libstdc++) is assumed',
             'memcache: locks are dropped (sequential contracts; C09 is not applicable); std::bad_alloc paths (try/catch -> nl_clear) are cut: allocation is assumed to succeed',
             'memcache: set_find_key / triggers_find return oracle values chosen by the harness'],
    not_covered={'C07': ['the history-level statement (a fetch returns the value of the most recent store unless invalidated) is a composition of the per-call contracts with the container semantics; triggers_recorder::add/detach (std::set insert); process-shared allocator'],
                 'C08': ['LRU order itself is std::list semantics (front = most recent is maintained by store/fetch, back is evicted: both under contract); buddy/shmem allocator; statistics across histories']},
)
