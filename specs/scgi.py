# Unit "scgi" -- netstring header reader of src/scgi_api.cpp.  Serves C01 (decoding) and C02 (memory safety, handler exactly once).
import sys, os
sys.path.insert(0, os.path.join(os.path.dirname(os.path.abspath(__file__)), '..', 'tools'))
from cxx2c import lit

S = 'src/scgi_api.cpp'
P = ['C01', 'C02']

PRE = r'''
struct scgi { char *buf_p; size_t buf_n; size_t sep_; };
#define SCGI_CAP (16u + 2u + 16384u)
/* std::vector<char> buffer_ (R8): one object of SCGI_CAP bytes with a logical size (see fastcgi unit) */
#define SCGI_INV(s) (__CPROVER_rw_ok(s, sizeof(*(s))) && (s)->buf_n <= SCGI_CAP && __CPROVER_rw_ok((s)->buf_p, SCGI_CAP) && !SAME((s)->buf_p, s))
int g_h_calls, g_h_code, g_cont; size_t g_nul; size_t g_pool_calls, g_env_calls;
enum { CB_none, CB_on_first_read, CB_on_headers_chunk_read };
static void call_h(int code) { g_h_calls++; g_h_code = code; }
static void buf_resize(struct scgi *self, size_t n) { __CPROVER_assert(n <= SCGI_CAP, "buffer_ never grows beyond the 16 KiB header limit"); self->buf_n = n; }
static void buf_clear(struct scgi *self) { self->buf_n = 0; }
static char *buf_at(struct scgi *self, size_t i) { __CPROVER_assert(i <= self->buf_n, "&buffer_[i]: index within the vector"); return self->buf_p + i; }
static char *buf_elem(struct scgi *self, size_t i) { __CPROVER_assert(i < self->buf_n, "buffer_[i]: index inside the vector"); return self->buf_p + i; }
static char *buf_back(struct scgi *self) { __CPROVER_assert(self->buf_n >= 1, "buffer_.back() on a non-empty vector"); return self->buf_p + (self->buf_n - 1); }
static char *buf_front(struct scgi *self) { __CPROVER_assert(self->buf_n >= 1, "buffer_.front() on a non-empty vector"); return self->buf_p; }
/* socket_.async_read(buffer(p,n), continuation(h)): the bytes will be written into [p,p+n), which must be inside buffer_ */
static void sock_async_read_h(struct scgi *self, char *p, size_t n, int cont)
{
  __CPROVER_assert(SAME(p, self->buf_p) && OFF(p) >= OFF(self->buf_p) && OFF(p) - OFF(self->buf_p) <= self->buf_n && n <= self->buf_n - (OFF(p) - OFF(self->buf_p)),
                   "socket read target lies inside buffer_");
  g_h_calls++; g_cont = cont;
}
/* std::find(buffer_.begin(), buffer_.begin()+n, c) - buffer_.begin() */
static size_t find_char(struct scgi *self, size_t n, char c)
{
  __CPROVER_assert(n <= self->buf_n, "std::find range inside buffer_");
  size_t r; __CPROVER_assume(r <= n && (r == n || self->buf_p[r] == c));
  return r;
}
/* atoi on a NUL-terminated string that starts at buffer_.front(): outcome over-approximated by any int */
static int atoi_stub(char const *s) { int v; return v; }
static void env_add(char const *k, char const *v) { }
'''

functions = [
    dict(stub=True, cname='verif_strlen', sig='size_t verif_strlen(char const *s)',
         contract='/* C11 7.24.6.3 strlen: the string must be NUL-terminated INSIDE its buffer; ghost g_nul is the offset of a NUL known to the caller */\n'
                  '__CPROVER_requires(OFF(s) <= g_nul && __CPROVER_r_ok(s, g_nul - OFF(s) + 1) && s[g_nul - OFF(s)] == 0)\n__CPROVER_assigns()\n'
                  '__CPROVER_ensures(__CPROVER_return_value <= g_nul - OFF(s) && s[__CPROVER_return_value] == 0)'),
    dict(stub=True, cname='pool_add_cstr', sig='char *pool_add_cstr(char const *s)',
         contract='/* string_pool::add(char const*) = add_bounded_string(s, strlen(s)): same requirement as strlen */\n'
                  '__CPROVER_requires(OFF(s) <= g_nul && __CPROVER_r_ok(s, g_nul - OFF(s) + 1) && s[g_nul - OFF(s)] == 0)\n__CPROVER_assigns(g_pool_calls)\n'
                  '__CPROVER_ensures(g_pool_calls == __CPROVER_old(g_pool_calls) + 1)'),
    dict(cname='scgi_on_first_read', file=S, locate=lit('void on_first_read(booster::system::error_code const &e,size_t n,handler const &h)'),
         sig='void scgi_on_first_read(struct scgi *self, int e, size_t n)', members=['sep_'],
         rewrites=[(r'h\(booster::system::error_code\(errc::protocol_violation,cppcms_category\)\)', 'call_h(2)', 3), (r'h\(e\)', 'call_h(1)', 1),
                   (r'std::find\(buffer_\.begin\(\),buffer_\.begin\(\)\+n,\'\:\'\) - buffer_\.begin\(\)', "find_char(self, n, ':')", 1),
                   (r'socket_\.async_read\(\s*io::buffer\(', 'sock_async_read_h(self, ', 1),
                   (r'\),\s*mfunc_to_io_handler\(\s*&scgi::on_headers_chunk_read,\s*self\(\),\s*h\)\);', ', CB_on_headers_chunk_read);', 1),
                   (r'&buffer_\.front\(\)', 'buf_front(self)', 1), (r'&buffer_\[([^\]]*)\]', r'buf_at(self, \1)', 1), (r'buffer_\[([^\]]*)\]', r'(*buf_elem(self, \1))', 1),
                   (r'buffer_\.resize\(', 'buf_resize(self, ', 1), (r'buffer_\.size\(\)', 'self->buf_n', 2), (r'\batoi\(', 'atoi_stub(', 1)],
         contract=r'''
/* async_read delivered n <= 16 bytes into the 16-byte buffer_ */
__CPROVER_requires(SCGI_INV(self) && self->buf_n == 16 && n <= 16 && (e || n == 16) && g_h_calls == 0)
__CPROVER_assigns(self->sep_, self->buf_n, __CPROVER_object_whole(self->buf_p), g_h_calls, g_h_code, g_cont)
/* handler exactly once (completed, or bound into the header-read continuation) */
__CPROVER_ensures(g_h_calls == 1)
/* when the header block is requested: the announced netstring length is 0..16384, the buffer holds exactly "LEN:" + LEN bytes + ","
   and the read asks for the bytes not yet received (asserted in the socket stub) */
__CPROVER_ensures(g_cont == CB_on_headers_chunk_read ==> (self->sep_ < 16 && self->buf_n > 16 && self->buf_n <= self->sep_ + 2 + 16384))
'''),
    dict(cname='scgi_on_headers_chunk_read', file=S, locate=r'void on_headers_chunk_read\(booster::system::error_code const &e,size_t ,handler const &h\)',
         sig='void scgi_on_headers_chunk_read(struct scgi *self, int e)', members=['sep_'],
         rename={'strlen': 'verif_strlen'},
         rewrites=[(r'h\(booster::system::error_code\(errc::protocol_violation,cppcms_category\)\)', 'call_h(2)', 1), (r'h\(e\)', 'call_h(1)', 1),
                   (r'h\(booster::system::error_code\(\)\)', 'call_h(0)', 1),
                   (r'&buffer_\.back\(\)', 'buf_back(self)', 2), (r'buffer_\.back\(\)', '(*buf_back(self))', 2),
                   (r'&buffer_\[([^\]]*)\]', r'buf_at(self, \1)', 1), (r'buffer_\[([^\]]*)\]', r'(*buf_elem(self, \1))', 0), (r'buffer_\.size\(\)', 'self->buf_n', 0),
                   (r'pool_\.add\(p\)', 'pool_add_cstr(p)', 2), (r'env_\.add\(', 'env_add(', 1), (r'buffer_\.clear\(\)', 'buf_clear(self)', 1)],
         # ghost: the NUL the walk may rely on is the byte before the trailing ',' (SCGI: every header value ends with NUL)
         post_rewrites=[(r'(char const \*p=buf_at)', r'g_nul = OFF(self->buf_p) + self->buf_n - 2; \1', 1)],
         loops={0: r'''
__CPROVER_assigns(p, g_pool_calls, g_env_calls)
__CPROVER_loop_invariant(SAME(p, self->buf_p) && OFF(p) >= OFF(self->buf_p) + self->sep_ + 1 && OFF(p) <= OFF(self->buf_p) + self->buf_n - 1)
__CPROVER_loop_invariant(g_pool_calls <= 2 * (OFF(p) - OFF(self->buf_p)))
__CPROVER_decreases(OFF(self->buf_p) + self->buf_n - OFF(p))
'''},
         contract=r'''
/* state left by on_first_read: "LEN:" (sep_ < 16) + LEN bytes + one more byte; buffer longer than 16 */
__CPROVER_requires(SCGI_INV(self) && self->sep_ < 16 && self->buf_n > 16 && self->buf_n <= self->sep_ + 2 + 16384 && g_h_calls == 0 && g_pool_calls == 0)
__CPROVER_assigns(self->buf_n, __CPROVER_object_whole(self->buf_p), g_h_calls, g_h_code, g_pool_calls, g_env_calls, g_nul)
/* C02: every strlen()/pool copy stays inside buffer_ for ANY header bytes (stub preconditions), handler exactly once */
__CPROVER_ensures(g_h_calls == 1)
'''),
]

SETUP = r'''
    struct scgi c; size_t cap, bn; __CPROVER_assume(cap >= SCGI_CAP && cap <= SCGI_CAP + 8 && bn <= SCGI_CAP);
    char *buf = malloc(cap); __CPROVER_assume(buf != NULL); c.buf_p = buf; c.buf_n = bn;
    g_h_calls = 0; g_pool_calls = 0; g_env_calls = 0; g_cont = 0; int e;
'''
jobs = [
    dict(name='scgi_on_first_read', props=P, enforce='scgi_on_first_read', harness=SETUP + r'''
    size_t n; __CPROVER_assume(bn == 16); WIT(0, e); WIT(1, n); WIT_BUF(0, buf, 16);
    scgi_on_first_read(&c, e, n); VERIF_REACH;''', witness=dict(bufs=['first16'], vals=['e', 'n']), replay='c02scgi:on_first_read', replay_link=['-L{BUILD}', '-lcppcms', '-L{BUILD}/booster', '-lbooster']),
    dict(name='scgi_on_headers_chunk_read', props=P, enforce='scgi_on_headers_chunk_read', replace=['verif_strlen', 'pool_add_cstr'], harness=SETUP + r'''
    size_t sep; c.sep_ = sep; WIT(0, e); WIT(1, sep); WIT_CAP(bn); WIT_BUF(0, buf, bn);
    scgi_on_headers_chunk_read(&c, e); VERIF_REACH;''', witness=dict(bufs=['buffer'], vals=['e', 'sep']), replay='c02scgi:on_headers_chunk_read',
         replay_link=['-L{BUILD}', '-lcppcms', '-L{BUILD}/booster', '-lbooster']),
]

UNIT = dict(
    name='scgi', pre=PRE, functions=functions, jobs=jobs,
    trusted=['scgi: std::vector<char> buffer_ is one SCGI_CAP-byte object with a logical size; element/back()/front() accesses are stubs asserting the logical bounds (R8)',
             'scgi: strlen and string_pool::add(char const*) are stubs whose precondition is a NUL inside the buffer at ghost offset g_nul (R9/R10); atoi is any int; std::find returns the first match or n',
             'scgi: completion handler h / continuation counted by ghost g_h_calls'],
    not_covered={'C01': ['environment variables seen by the application (string_map contents) -- only the walk over the netstring is under contract'],
                 'C02': ['event loop survival and other connections']},
)
