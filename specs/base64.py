# Unit "base64" -- b64url block codec, size functions and the pointer loops (src/base64.cpp).  Serves C15 (and C05).
import sys, os
sys.path.insert(0, os.path.join(os.path.dirname(os.path.abspath(__file__)), '..', 'tools'))
from cxx2c import lit

B = 'src/base64.cpp'
P = ['C15', 'C05']

PRE = r'''
/* RFC 4648 section 5 URL-safe alphabet, written from the RFC */
#define B64URL_CHAR(v) ((unsigned char)((v) < 26 ? 'A' + (v) : (v) < 52 ? 'a' + ((v) - 26) : (v) < 62 ? '0' + ((v) - 52) : (v) == 62 ? '-' : '_'))
#define IS_B64URL(c) (((c) >= 'A' && (c) <= 'Z') || ((c) >= 'a' && (c) <= 'z') || ((c) >= '0' && (c) <= '9') || (c) == '-' || (c) == '_')
@@REGION:encode_6_to_8@@
size_t g_rem;
'''

functions = [
    dict(cname='encode_8_to_6', file=B, locate=lit('inline unsigned char encode_8_to_6(unsigned char c)'), sig='unsigned char encode_8_to_6(unsigned char c)',
         contract='__CPROVER_assigns()\n/* inverse of the alphabet on the alphabet, 0 elsewhere */\n'
                  '__CPROVER_ensures(IS_B64URL(c) ==> (__CPROVER_return_value < 64 && B64URL_CHAR(__CPROVER_return_value) == c))\n'
                  '__CPROVER_ensures(!IS_B64URL(c) ==> __CPROVER_return_value == 0)'),
    dict(cname='bencode', file=B, locate=lit('size_t inline bencode(unsigned const char in[3],unsigned char out[4],size_t len)'),
         sig='size_t bencode(unsigned const char *in, unsigned char *out, size_t len)',
         contract=r'''
__CPROVER_requires(len >= 1 && len <= 3 && __CPROVER_r_ok(in, len) && __CPROVER_w_ok(out, len + 1))
__CPROVER_assigns(__CPROVER_object_upto(out, len + 1))
/* RFC 4648: len input bytes -> len+1 characters of the URL-safe alphabet, 6 bits each, most significant first, no padding */
__CPROVER_ensures(__CPROVER_return_value == len + 1)
__CPROVER_ensures(out[0] == B64URL_CHAR(in[0] >> 2))
__CPROVER_ensures(out[1] == B64URL_CHAR(((in[0] & 3) << 4) | (len > 1 ? in[1] >> 4 : 0)))
__CPROVER_ensures(len > 1 ==> out[2] == B64URL_CHAR(((in[1] & 15) << 2) | (len > 2 ? in[2] >> 6 : 0)))
__CPROVER_ensures(len > 2 ==> out[3] == B64URL_CHAR(in[2] & 63))
'''),
    dict(cname='bdecode', file=B, locate=lit('inline size_t bdecode(unsigned const char in8[4],unsigned char out[3],size_t len)'),
         sig='size_t bdecode(unsigned const char *in8, unsigned char *out, size_t len)',
         contract=r'''
__CPROVER_requires(len >= 2 && len <= 4 && __CPROVER_r_ok(in8, len) && __CPROVER_w_ok(out, len - 1))
__CPROVER_assigns(__CPROVER_object_upto(out, len - 1))
/* len characters -> len-1 bytes; only len-1 bytes are written (no write outside the caller's buffer) */
__CPROVER_ensures(__CPROVER_return_value == len - 1)
__CPROVER_ensures(out[0] == (unsigned char)((V0 << 2) | (V1 >> 4)))
__CPROVER_ensures(len > 2 ==> out[1] == (unsigned char)((V1 << 4) | (V2 >> 2)))
__CPROVER_ensures(len > 3 ==> out[2] == (unsigned char)((V2 << 6) | V3))
'''),
    dict(cname='b64url_encoded_size', file=B, locate=lit('int encoded_size(size_t s)'), sig='int b64url_encoded_size(size_t s)',
         contract='__CPROVER_requires(s <= (1ul << 30))\n__CPROVER_assigns()\n'
                  '/* exact size without padding: ceil(4s/3), stated without division */\n'
                  '__CPROVER_ensures(__CPROVER_return_value >= 0 && 3 * (size_t)__CPROVER_return_value >= 4 * s && 3 * (size_t)__CPROVER_return_value <= 4 * s + 2)'),
    dict(cname='b64url_decoded_size', file=B, locate=lit('int decoded_size(size_t s)'), sig='int b64url_decoded_size(size_t s)',
         contract='__CPROVER_requires(s <= (1ul << 30))\n__CPROVER_assigns()\n'
                  '/* -1 exactly for the impossible lengths 4k+1; otherwise floor(3s/4) */\n'
                  '__CPROVER_ensures((__CPROVER_return_value == -1) == ((s & 3) == 1))\n'
                  '__CPROVER_ensures(__CPROVER_return_value != -1 ==> (__CPROVER_return_value >= 0 && 4 * (size_t)__CPROVER_return_value <= 3 * s && 4 * (size_t)__CPROVER_return_value + 3 >= 3 * s))'),
    dict(cname='b64url_encode_ptr', file=B, locate=lit('unsigned char *encode(unsigned char const *begin,unsigned char const *end,unsigned char *target)'),
         sig='unsigned char *b64url_encode_ptr(unsigned char const *begin, unsigned char const *end, unsigned char *target)'),
    dict(cname='b64url_decode_ptr', file=B, locate=lit('unsigned char *decode(unsigned char const *begin,unsigned char const *end,unsigned char *target)'),
         sig='unsigned char *b64url_decode_ptr(unsigned char const *begin, unsigned char const *end, unsigned char *target)'),
]
for f in functions:
    if f['cname'] == 'bdecode':
        for i in range(4):
            f['contract'] = f['contract'].replace('V%d' % i, '(len > %d ? SPEC_8_TO_6(in8[%d]) : 0)' % (i, i))
PRE += r'''
#define SPEC_8_TO_6(c) ((unsigned char)(((c) >= 'A' && (c) <= 'Z') ? (c) - 'A' : ((c) >= 'a' && (c) <= 'z') ? 26 + ((c) - 'a') : ((c) >= '0' && (c) <= '9') ? 52 + ((c) - '0') : (c) == '-' ? 62 : (c) == '_' ? 63 : 0))
'''

jobs = [
    dict(name='encode_8_to_6', props=P, enforce='encode_8_to_6', harness='unsigned char c; WIT(0, c); encode_8_to_6(c); VERIF_REACH;'),
    dict(name='table_6_to_8', props=P, kind='plain', unwind=66, complete_note='table of 64 entries, constant bound',
         harness=r'''
    for(unsigned v = 0; v < 64; v++) __CPROVER_assert(encode_6_to_8[v] == B64URL_CHAR(v), "encode_6_to_8 is the RFC 4648 URL-safe alphabet");
    VERIF_REACH;'''),
    dict(name='bencode', props=P, enforce='bencode', harness=r'''
    unsigned char in[3]; unsigned char out[4]; size_t len; __CPROVER_assume(len >= 1 && len <= 3);
    unsigned char *ip = malloc(len); unsigned char *op = malloc(len + 1); __CPROVER_assume(ip && op);
    bencode(ip, op, len); VERIF_REACH;'''),
    dict(name='bdecode', props=P, enforce='bdecode', replace=['encode_8_to_6'], pre_unwind=5, complete_note='the only loop runs len <= 4 times (constant bound, unwinding assertion on)', harness=r'''
    size_t len; __CPROVER_assume(len >= 2 && len <= 4);
    unsigned char *ip = malloc(len); unsigned char *op = malloc(len - 1); __CPROVER_assume(ip && op);
    bdecode(ip, op, len); VERIF_REACH;'''),
    dict(name='b64url_encoded_size', props=P, enforce='b64url_encoded_size', harness='size_t s; WIT(0, s); b64url_encoded_size(s); VERIF_REACH;', witness=dict(vals=['s']), replay='c15:b64size', replay_link=['-L{BUILD}/booster', '-lbooster']),
    dict(name='b64url_decoded_size', props=P, enforce='b64url_decoded_size', harness='size_t s; WIT(0, s); b64url_decoded_size(s); VERIF_REACH;', witness=dict(vals=['s']), replay='c15:b64size', replay_link=['-L{BUILD}/booster', '-lbooster']),
    dict(name='sizes_inverse', props=P, kind='lemma', replace=['b64url_encoded_size', 'b64url_decoded_size'], harness=r'''
    size_t n; __CPROVER_assume(n <= (1ul << 29));
    int e = b64url_encoded_size(n);
    int d = b64url_decoded_size((size_t)e);
    __CPROVER_assert(d >= 0 && (size_t)d == n, "decoded_size(encoded_size(n)) == n");
    VERIF_REACH;'''),
    # block round trip on the contracts: decode(encode(x,len)) == x for all blocks, output in alphabet
    dict(name='block_roundtrip', props=P, kind='lemma', replace=['bencode', 'bdecode'], harness=r'''
    unsigned char in[3], enc[4], dec[3]; size_t len; __CPROVER_assume(len >= 1 && len <= 3);
    size_t n = bencode(in, enc, len);
    __CPROVER_assert(n == len + 1, "encoded block length");
    __CPROVER_assert(IS_B64URL(enc[0]) && IS_B64URL(enc[1]) && (n < 3 || IS_B64URL(enc[2])) && (n < 4 || IS_B64URL(enc[3])), "only the URL-safe alphabet, no padding");
    size_t m = bdecode(enc, dec, n);
    __CPROVER_assert(m == len, "decoded block length");
    __CPROVER_assert(dec[0] == in[0] && (len < 2 || dec[1] == in[1]) && (len < 3 || dec[2] == in[2]), "bdecode(bencode(x)) == x");
    VERIF_REACH;'''),
    # pointer loops: bounded stand-in (probe D shape), all lengths up to 12 bytes fully unwound
    dict(name='encode_decode_ptr_bounded', props=P, kind='plain', bounded=True, unwind=8, object_bits=9,
         bound_note='input length <= 12 bytes, all contents; encode loop <= 4 blocks, decode loop <= 4 blocks, fully unwound with unwinding assertions; real bodies of bencode/bdecode/encode_8_to_6 inlined',
         harness=r'''
    size_t n; __CPROVER_assume(n <= 12);
    unsigned char in[12]; unsigned char enc[16]; unsigned char dec[12];
    int es = b64url_encoded_size(n);
    unsigned char *in_p = malloc(n); unsigned char *enc_p = malloc((size_t)es); __CPROVER_assume(in_p && enc_p);
    WIT_BUF(0, in_p, n);
    unsigned char *r = b64url_encode_ptr(in_p, in_p + n, enc_p);
    __CPROVER_assert(r == enc_p + es, "encode writes exactly encoded_size(n) bytes (no write outside the buffer: the buffer has exactly that size)");
    int ds = b64url_decoded_size((size_t)es);
    __CPROVER_assert(ds >= 0 && (size_t)ds == n, "decoded_size(encoded_size(n)) == n");
    unsigned char *dec_p = malloc((size_t)ds); __CPROVER_assume(dec_p);
    unsigned char *q = b64url_decode_ptr(enc_p, enc_p + es, dec_p);
    __CPROVER_assert(q == dec_p + ds, "decode writes exactly decoded_size bytes");
    size_t k; __CPROVER_assume(k < n);
    __CPROVER_assert(dec_p[k] == in_p[k], "decode(encode(x)) == x");
    size_t j; __CPROVER_assume(j < (size_t)es);
    __CPROVER_assert(IS_B64URL(enc_p[j]), "URL-safe alphabet only");
    VERIF_REACH;''', witness=dict(bufs=['in']), replay='c15:b64', replay_link=['-L{BUILD}/booster', '-lbooster']),
]

UNIT = dict(
    name='base64', pre=PRE, functions=functions, jobs=jobs,
    regions=[dict(name='encode_6_to_8', file=B, start=r'const unsigned char encode_6_to_8\[\]', end=';')],
    trusted=['base64: the std::string wrappers encode(std::string)/decode(std::string,&) are not extracted (std::vector buffer of exactly encoded_size/decoded_size bytes); '
             'the bounded job allocates exactly those sizes, so a write outside them fails pointer checks',
             'base64: int return type of encoded_size/decoded_size: sizes above 2^30 are outside the contract'],
    observations=['b64url::decode(begin,end,target) with (end-begin)%4==1 writes 3 bytes although decoded_size() reports -1; callers must check decoded_size first (the std::string wrapper does)'],
    not_covered={'C15': ['b64url pointer loops for inputs longer than 12 bytes are covered only through the block contracts + size lemmas (loop-contract proof of the two-pointer loops does not close in cbmc 6.11, DESIGN probe D)']},
)
