# Unit "buddy" -- size arithmetic of the buddy allocator behind the process-shared cache (private/buddy_allocator.h): order computation,
# request rounding, buddy address.  Serves C08 (the free-list manipulation itself is linked-structure code and is NOT under contract).
import sys, os
sys.path.insert(0, os.path.join(os.path.dirname(os.path.abspath(__file__)), '..', 'tools'))
from cxx2c import lit

B = 'private/buddy_allocator.h'
P = ['C08']

PRE = r'''
typedef struct page page;
struct page { int bits; struct page *next; struct page *prev; };
struct buddy { size_t memory_size_; char *mem; };      /* memory() = the arena that follows the allocator header */
#define ALIGNMENT 16ul
#define ALIGNMENT_BITS 4
static char *buddy_memory(struct buddy *self) { return self->mem; }
'''

functions = [
    dict(cname='buddy_containts_bits', file=B, locate=lit('static int containts_bits(size_t n)'), sig='int buddy_containts_bits(size_t n)',
         contract='__CPROVER_assigns()\n/* floor(log2 n) for 2 <= n < 2^63, -1 otherwise: 2^r <= n < 2^(r+1) */\n'
                  '__CPROVER_ensures((n >= 2 && n < ((size_t)1 << 63)) ? (__CPROVER_return_value >= 1 && __CPROVER_return_value <= 62 && ((size_t)1 << __CPROVER_return_value) <= n && n < ((size_t)1 << (__CPROVER_return_value + 1))) : __CPROVER_return_value == -1)'),
    dict(cname='buddy_get_bits', file=B, locate=lit('static int get_bits(size_t n)'), sig='int buddy_get_bits(size_t n)',
         contract='__CPROVER_assigns()\n/* an order whose page holds n bytes: 2^r >= n (64 when n > 2^63).  That it is the SMALLEST such order is an efficiency matter, deliberately not demanded */\n'
                  '__CPROVER_ensures(__CPROVER_return_value >= 0 && __CPROVER_return_value <= 64 && (__CPROVER_return_value <= 63 ==> (1ull << __CPROVER_return_value) >= n) && '
                  '(__CPROVER_return_value == 64 ==> n > (1ull << 63)))'),
    dict(cname='buddy_get_buddy', file=B, locate=lit('page *get_buddy(page *p)'), sig='struct page *buddy_get_buddy(struct buddy *self, struct page *p)', members=['memory_size_'],
         rewrites=[(r'memory\(\)', 'buddy_memory(self)', 2)],
         contract=r'''
/* p is a page of order b = p->bits (free page: no in-use flag) lying in the arena at an offset that is a multiple of its size (how pages are carved: constructor and page_alloc) */
__CPROVER_requires(__CPROVER_r_ok(self, sizeof(*self)) && self->memory_size_ <= ((size_t)1 << 40) && __CPROVER_r_ok(p, sizeof(*p)) && p->bits >= ALIGNMENT_BITS + 1 && p->bits <= 40 && SAME(p, self->mem) && OFF(p) >= OFF(self->mem) &&
                   (OFF(p) - OFF(self->mem)) % ((size_t)1 << p->bits) == 0 && (OFF(p) - OFF(self->mem)) + ((size_t)1 << p->bits) <= self->memory_size_)
__CPROVER_assigns()
/* the buddy is the other half of the enclosing page of order b+1: same size, disjoint from p, exactly one page size away, inside the arena -- or no buddy when that half would stick out of the arena */
__CPROVER_ensures(__CPROVER_return_value != 0 ==> (SAME(__CPROVER_return_value, self->mem) && (OFF(__CPROVER_return_value) - OFF(self->mem)) % ((size_t)1 << p->bits) == 0 &&
                  (OFF(__CPROVER_return_value) - OFF(self->mem)) + ((size_t)1 << p->bits) <= self->memory_size_ &&
                  (OFF(__CPROVER_return_value) > OFF(p) ? OFF(__CPROVER_return_value) - OFF(p) : OFF(p) - OFF(__CPROVER_return_value)) == ((size_t)1 << p->bits) &&
                  (OFF(__CPROVER_return_value) - OFF(self->mem)) / ((size_t)2 << p->bits) == (OFF(p) - OFF(self->mem)) / ((size_t)2 << p->bits)))
__CPROVER_ensures(__CPROVER_return_value == 0 ==> (((OFF(p) - OFF(self->mem)) ^ ((size_t)1 << p->bits)) + ((size_t)1 << p->bits) > self->memory_size_))
'''),
]

jobs = [
    dict(name='buddy_containts_bits', props=P, enforce='buddy_containts_bits', pre_unwind=64, harness='size_t n; buddy_containts_bits(n); VERIF_REACH;',
         complete_note='the loop runs at most 62 times (constant bound): unwound with unwinding assertions on'),
    dict(name='buddy_get_bits', props=P, enforce='buddy_get_bits', pre_unwind=66, harness='size_t n; buddy_get_bits(n); VERIF_REACH;',
         complete_note='the loop runs at most 64 times (constant bound): unwound with unwinding assertions on'),
    dict(name='buddy_get_buddy', props=P, enforce='buddy_get_buddy', harness=r'''
    struct buddy b; size_t ms; __CPROVER_assume(ms <= 1000000); b.memory_size_ = ms; b.mem = malloc(ms); __CPROVER_assume(b.mem != NULL); size_t off; __CPROVER_assume(off <= ms && sizeof(struct page) <= ms - off);
    buddy_get_buddy(&b, (struct page *)(b.mem + off)); VERIF_REACH;'''),
]

UNIT = dict(
    name='buddy', pre=PRE, functions=functions, jobs=jobs,
    trusted=['buddy: the arena is one object; page headers are read through plain pointers (struct page at the page start)'],
    not_covered={'C08': ['free-list manipulation of page_alloc / free_page (linked pages inside the arena: no inductive data-structure predicate within reach), the constructor\'s carving loop, shmem_allocator']},
)
