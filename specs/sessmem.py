# Unit "sessmem" -- the in-memory session storage (src/session_memory_storage.cpp): save / load / remove / short_gc over abstract containers
# (hash_map and std::multimap as recorders with ghost cardinalities, as in unit memcache).  Serves C06.
import sys, os
sys.path.insert(0, os.path.join(os.path.dirname(os.path.abspath(__file__)), '..', 'tools'))
from cxx2c import lit

F = 'src/session_memory_storage.cpp'
P = ['C06']

PRE = r'''
#include <time.h>
typedef size_t hnd;                      /* map / multimap iterators as opaque handles, 0 = end() */
#define SCAP 1024
struct snode { time_t timeout; size_t info; hnd timeout_ptr; };      /* _data */
struct stm { time_t first; hnd second; };                            /* timeout_ element: (deadline, map iterator) */
struct snode *g_sn; struct stm *g_st;
size_t g_map_n, g_tm_n;                                              /* ghost cardinalities; representation invariant: equal */
#define SRI (g_map_n == g_tm_n && g_map_n <= SCAP)
/* what is true of every element stored in the containers: the two structures point at each other and agree on the deadline */
#define TM_SANE(t) ((t) != 0 && (t) < SCAP && g_st[t].second != 0 && g_st[t].second < SCAP && g_sn[g_st[t].second].timeout == g_st[t].first && g_sn[g_st[t].second].timeout_ptr == (t))
#define ND_SANE(p) ((p) != 0 && (p) < SCAP && g_sn[p].timeout_ptr != 0 && g_sn[p].timeout_ptr < SCAP && g_st[g_sn[p].timeout_ptr].second == (p) && g_st[g_sn[p].timeout_ptr].first == g_sn[p].timeout)
static struct snode *SN(hnd p) { __CPROVER_assert(p != 0 && p < SCAP, "map iterator dereferenced is a live element, not end()"); return &g_sn[p]; }
static struct stm *ST(hnd t) { __CPROVER_assert(t != 0 && t < SCAP, "multimap iterator dereferenced is a live element, not end()"); return &g_st[t]; }
time_t g_now; static time_t verif_time0(void) { return g_now; }
hnd g_find_res, g_new_node, g_new_tm; size_t g_find_key; int g_find_calls, g_map_ins_calls, g_map_erase_calls, g_tm_ins_calls, g_tm_erase_calls;
hnd g_map_erase_arg, g_tm_erase_arg, g_tm_ins_node; time_t g_tm_ins_deadline; size_t g_map_ins_key;
time_t g_erased_deadline_max; bool g_erased_any;                      /* the latest deadline among the sessions short_gc removed */
static hnd map_find(size_t key) { g_find_calls++; g_find_key = key; return g_find_res; }
static hnd map_insert(size_t key) { g_map_n++; g_map_ins_calls++; g_map_ins_key = key; return g_new_node; }
static void map_erase(hnd p) { __CPROVER_assert(p != 0 && g_map_n > 0, "map_.erase of a live iterator"); g_map_n--; if(g_map_erase_calls < 100) g_map_erase_calls++; g_map_erase_arg = p;
  if(!g_erased_any || g_sn[p].timeout > g_erased_deadline_max) g_erased_deadline_max = g_sn[p].timeout; g_erased_any = 1; }
static hnd tm_insert(time_t d, hnd p) { g_tm_n++; g_tm_ins_calls++; g_tm_ins_deadline = d; g_tm_ins_node = p; if(g_new_tm < SCAP) { g_st[g_new_tm].first = d; g_st[g_new_tm].second = p; } return g_new_tm; }
static void tm_erase(hnd t) { __CPROVER_assert(t != 0 && g_tm_n > 0, "timeout_.erase of a live iterator"); g_tm_n--; if(g_tm_erase_calls < 100) g_tm_erase_calls++; g_tm_erase_arg = t; }
/* timeout_.begin(): the element with the smallest deadline (any sane element here; minimality is multimap semantics) or end() when empty */
static hnd tm_begin(void) { if(g_tm_n == 0) return 0; hnd t; __CPROVER_assume(TM_SANE(t)); return t; }
/* ++p on a multimap iterator: the next element or end() */
static hnd tm_next(hnd t, size_t remaining) { if(remaining <= 1) return 0; hnd n; __CPROVER_assume(TM_SANE(n) && n != t); return n; }
'''

functions = [
    dict(cname='sm_short_gc', file=F, locate=lit('void short_gc()'), sig='void sm_short_gc(void)',
         rewrites=[(r'::time\(\w\)', 'verif_time0()', 1), (r'timeout_type::iterator p=timeout_\.begin\(\),tmp;', 'hnd p=tm_begin(),tmp;', 1), (r'timeout_\.end\(\)', '0', 1), (r'p->first', 'ST(p)->first', 0),
                   (r'\+\+p;', 'p = tm_next(p, g_tm_n);', 1), (r'map_\.erase\(tmp->second\)', 'map_erase(ST(tmp)->second)', 0), (r'timeout_\.erase\(tmp\)', 'tm_erase(tmp)', 0)],
         loops={0: r'''
__CPROVER_assigns(p, tmp, count, g_map_n, g_tm_n, g_map_erase_calls, g_map_erase_arg, g_tm_erase_calls, g_tm_erase_arg, g_erased_deadline_max, g_erased_any)
__CPROVER_loop_invariant(SRI && count >= 0 && count <= 5 && (p == 0 || TM_SANE(p)) && (p != 0 ==> g_tm_n >= 1) && (g_erased_any ==> g_erased_deadline_max < now) && now == g_now && g_tm_erase_calls >= __CPROVER_loop_entry(g_tm_erase_calls))
__CPROVER_decreases(5 - count)'''},
         contract=r'''
__CPROVER_requires(SRI && !g_erased_any)
__CPROVER_assigns(g_map_n, g_tm_n, g_map_erase_calls, g_map_erase_arg, g_tm_erase_calls, g_tm_erase_arg, g_erased_deadline_max, g_erased_any)
/* opportunistic collection: every session it removes has a deadline that has passed (a live session is never removed), both structures shrink together */
__CPROVER_ensures(SRI && (g_erased_any ==> g_erased_deadline_max < g_now) && g_tm_erase_calls >= __CPROVER_old(g_tm_erase_calls))
'''),
    dict(cname='sm_save', file=F, locate=lit('void save(std::string const &key,time_t to,std::string const &value)'), sig='void sm_save(size_t key, time_t to, size_t value)', rename={'short_gc': 'sm_short_gc'},
         rewrites=[(r'booster::unique_lock<booster::shared_mutex> lock\(mutex_\);', '', 1), (r'pointer p=map_\.find\(key\);', 'hnd p=map_find(key);', 1), (r'map_\.end\(\)', '0', 1),
                   (r'std::pair<pointer,bool> pr = map_\.insert\(std::pair<std::string,_data>\(key,_data\(\)\)\);', 'hnd pr_first = map_insert(key);', 0), (r'pointer p = pr\.first;', 'hnd p = pr_first;', 1),
                   (r'p->second\.', 'SN(p)->', 7), (r'timeout_\.insert\(std::pair<time_t,pointer>\(to,p\)\)', 'tm_insert(to, p)', 0), (r'timeout_\.erase\(', 'tm_erase(', 0)],
         contract=r'''
__CPROVER_requires(SRI && g_map_n < SCAP && (g_find_res == 0 || (ND_SANE(g_find_res) && g_map_n >= 1)) && g_new_node != 0 && g_new_node < SCAP && g_new_tm != 0 && g_new_tm < SCAP && !g_erased_any &&
                   g_find_calls == 0 && g_map_ins_calls == 0 && g_tm_ins_calls == 0 && g_tm_erase_calls == 0)
__CPROVER_assigns(g_map_n, g_tm_n, g_find_calls, g_find_key, g_map_ins_calls, g_map_ins_key, g_map_erase_calls, g_map_erase_arg, g_tm_ins_calls, g_tm_ins_deadline, g_tm_ins_node, g_tm_erase_calls, g_tm_erase_arg,
                  g_erased_deadline_max, g_erased_any, g_sn[g_new_node], g_sn[g_find_res], g_st[g_new_tm])
/* the session is stored under exactly this id with exactly this deadline and data; an existing record is updated in place and its OLD deadline entry is dropped (one deadline entry per session);
   the collection that follows only removes sessions whose deadline has passed */
__CPROVER_ensures(SRI && g_find_calls == 1 && g_find_key == key && g_tm_ins_calls == 1 && g_tm_ins_deadline == to && (g_erased_any ==> g_erased_deadline_max < g_now))
__CPROVER_ensures(g_find_res == 0 ? (g_map_ins_calls == 1 && g_map_ins_key == key && g_tm_ins_node == g_new_node) : (g_map_ins_calls == 0 && g_tm_ins_node == g_find_res && g_tm_erase_calls >= 1))
'''),
    dict(cname='sm_load', file=F, locate=lit('bool load(std::string const &key,time_t &to,std::string &value)'), sig='bool sm_load(size_t key, time_t *to, size_t *value)', refs=['to', 'value'],
         rewrites=[(r'booster::shared_lock<booster::shared_mutex> lock\(mutex_\);', '', 1), (r'map_type::iterator p=map_\.find\(key\);', 'hnd p=map_find(key);', 1), (r'map_\.end\(\)', '0', 1),
                   (r'p->second\.', 'SN(p)->', 3), (r'::time\(\w\)', 'verif_time0()', 1)],
         contract=r'''
__CPROVER_requires(SRI && (g_find_res == 0 || ND_SANE(g_find_res)) && __CPROVER_rw_ok(to, sizeof(*to)) && __CPROVER_rw_ok(value, sizeof(*value)) && g_find_calls == 0)
__CPROVER_assigns(*to, *value, g_find_calls, g_find_key)
/* a session is returned only under the id it was saved under and only while its deadline has not passed; then data and deadline are the stored ones; otherwise the caller's variables are untouched */
__CPROVER_ensures(g_find_calls == 1 && g_find_key == key && (__CPROVER_return_value ==> (g_find_res != 0 && g_sn[g_find_res].timeout >= g_now && *value == g_sn[g_find_res].info && *to == g_sn[g_find_res].timeout)))
__CPROVER_ensures(!__CPROVER_return_value ==> ((g_find_res == 0 || g_sn[g_find_res].timeout <= g_now) && *to == __CPROVER_old(*to) && *value == __CPROVER_old(*value)))
'''),
    dict(cname='sm_remove', file=F, locate=lit('void remove(std::string const &key)'), sig='void sm_remove(size_t key)', rename={'short_gc': 'sm_short_gc'},
         rewrites=[(r'booster::unique_lock<booster::shared_mutex> lock\(mutex_\);', '', 1), (r'pointer p=map_\.find\(key\);', 'hnd p=map_find(key);', 1), (r'map_\.end\(\)', '0', 1),
                   (r'timeout_\.erase\(p->second\.timeout_ptr\)', 'tm_erase(SN(p)->timeout_ptr)', 0), (r'map_\.erase\(p\)', 'map_erase_key(p)', 0)],
         contract=r'''
__CPROVER_requires(SRI && (g_find_res == 0 || (ND_SANE(g_find_res) && g_map_n >= 1)) && g_find_calls == 0 && !g_erased_any && g_rm_calls == 0)
__CPROVER_assigns(g_map_n, g_tm_n, g_find_calls, g_find_key, g_map_erase_calls, g_map_erase_arg, g_tm_erase_calls, g_tm_erase_arg, g_erased_deadline_max, g_erased_any, g_rm_calls, g_rm_node, g_rm_tm)
/* the session stored under the id, if any, leaves BOTH structures (its own deadline entry, not another one); nothing else is removed except expired sessions */
__CPROVER_ensures(SRI && g_find_calls == 1 && g_find_key == key && g_rm_calls == (g_find_res != 0 ? 1 : 0) && (g_find_res != 0 ==> (g_rm_node == g_find_res && g_rm_tm == g_sn[g_find_res].timeout_ptr)) &&
                  (g_erased_any ==> g_erased_deadline_max < g_now))
'''),
]

SETUP = r'''
    size_t c1, c2; __CPROVER_assume(c1 >= SCAP && c1 <= SCAP + 2 && c2 >= SCAP && c2 <= SCAP + 2); g_sn = malloc(c1 * sizeof(struct snode)); g_st = malloc(c2 * sizeof(struct stm)); __CPROVER_assume(g_sn != NULL && g_st != NULL);
    size_t mn; __CPROVER_assume(mn <= SCAP); g_map_n = mn; g_tm_n = mn; time_t nw; g_now = nw; hnd fr, nn, nt; g_find_res = fr; g_new_node = nn; g_new_tm = nt;
    g_find_calls = 0; g_map_ins_calls = 0; g_map_erase_calls = 0; g_tm_ins_calls = 0; g_tm_erase_calls = 0; g_erased_any = 0; g_rm_calls = 0;
'''
jobs = [
    dict(name='sm_short_gc', props=P, enforce='sm_short_gc', harness=SETUP + 'sm_short_gc(); VERIF_REACH;'),
    dict(name='sm_save', props=P, enforce='sm_save', replace=['sm_short_gc'], harness=SETUP + 'size_t key, val; time_t to; sm_save(key, to, val); VERIF_REACH;'),
    dict(name='sm_load', props=P, enforce='sm_load', harness=SETUP + 'size_t key, val; time_t to; sm_load(key, &to, &val); VERIF_REACH;'),
    dict(name='sm_remove', props=P, enforce='sm_remove', replace=['sm_short_gc'], harness=SETUP + 'size_t key; sm_remove(key); VERIF_REACH;'),
]

UNIT = dict(
    name='sessmem', functions=functions, jobs=jobs,
    pre=PRE + r'''
/* remove(): the explicit erase of the session's own node, recorded apart from the erases done by short_gc */
int g_rm_calls; hnd g_rm_node, g_rm_tm;
static void map_erase_key(hnd p) { __CPROVER_assert(p != 0 && g_map_n > 0, "map_.erase of a live iterator"); g_map_n--; g_rm_calls++; g_rm_node = p; g_rm_tm = g_tm_erase_arg; }
''',
    trusted=['sessmem: hash_map / std::multimap are abstract (iterators = handles, operations = recorders with ghost cardinalities); that timeout_.begin() is the smallest deadline and ++p walks in order is multimap semantics; '
             'every element that comes out of a container is assumed consistent (TM_SANE/ND_SANE: the two structures point at each other and agree on the deadline)',
             'sessmem: locks are dropped (sequential contracts)'],
    not_covered={'C06': ['session_interface.cpp state machine (load/save/expose/reset decisions), cookie handling, the other storages (files: C18; external), histories across requests']},
)
