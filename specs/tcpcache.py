# Unit "tcpcache" -- the wire format of the networked cache (private/tcp_cache_protocol.h, src/tcp_cache_server.cpp session,
# src/tcp_cache_client.cpp), key spreading (src/tcp_connector.cpp) and the L1 generation handshake (src/cache_over_ip.cpp).  Serves C10.
import sys, os
sys.path.insert(0, os.path.join(os.path.dirname(os.path.abspath(__file__)), '..', 'tools'))
from cxx2c import lit

SRV = 'src/tcp_cache_server.cpp'; CLI = 'src/tcp_cache_client.cpp'; CON = 'src/tcp_connector.cpp'; OIP = 'src/cache_over_ip.cpp'; PH = 'private/tcp_cache_protocol.h'
P = ['C10']
# `slen -= size+1` (int -= unsigned) and `len -= tmp_len+1` wrap modulo 2^32 by design when the last piece has no NUL of its own: defined behaviour, so the unsigned-overflow check is off for the two splitters
LINK = ['-fno-access-control', '-L{BUILD}', '-lcppcms', '-L{BUILD}/booster', '-lbooster', '-lpthread']
NO_UWRAP = ['--bounds-check', '--pointer-check', '--signed-overflow-check', '--div-by-zero-check', '--no-pointer-primitive-check']
OPS = r'\b(fetch|rise|clear|store|stats|error|done|data|no_data|uptodate|out_stats|session_save|session_load_data|session_load|session_remove)\b'

PRE = r'''
#include <time.h>
typedef struct tcp_operation_header tcp_operation_header;
@@REGION:opcodes@@
@@REGION:proto_header@@
#define TIME_T_MAX ((time_t)LONG_MAX)

/* ---- R8 models of the std:: objects the code manipulates ------------------------------------------------------------
 * std::string: n bytes at p followed by the c_str() terminator p[n]==0.  Ghost field src: where the bytes were copied from
 * (offset inside the message buffer), so that "key = message[0,key_len)" is a scalar postcondition. */
struct vstr { char *p; size_t n; size_t src; };
#define VSTR_OK(s) ((s)->n <= BUF_CAP && __CPROVER_r_ok((s)->p, (s)->n + 1) && (s)->p[(s)->n] == 0)
/* std::set<std::string> in iteration order, laid out contiguously: element i is t[off[i] .. off[i+1]-1) followed by its c_str()
 * terminator t[off[i+1]-1] == 0.  Any finite sequence of strings has such a layout; off[0] == 0. */
struct strset { char *t; size_t *off; size_t n; size_t total; };
static char const *strset_cstr(struct strset const *s, size_t i) { __CPROVER_assert(i < s->n, "set iterator dereferenced inside [begin,end)"); return s->t + s->off[i]; }
static size_t strset_size(struct strset const *s, size_t i)
{
  __CPROVER_assert(i < s->n, "set iterator dereferenced inside [begin,end)");
  /* representation well-formedness at the accessed element (not a restriction: every set has this layout) */
  __CPROVER_assume(s->off[i + 1] > s->off[i] && s->off[i + 1] <= s->total && s->t[s->off[i + 1] - 1] == 0);
  return s->off[i + 1] - s->off[i] - 1;
}

/* server session: std::vector<char> data_in_ is (in_p, in_n); data_out_ is the position-observing sink below */
struct session { char *in_p; size_t in_n; tcp_operation_header hin_; tcp_operation_header hout_; };
#define SESSION_OK(s) (__CPROVER_rw_ok(s, sizeof(*(s))) && (s)->in_n <= BUF_CAP && __CPROVER_r_ok((s)->in_p, (s)->in_n) && !SAME((s)->in_p, s))

/* append-only output string observed at ONE arbitrary position g_pos (chosen by the harness) */
size_t out_len; size_t g_pos; bool g_pos_seen; char g_pos_val;
static void out_reset(void) { out_len = 0; g_pos_seen = 0; }
static void out_append(char const *p, size_t n)
{
  __CPROVER_assert(n == 0 || __CPROVER_r_ok(p, n), "std::string::append(p,n) reads n bytes at p");
  if(g_pos >= out_len && g_pos - out_len < n) { g_pos_seen = 1; g_pos_val = p[g_pos - out_len]; }
  out_len += n;
}
static void out_swap(struct vstr *a) { out_reset(); out_append(a->p, a->n); }

/* ghost index used by the string copy models: the copy equals the source at index g_k (arbitrary) */
size_t g_k;
/* std::string::assign(first,last) with vector<char>::iterator arguments: the range must lie inside data_in_ */
static void vstr_assign_range(struct session *self, struct vstr *s, char *b, char *e)
{
  __CPROVER_assert(SAME(b, self->in_p) && SAME(e, self->in_p) && OFF(b) >= OFF(self->in_p) && OFF(b) <= OFF(e) && OFF(e) - OFF(self->in_p) <= self->in_n,
                   "iterator range handed to std::string::assign lies inside data_in_");
  size_t n = OFF(e) - OFF(b);
  s->n = n; s->src = OFF(b) - OFF(self->in_p); s->p = malloc(n + 1); __CPROVER_assume(s->p != NULL);
  __CPROVER_assume(s->p[n] == 0); if(g_k < n) __CPROVER_assume(s->p[g_k] == b[g_k]);
}
/* std::string::assign(char const *p, size_t n) */
static void vstr_assign_n(struct vstr *s, char const *p, size_t n)
{
  __CPROVER_assert(n == 0 || __CPROVER_r_ok(p, n), "std::string::assign(p,n) reads n bytes at p");
  s->n = n; s->src = OFF(p); s->p = (char *)p;   /* the copy is observed only through src/n (recorders below) */
}

/* recorder for triggers.insert(tmp) / tags->insert(tag): the g_ti-th insertion (arbitrary index) is kept */
size_t g_ti; size_t g_tr_count, g_tr_off, g_tr_len;
static void trig_insert(struct vstr *tmp) { if(g_tr_count == g_ti) { g_tr_off = tmp->src; g_tr_len = tmp->n; } g_tr_count++; }

/* recorder for cache_->store(key,data,triggers,timeout) */
int g_st_calls; size_t g_st_key_src, g_st_key_n, g_st_data_src, g_st_data_n, g_st_trig_count; time_t g_st_timeout;
static void cache_store(struct vstr *key, struct vstr *data, time_t timeout)
{ g_st_calls++; g_st_key_src = key->src; g_st_key_n = key->n; g_st_data_src = data->src; g_st_data_n = data->n; g_st_timeout = timeout; g_st_trig_count = g_tr_count; }

#define STRSET_OK(s) ((s)->n <= 100000 && (s)->total <= BUF_CAP && __CPROVER_r_ok((s)->off, ((s)->n + 1) * sizeof(size_t)) && (s)->off[0] == 0 && (s)->off[(s)->n] <= (s)->total && \
                      __CPROVER_r_ok((s)->t, (s)->total))

/* base_cache::fetch on the server: outcome chosen by the harness (g_cf_*), the call is recorded */
bool g_cf_found; struct vstr g_cf_val; struct strset g_cf_tags; time_t g_cf_timeout; uint64_t g_cf_gen; int g_cf_calls; bool g_cf_want_tags; size_t g_cf_key_src, g_cf_key_n;
static bool cache_fetch(struct vstr *key, struct vstr *a, struct strset *tags, time_t *timeout, uint64_t *gen)
{
  g_cf_calls++; g_cf_key_src = key->src; g_cf_key_n = key->n; g_cf_want_tags = tags != 0;
  if(!g_cf_found) return 0;
  *a = g_cf_val; if(tags) *tags = g_cf_tags; *timeout = g_cf_timeout; *gen = g_cf_gen; return 1;
}

/* client side: messenger::transmit(h,data) -- trusted to deliver header and payload unchanged; the request is recorded, the reply (chosen by the harness) replaces h/data */
int g_tx_calls; tcp_operation_header g_tx; size_t g_tx_len; tcp_operation_header g_reply_h; struct vstr g_reply_data;
static void transmit_rec(tcp_operation_header *h) { g_tx_calls++; g_tx = *h; g_tx_len = out_len; }
static void transmit_reply(tcp_operation_header *h, struct vstr *data) { g_tx_calls++; g_tx = *h; g_tx_len = data->n; *h = g_reply_h; *data = g_reply_data; }
static void tags_insert(struct strset *tags, struct vstr *tag) { __CPROVER_assert(tags != 0, "tags->insert through a non-null pointer"); trig_insert(tag); }
enum { tcp_cache_up_to_date = -1, tcp_cache_not_found = 0, tcp_cache_found = 1 };

/* cache_over_ip: the two collaborators are recorders; their outcomes are chosen by the harness */
struct oip { bool has_l1; };
int g_tcp_calls; bool g_tcp_flag; uint64_t g_tcp_gen_in; int g_tcp_res; struct vstr g_srv_val; uint64_t g_srv_gen; time_t g_srv_timeout;
static int tcp_fetch(struct vstr const *key, struct vstr *a, struct strset *tags, time_t *timeout, uint64_t *gen, bool flag)
{
  g_tcp_calls++; g_tcp_flag = flag; if(flag) g_tcp_gen_in = *gen;
  /* contract of tcp_cache::fetch (job cli_fetch): up_to_date is returned only when transfer_if_not_updated was set */
  __CPROVER_assume(g_tcp_res == tcp_cache_found || g_tcp_res == tcp_cache_not_found || (g_tcp_res == tcp_cache_up_to_date && flag));
  if(g_tcp_res == tcp_cache_found) { *a = g_srv_val; *gen = g_srv_gen; *timeout = g_srv_timeout; }
  return g_tcp_res;
}
bool g_l1_hit; struct vstr g_l1_val; uint64_t g_l1_gen; int g_l1_fetch_calls, g_l1_removed, g_l1_stored, g_l1_rise, g_l1_clear, g_tcp_store, g_tcp_rise, g_tcp_clear; uint64_t g_l1_store_gen; char *g_l1_store_valp;
static bool l1_fetch(struct vstr const *key, struct vstr *a, struct strset *tags, time_t *timeout, uint64_t *gen)
{ g_l1_fetch_calls++; if(!g_l1_hit) return 0; *a = g_l1_val; *gen = g_l1_gen; return 1; }
static void l1_remove(struct vstr const *key) { g_l1_removed++; }
bool g_l1_store_gen_null;   /* l1_store is a contract stub (functions list) so that the default argument gen=0 of base_cache::store is padded by rule R5 */

/* on_header_in: std::vector<char>::clear/resize, the socket read into the whole vector, the direct continuation */
int g_rd_calls, g_cont_calls, g_err_calls; size_t g_rd_n;
static void in_clear(struct session *self) { self->in_n = 0; }
static void in_resize(struct session *self, size_t n) { self->in_n = n; self->in_p = malloc(n); __CPROVER_assume(self->in_p != NULL); }
static void sock_async_read_all(struct session *self) { g_rd_calls++; g_rd_n = self->in_n; }
static void on_data_in_direct(struct session *self) { g_cont_calls++; }
static void handle_error_rec(void) { g_err_calls++; }

/* strlen ghosts: g_nul = offset of a NUL the caller knows about; g_sk arbitrary index for "no NUL before the result" */
size_t g_nul, g_sk;
'''

functions = [
    dict(stub=True, cname='verif_strlen', sig='size_t verif_strlen(char const *s)',
         contract='/* C11 7.24.6.3 strlen: needs a NUL inside the buffer (ghost g_nul = its offset); returns the FIRST one */\n'
                  '__CPROVER_requires(OFF(s) <= g_nul && __CPROVER_r_ok(s, g_nul - OFF(s) + 1) && s[g_nul - OFF(s)] == 0)\n__CPROVER_assigns()\n'
                  '__CPROVER_ensures(__CPROVER_return_value <= g_nul - OFF(s) && s[__CPROVER_return_value] == 0 && (g_sk < __CPROVER_return_value ==> s[g_sk] != 0))'),
    # ---------------- deadlines
    dict(cname='to_time_t', file=PH, locate=lit('inline time_t to_time_t(int64_t v)'), sig='time_t to_time_t(int64_t v)',
         rewrites=[(r'std::numeric_limits<time_t>::max\(\)', 'TIME_T_MAX', 2)],
         contract='__CPROVER_assigns()\n/* deadlines survive the wire: time_t is 64 bit on this target, the conversion is the identity */\n__CPROVER_ensures(__CPROVER_return_value == v)'),
    # ---------------- key spreading
    dict(cname='connector_hash', file=CON, locate=lit('unsigned tcp_connector::hash(std::string const &key)'), sig='unsigned connector_hash(int conns, struct vstr const *key)',
         rewrites=[(r'key\.size\(\)', 'key->n', 1), (r'key\[i\]', 'key->p[i]', 1)],
         loops={0: '__CPROVER_assigns(i, h)\n__CPROVER_loop_invariant(i <= key->n)\n__CPROVER_decreases(key->n - i)'},
         contract='__CPROVER_requires(conns >= 1 && VSTR_OK(key))\n'
                  '/* a pure function of the key bytes and the number of servers (empty frame: no state is read or written), so every node maps a key to the same server; the index is in range */\n'
                  '__CPROVER_assigns()\n__CPROVER_ensures(__CPROVER_return_value < (unsigned)conns)'),
    # ---------------- server: store
    dict(cname='srv_load_triggers', file=SRV, locate=lit('bool load_triggers(std::set<std::string> &triggers,char const *start,unsigned len)'),
         sig='bool srv_load_triggers(char const *start, unsigned len)', rename={'strlen': 'verif_strlen'},
         rewrites=[(r'std::string tmp;', 'struct vstr tmp = {0, 0, 0};', 1), (r'tmp\.assign\(', 'vstr_assign_n(&tmp, ', 1), (r'triggers\.insert\(tmp\)', 'trig_insert(&tmp)', 1)],
         body_ghost='g_s0 = OFF(start); g_nul = OFF(start) + len;',
         loops={0: r'''
__CPROVER_assigns(slen, start, g_tr_count, g_tr_off, g_tr_len)
/* position/remaining-length bookkeeping; the walk never leaves [start0, start0+len+1] */
__CPROVER_loop_invariant(SAME(start, __CPROVER_loop_entry(start)) && OFF(start) >= g_s0 && OFF(start) - g_s0 <= (size_t)len + 1 && slen == (int)len - (int)(OFF(start) - g_s0))
/* split at NULs: the walk is at the start of the list or just after a NUL */
__CPROVER_loop_invariant(OFF(start) == g_s0 || (__CPROVER_loop_entry(start))[OFF(start) - g_s0 - 1] == 0)
/* every inserted trigger (seen at the arbitrary ordinal g_ti) is a non-empty NUL-free run inside the list, followed by a NUL, and lies before the walk position */
__CPROVER_loop_invariant(g_tr_count > g_ti ==> (g_tr_len >= 1 && g_tr_off >= g_s0 && g_tr_off < OFF(start) && g_tr_len < OFF(start) - g_tr_off &&
      (__CPROVER_loop_entry(start))[g_tr_off - g_s0 + g_tr_len] == 0 && (g_tr_off == g_s0 || (__CPROVER_loop_entry(start))[g_tr_off - g_s0 - 1] == 0)))
__CPROVER_loop_invariant(g_tr_count <= OFF(start) - g_s0)
__CPROVER_decreases(slen)'''},
         contract=r'''
/* start is the c_str() of a std::string of len bytes: len+1 readable bytes, the last one NUL */
__CPROVER_requires(len <= BUF_CAP && __CPROVER_r_ok(start, (size_t)len + 1) && start[len] == 0 && g_tr_count == 0)
__CPROVER_assigns(g_tr_count, g_tr_off, g_tr_len, g_s0, g_nul)
/* the triggers inserted are exactly the NUL-separated pieces of the list, in order; an empty piece rejects the request */
__CPROVER_ensures(g_tr_count > g_ti ==> (g_tr_len >= 1 && g_tr_off >= OFF(start) && g_tr_off - OFF(start) < len && g_tr_len <= len - (g_tr_off - OFF(start)) && start[g_tr_off - OFF(start) + g_tr_len] == 0 &&
                  (g_tr_off == OFF(start) || start[g_tr_off - OFF(start) - 1] == 0)))
__CPROVER_ensures(g_tr_count <= (size_t)len + 1)
'''),
    dict(cname='srv_store', file=SRV, locate=r'void store\(\)', sig='void srv_store(struct session *self)', members=['hin_', 'hout_'],
         rename={'load_triggers': 'srv_load_triggers'},
         rewrites=[(r'std::set<std::string> triggers;', '', 1), (r'std::string (\w+);', r'struct vstr \1 = {0, 0, 0};', 3),
                   (r'std::vector<char>::iterator p=', 'char *p=', 1), (r'data_in_\.begin\(\)', 'self->in_p', 5),
                   (r'(\w+)\.assign\(', r'vstr_assign_range(self, &\1, ', 3), (r'ts\.c_str\(\)', 'ts.p', 1),
                   (r'load_triggers\(triggers,', 'load_triggers(', 1), (r'cache_->store\(key,data,triggers,timeout\)', 'cache_store(&key, &data, timeout)', 0)],
         contract=r'''
/* on_header_in sized data_in_ to the announced payload size */
__CPROVER_requires(SESSION_OK(self) && self->in_n == self->hin_.size && g_st_calls == 0 && g_tr_count == 0)
__CPROVER_assigns(self->hout_.opcode, g_st_calls, g_st_key_src, g_st_key_n, g_st_data_src, g_st_data_n, g_st_timeout, g_st_trig_count, g_tr_count, g_tr_off, g_tr_len, g_s0, g_nul)
/* the request is either refused (error) or stored exactly once ... */
__CPROVER_ensures((self->hout_.opcode == opcodes_done && g_st_calls == 1) || (self->hout_.opcode == opcodes_error && g_st_calls == 0))
/* ... with key = message[0,key_len), value = message[key_len,key_len+data_len), trigger list = the rest, which together are exactly the message; the deadline unchanged */
__CPROVER_ensures(g_st_calls == 1 ==> (g_st_key_src == 0 && g_st_key_n == self->hin_.operations.store.key_len && g_st_key_n >= 1 &&
                  g_st_data_src == g_st_key_n && g_st_data_n == self->hin_.operations.store.data_len &&
                  g_st_key_n + g_st_data_n + self->hin_.operations.store.triggers_len == self->in_n && g_st_timeout == self->hin_.operations.store.timeout))
'''),
    # ---------------- server: fetch
    dict(cname='srv_fetch', file=SRV, locate=r'void fetch\(\)', sig='void srv_fetch(struct session *self)', members=['hin_', 'hout_'],
         rewrites=[(r'std::string (\w+);', r'struct vstr \1 = {0, 0, 0};', 2), (r'std::set<std::string> tags,', 'struct strset tags = {0, 0, 0, 0},', 1),
                   (r'key\.assign\(', 'vstr_assign_range(self, &key, ', 1), (r'data_in_\.begin\(\)', 'self->in_p', 1), (r'data_in_\.end\(\)', '(self->in_p + self->in_n)', 1),
                   (r'cache_->fetch\(key,&a,ptags,&timeout,&generation\)', 'cache_fetch(&key, &a, ptags, &timeout, &generation)', 1),
                   (r'data_out_\.swap\(a\)', 'out_swap(&a)', 1), (r'data_out_\.size\(\)', 'out_len', 3),
                   (r'for\(std::set<std::string>::iterator p=tags\.begin\(\),e=tags\.end\(\);', 'for(size_t p=0,e=tags.n;', 1),
                   (r'p->c_str\(\)', 'strset_cstr(&tags, p)', 1), (r'p->size\(\)', 'strset_size(&tags, p)', 1), (r'data_out_\.append\(', 'out_append(', 1)],
         loops={0: r'''
__CPROVER_assigns(p, out_len, g_pos_seen, g_pos_val)
__CPROVER_loop_invariant(p <= e && e == tags.n && tags.off[p] <= tags.total && out_len == (size_t)self->hout_.operations.data.data_len + tags.off[p] &&
      /* the reply payload is value ++ (tag ++ NUL)* : observed at the arbitrary position g_pos (same clause: the dereference is guarded by the bounds above) */
      g_pos_seen == (g_pos < out_len) && (g_pos_seen ==> g_pos_val == (g_pos < self->hout_.operations.data.data_len ? a.p[g_pos] : tags.t[g_pos - self->hout_.operations.data.data_len])))
__CPROVER_decreases(e - p)'''},
         contract=r'''
/* on_data_in zeroed hout_; the payload buffer has the announced size; the answer of the cache (g_cf_*) is arbitrary but well-formed */
__CPROVER_requires(SESSION_OK(self) && self->in_n == self->hin_.size && self->hout_.size == 0 && g_cf_calls == 0 && VSTR_OK(&g_cf_val) && STRSET_OK(&g_cf_tags))
__CPROVER_assigns(self->hout_, out_len, g_pos_seen, g_pos_val, g_cf_calls, g_cf_want_tags, g_cf_key_src, g_cf_key_n)
/* the key looked up is the whole payload; triggers are asked for iff the client wants them */
__CPROVER_ensures(g_cf_calls == 1 && g_cf_key_src == 0 && g_cf_key_n == self->in_n && g_cf_want_tags == (self->hin_.operations.fetch.transfer_triggers != 0))
__CPROVER_ensures(!g_cf_found ==> (self->hout_.opcode == opcodes_no_data && self->hout_.size == 0))
/* L1 handshake, server side: "uptodate" is answered exactly when the client asked for it and its generation equals the generation of the entry the cache holds NOW */
__CPROVER_ensures((g_cf_found && self->hin_.operations.fetch.transfer_if_not_uptodate && g_cf_gen == self->hin_.operations.fetch.current_gen) ==> (self->hout_.opcode == opcodes_uptodate && self->hout_.size == 0))
__CPROVER_ensures((g_cf_found && !(self->hin_.operations.fetch.transfer_if_not_uptodate && g_cf_gen == self->hin_.operations.fetch.current_gen)) ==>
     (self->hout_.opcode == opcodes_data && self->hout_.operations.data.data_len == g_cf_val.n && self->hout_.size == g_cf_val.n + (g_cf_want_tags ? g_cf_tags.off[g_cf_tags.n] : 0) &&
      self->hout_.operations.data.triggers_len == self->hout_.size - self->hout_.operations.data.data_len && out_len == self->hout_.size &&
      self->hout_.operations.data.generation == g_cf_gen && self->hout_.operations.data.timeout == g_cf_timeout))
/* reply payload = value ++ trigger list, byte for byte */
__CPROVER_ensures((self->hout_.opcode == opcodes_data && g_pos < self->hout_.size) ==> (g_pos_seen && g_pos_val == (g_pos < g_cf_val.n ? g_cf_val.p[g_pos] : g_cf_tags.t[g_pos - g_cf_val.n])))
'''),
    # ---------------- client: store / fetch
    dict(cname='cli_store', file=CLI, locate=r'void tcp_cache::store\(\s*std::string const &key,\s*std::string const &a,\s*std::set<std::string> const &triggers,\s*time_t timeout\)',
         sig='void cli_store(struct vstr const *key, struct vstr const *a, struct strset const *triggers, time_t timeout)',
         rewrites=[(r'tcp_operation_header h=tcp_operation_header\(\);', 'tcp_operation_header h = {0};', 1), (r'std::string data;', 'out_reset();', 1),
                   (r'data\.append\((\w+)\);', r'out_append(\1->p, \1->n);', 2), (r'key\.size\(\)', 'key->n', 1), (r'\ba\.size\(\)', 'a->n', 1),
                   (r'for\(std::set<std::string>::const_iterator p=triggers\.begin\(\),e=triggers\.end\(\);', 'for(size_t p=0,e=triggers->n;', 1),
                   (r'p->size\(\)', 'strset_size(triggers, p)', 2), (r'p->c_str\(\)', 'strset_cstr(triggers, p)', 1), (r'data\.append\(', 'out_append(', 1),
                   (r'data\.size\(\)', 'out_len', 1), (r'get\(key\)\.transmit\(h,data\)', 'transmit_rec(&h)', 0)],
         loops={0: r'''
__CPROVER_assigns(p, tlen, out_len, g_pos_seen, g_pos_val)
__CPROVER_loop_invariant(p <= e && e == triggers->n && triggers->off[p] <= triggers->total && out_len == key->n + a->n + triggers->off[p] && tlen == (unsigned)triggers->off[p] &&
      g_pos_seen == (g_pos < out_len) && (g_pos_seen ==> g_pos_val == (g_pos < key->n ? key->p[g_pos] : g_pos < key->n + a->n ? a->p[g_pos - key->n] : triggers->t[g_pos - key->n - a->n])))
__CPROVER_decreases(e - p)'''},
         contract=r'''
__CPROVER_requires(VSTR_OK(key) && VSTR_OK(a) && STRSET_OK(triggers) && key->n + a->n + triggers->total <= BUF_CAP && g_tx_calls == 0)
__CPROVER_assigns(out_len, g_pos_seen, g_pos_val, g_tx_calls, g_tx, g_tx_len)
/* one message: header fields = the three lengths, payload = key ++ value ++ (trigger ++ NUL)*, size = their sum, deadline unchanged */
__CPROVER_ensures(g_tx_calls == 1 && g_tx.opcode == opcodes_store && g_tx.operations.store.key_len == key->n && g_tx.operations.store.data_len == a->n &&
                  g_tx.operations.store.triggers_len == triggers->off[triggers->n] && g_tx.size == key->n + a->n + triggers->off[triggers->n] && g_tx_len == g_tx.size &&
                  g_tx.operations.store.timeout == timeout)
__CPROVER_ensures(g_pos < g_tx_len ==> (g_pos_seen && g_pos_val == (g_pos < key->n ? key->p[g_pos] : g_pos < key->n + a->n ? a->p[g_pos - key->n] : triggers->t[g_pos - key->n - a->n])))
'''),
    dict(cname='cli_fetch', file=CLI, locate=r'int tcp_cache::fetch\(\s*std::string const &key,\s*std::string &a,\s*std::set<std::string> \*tags,\s*time_t &timeout,\s*uint64_t &generation,\s*bool transfer_if_not_updated\)',
         sig='int cli_fetch(struct vstr const *key, struct vstr *a, struct strset *tags, time_t *timeout, uint64_t *generation, bool transfer_if_not_updated)',
         refs=['timeout', 'generation'], rename={'strlen': 'verif_strlen', 'up_to_date': 'tcp_cache_up_to_date', 'not_found': 'tcp_cache_not_found', 'found': 'tcp_cache_found'},
         rewrites=[(r'std::string data=key;', 'struct vstr data = *key;', 1), (r'tcp_operation_header h=tcp_operation_header\(\);', 'tcp_operation_header h = {0};', 1),
                   (r'data\.size\(\)', 'data.n', 2), (r'get\(key\)\.transmit\(h,data\)', 'transmit_reply(&h, &data)', 1), (r'data\.c_str\(\)', 'data.p', 1),
                   (r'\ba\.assign\(', 'vstr_assign_n(a, ', 1), (r'std::string tag;', 'struct vstr tag = {0, 0, 0};', 1), (r'tag\.assign\(', 'vstr_assign_n(&tag, ', 1),
                   (r'tags->insert\(tag\)', 'tags_insert(tags, &tag)', 1)],
         inserts=[(r'transmit_reply\(&h, &data\);', 0, 'g_s0 = OFF(data.p); g_nul = OFF(data.p) + data.n;')],
         loops={0: r'''
__CPROVER_assigns(len, ptr, g_tr_count, g_tr_off, g_tr_len)
/* the walk stays inside the reply payload [data_len, size] (+ the c_str() terminator) */
__CPROVER_loop_invariant(SAME(ptr, data.p) && OFF(ptr) >= g_s0 && OFF(ptr) - g_s0 >= h.operations.data.data_len && OFF(ptr) - g_s0 <= (size_t)h.size + 1 &&
      len == (int)h.operations.data.triggers_len - (int)(OFF(ptr) - g_s0 - h.operations.data.data_len))
__CPROVER_loop_invariant(OFF(ptr) - g_s0 == h.operations.data.data_len || data.p[OFF(ptr) - g_s0 - 1] == 0)
__CPROVER_loop_invariant(g_tr_count > g_ti ==> (g_tr_off >= g_s0 + h.operations.data.data_len && g_tr_off < OFF(ptr) && g_tr_len < OFF(ptr) - g_tr_off &&
      data.p[g_tr_off - g_s0 + g_tr_len] == 0 && (g_tr_off - g_s0 == h.operations.data.data_len || data.p[g_tr_off - g_s0 - 1] == 0)))
__CPROVER_loop_invariant(g_tr_count <= OFF(ptr) - g_s0)
__CPROVER_decreases(len)'''},
         contract=r'''
/* the reply is what the contract of srv_fetch promises: for "data", data_len + triggers_len == size, and triggers only if they were asked for */
__CPROVER_requires(VSTR_OK(key) && __CPROVER_rw_ok(a, sizeof(*a)) && __CPROVER_rw_ok(timeout, sizeof(*timeout)) && __CPROVER_rw_ok(generation, sizeof(*generation)) &&
                   (tags == 0 || __CPROVER_rw_ok(tags, sizeof(*tags))) && g_tx_calls == 0 && g_tr_count == 0 && VSTR_OK(&g_reply_data) && g_reply_data.n == g_reply_h.size &&
                   (g_reply_h.opcode == opcodes_data ==> ((size_t)g_reply_h.operations.data.data_len + g_reply_h.operations.data.triggers_len == g_reply_h.size &&
                                                        (tags == 0 ==> g_reply_h.operations.data.triggers_len == 0))))
__CPROVER_assigns(*a, *timeout, *generation, g_tx_calls, g_tx, g_tx_len, g_tr_count, g_tr_off, g_tr_len, g_s0, g_nul)
/* request: the key, the generation of the caller when a refresh is asked for, the two flags */
__CPROVER_ensures(g_tx_calls == 1 && g_tx.opcode == opcodes_fetch && g_tx.size == key->n && g_tx.operations.fetch.key_len == key->n && g_tx_len == key->n &&
                  (g_tx.operations.fetch.transfer_if_not_uptodate != 0) == transfer_if_not_updated && (g_tx.operations.fetch.transfer_triggers != 0) == (tags != 0) &&
                  (transfer_if_not_updated ==> g_tx.operations.fetch.current_gen == __CPROVER_old(*generation)))
/* result: up_to_date only for a refresh request answered "uptodate"; found exactly for "data" */
__CPROVER_ensures(__CPROVER_return_value == ((transfer_if_not_updated && g_reply_h.opcode == opcodes_uptodate) ? tcp_cache_up_to_date : g_reply_h.opcode == opcodes_data ? tcp_cache_found : tcp_cache_not_found))
/* found: value = reply[0,data_len), deadline and generation as sent, triggers = the NUL-separated pieces of reply[data_len,size) */
__CPROVER_ensures(__CPROVER_return_value == tcp_cache_found ==> (a->src == OFF(g_reply_data.p) && a->n == g_reply_h.operations.data.data_len &&
                  *timeout == g_reply_h.operations.data.timeout && *generation == g_reply_h.operations.data.generation))
__CPROVER_ensures((__CPROVER_return_value == tcp_cache_found && g_tr_count > g_ti) ==> (g_tr_off >= OFF(g_reply_data.p) && g_tr_off - OFF(g_reply_data.p) >= g_reply_h.operations.data.data_len &&
                  g_tr_off - OFF(g_reply_data.p) <= g_reply_h.size && g_tr_len <= g_reply_h.size - (g_tr_off - OFF(g_reply_data.p)) && g_reply_data.p[g_tr_off - OFF(g_reply_data.p) + g_tr_len] == 0))
/* anything else leaves the value and generation of the caller alone */
__CPROVER_ensures(__CPROVER_return_value != tcp_cache_found ==> (a->p == __CPROVER_old(a->p) && a->n == __CPROVER_old(a->n) && *generation == __CPROVER_old(*generation)))
'''),
    dict(stub=True, cname='l1_store', sig='void l1_store(struct vstr const *key, struct vstr *a, struct strset *tags, time_t timeout, uint64_t *gen)', defaults=['0'],
         contract='/* base_cache::store(key,a,triggers,timeout,uint64_t const *gen=0) of the L1 cache: recorder; with gen==0 the L1 cache stamps the entry with its OWN counter */\n'
                  '__CPROVER_requires(__CPROVER_r_ok(a, sizeof(*a)) && (gen == 0 || __CPROVER_r_ok(gen, sizeof(*gen))))\n'
                  '__CPROVER_assigns(g_l1_stored, g_l1_store_gen, g_l1_store_valp, g_l1_store_gen_null)\n'
                  '__CPROVER_ensures(g_l1_stored == __CPROVER_old(g_l1_stored) + 1 && g_l1_store_gen_null == (gen == 0) && (gen != 0 ==> g_l1_store_gen == *gen) && g_l1_store_valp == a->p)'),
    # ---------------- node: L1 in front of the server
    dict(cname='oip_fetch', file=OIP, locate=r'bool fetch\(\s*std::string const &key,\s*std::string \*a,std::set<std::string> \*tags,\s*time_t \*timeout_out,\s*uint64_t \*gen\)',
         sig='bool oip_fetch(struct oip *self, struct vstr const *key, struct vstr *a, struct strset *tags, time_t *timeout_out, uint64_t *gen)',
         rewrites=[(r'std::string buffer;', 'struct vstr buffer = {0, 0, 0};', 1), (r'std::set<std::string> tmp_triggers;', 'struct strset tmp_triggers = {0, 0, 0, 0};', 1),
                   (r'l1_\.get\(\)', 'self->has_l1', 1), (r'tcp\(\)->fetch\(key,\*a,tags,\*timeout_out,\*gen,', 'tcp_fetch(key, a, tags, timeout_out, gen, ', 3),
                   (r'l1_->fetch\(key,a,tags,timeout_out,gen\)', 'l1_fetch(key, a, tags, timeout_out, gen)', 1), (r'l1_->remove\(key\)', 'l1_remove(key)', 0),
                   (r'l1_->store\(key,\*a,\*tags,\*timeout_out', 'l1_store(key, a, tags, *timeout_out', 0)],
         contract=r'''
__CPROVER_requires(__CPROVER_r_ok(self, sizeof(*self)) && (a == 0 || __CPROVER_rw_ok(a, sizeof(*a))) && (tags == 0 || __CPROVER_rw_ok(tags, sizeof(*tags))) &&
                   (timeout_out == 0 || __CPROVER_rw_ok(timeout_out, sizeof(*timeout_out))) && (gen == 0 || __CPROVER_rw_ok(gen, sizeof(*gen))) &&
                   g_tcp_calls == 0 && g_l1_fetch_calls == 0 && g_l1_removed == 0 && g_l1_stored == 0)
__CPROVER_assigns(g_tcp_calls, g_tcp_flag, g_tcp_gen_in, g_l1_fetch_calls, g_l1_removed, g_l1_stored, g_l1_store_gen, g_l1_store_valp, g_l1_store_gen_null;
                  a != 0: *a; tags != 0: *tags; timeout_out != 0: *timeout_out; gen != 0: *gen)
/* the server is consulted exactly once on EVERY fetch, L1 hit or not */
__CPROVER_ensures(g_tcp_calls == 1 && g_l1_fetch_calls == (self->has_l1 ? 1 : 0))
/* a hit is reported only if the server sent the value in this call, or confirmed in this call that the generation of the L1 copy is its current one */
__CPROVER_ensures(__CPROVER_return_value == (g_tcp_res != tcp_cache_not_found))
__CPROVER_ensures(g_tcp_res == tcp_cache_up_to_date ==> (self->has_l1 && g_l1_hit && g_tcp_flag && g_tcp_gen_in == g_l1_gen))
__CPROVER_ensures((self->has_l1 && g_l1_hit) ==> (g_tcp_flag && g_tcp_gen_in == g_l1_gen))
/* the value handed to the caller is the server's when it sent one, the L1 copy only when confirmed */
__CPROVER_ensures((a != 0 && g_tcp_res == tcp_cache_found) ==> a->p == g_srv_val.p)
__CPROVER_ensures((a != 0 && g_tcp_res == tcp_cache_up_to_date) ==> a->p == g_l1_val.p)
__CPROVER_ensures((gen != 0 && g_tcp_res == tcp_cache_found) ==> *gen == g_srv_gen)
/* L1 maintenance: refreshed with the value and generation of the server, dropped when the server no longer has the key, untouched when confirmed */
__CPROVER_ensures(self->has_l1 ==> (g_l1_stored == (g_tcp_res == tcp_cache_found ? 1 : 0) && g_l1_removed == ((g_tcp_res == tcp_cache_not_found && g_l1_hit) ? 1 : 0)))
__CPROVER_ensures((self->has_l1 && g_tcp_res == tcp_cache_found) ==> (!g_l1_store_gen_null && g_l1_store_gen == g_srv_gen && g_l1_store_valp == g_srv_val.p))
__CPROVER_ensures(!self->has_l1 ==> (g_l1_stored == 0 && g_l1_removed == 0))
'''),
    # ---------------- server: header received -> payload buffer sized to the announced length
    dict(cname='srv_on_header_in', file=SRV, locate=r'void on_header_in\(booster::system::error_code const &e,size_t\)', sig='void srv_on_header_in(struct session *self, int e)', members=['hin_'],
         rewrites=[(r'handle_error\(e\)', 'handle_error_rec()', 1), (r'data_in_\.clear\(\)', 'in_clear(self)', 1), (r'data_in_\.resize\(', 'in_resize(self, ', 1),
                   (r'socket_\.async_read\(io::buffer\(data_in_\),\s*mfunc_to_io_handler\(&session::on_data_in,shared_from_this\(\)\)\)', 'sock_async_read_all(self)', 1),
                   (r'on_data_in\(e,\w+\)', 'on_data_in_direct(self)', 1)],
         contract=r'''
__CPROVER_requires(__CPROVER_rw_ok(self, sizeof(*self)) && g_rd_calls == 0 && g_cont_calls == 0 && g_err_calls == 0)
__CPROVER_assigns(self->in_p, self->in_n, g_rd_calls, g_cont_calls, g_err_calls, g_rd_n)
/* the invariant the opcode handlers rely on: the payload buffer has exactly the announced size, and exactly that many bytes are read before on_data_in runs */
__CPROVER_ensures(e == 0 ==> (self->in_n == self->hin_.size && g_err_calls == 0 && g_rd_calls + g_cont_calls == 1 && (g_rd_calls == 1 ==> (g_rd_n == self->hin_.size && g_rd_n > 0)) && (g_cont_calls == 1 ==> self->hin_.size == 0)))
__CPROVER_ensures(e != 0 ==> (g_err_calls == 1 && g_rd_calls == 0 && g_cont_calls == 0))
'''),
]

# harness helper: a symbolic set layout (n elements, offset table, total bytes)
SETS = r'''
#define SYM_SET(S) do { size_t sn_, st_; __CPROVER_assume(sn_ <= 100000 && st_ <= BUF_CAP); (S).n = sn_; (S).total = st_; \
   (S).off = malloc((sn_ + 1) * sizeof(size_t)); (S).t = malloc(st_); __CPROVER_assume((S).off != NULL && (S).t != NULL && (S).off[0] == 0 && (S).off[sn_] <= st_); } while(0)
'''
jobs = [
    dict(name='to_time_t', props=P, enforce='to_time_t', harness='int64_t v; time_t r = to_time_t(v); VERIF_REACH;'),
    dict(name='connector_hash', props=P, replay='c10:loopback', replay_link=LINK, replay_exhaustive='two real servers on 127.0.0.1, three real nodes (two with L1), a 1500-step pseudo-random store/fetch/rise/clear history with binary and empty values against a reference map; 2000 hashed keys', enforce='connector_hash', harness=r'''
    SYM_BUF(char, kb, kn1, BUF_CAP); __CPROVER_assume(kn1 >= 1 && kb[kn1 - 1] == 0); struct vstr key = { kb, kn1 - 1, 0 }; int conns;
    unsigned r = connector_hash(conns, &key); VERIF_REACH;'''),
    dict(name='srv_load_triggers', props=P, replay='c10:loopback', replay_link=LINK, replay_exhaustive='two real servers on 127.0.0.1, three real nodes (two with L1), a 1500-step pseudo-random store/fetch/rise/clear history with binary and empty values against a reference map; 2000 hashed keys', enforce='srv_load_triggers', replace=['verif_strlen'], checks=NO_UWRAP, harness=r'''
    SYM_BUF(char, b, n1, BUF_CAP); size_t ti, sk; g_ti = ti; g_sk = sk; g_tr_count = 0; unsigned len;
    bool r = srv_load_triggers(b, len); VERIF_REACH;'''),
    dict(name='srv_store', props=P, enforce='srv_store', replace=['srv_load_triggers', 'to_time_t'], harness=r'''
    struct session s; SYM_BUF(char, b, n, BUF_CAP); s.in_p = b; s.in_n = n; size_t ti, sk, k; g_ti = ti; g_sk = sk; g_k = k; g_tr_count = 0; g_st_calls = 0;
    WIT(0, s.hin_.size); WIT(1, s.hin_.operations.store.key_len); WIT(2, s.hin_.operations.store.data_len); WIT(3, s.hin_.operations.store.triggers_len); WIT_BUF(0, b, n);
    srv_store(&s); VERIF_REACH;''', witness=dict(bufs=['msg'], vals=['size', 'key_len', 'data_len', 'triggers_len']), replay='c10:srv_store', replay_link=LINK),
    dict(name='srv_fetch', props=P, replay='c10:loopback', replay_link=LINK, replay_exhaustive='two real servers on 127.0.0.1, three real nodes (two with L1), a 1500-step pseudo-random store/fetch/rise/clear history with binary and empty values against a reference map; 2000 hashed keys', enforce='srv_fetch', harness=SETS + r'''
    struct session s; SYM_BUF(char, b, n, BUF_CAP); s.in_p = b; s.in_n = n; size_t k, pos; g_k = k; g_pos = pos; g_cf_calls = 0; out_reset();
    SYM_BUF(char, vb, vn1, BUF_CAP); __CPROVER_assume(vn1 >= 1 && vb[vn1 - 1] == 0); g_cf_val.p = vb; g_cf_val.n = vn1 - 1; g_cf_val.src = 0;
    SYM_SET(g_cf_tags); int fnd; g_cf_found = fnd != 0; time_t to; g_cf_timeout = to; uint64_t gen; g_cf_gen = gen;
    srv_fetch(&s); VERIF_REACH;'''),
    dict(name='cli_store', props=P, replay='c10:loopback', replay_link=LINK, replay_exhaustive='two real servers on 127.0.0.1, three real nodes (two with L1), a 1500-step pseudo-random store/fetch/rise/clear history with binary and empty values against a reference map; 2000 hashed keys', enforce='cli_store', harness=SETS + r'''
    SYM_BUF(char, kb, kn1, BUF_CAP); __CPROVER_assume(kn1 >= 1 && kb[kn1 - 1] == 0); struct vstr key = { kb, kn1 - 1, 0 };
    SYM_BUF(char, vb, vn1, BUF_CAP); __CPROVER_assume(vn1 >= 1 && vb[vn1 - 1] == 0); struct vstr val = { vb, vn1 - 1, 0 };
    struct strset tr; SYM_SET(tr);
    size_t pos; g_pos = pos; g_tx_calls = 0; time_t to;
    cli_store(&key, &val, &tr, to); VERIF_REACH;'''),
    dict(name='cli_fetch', props=P, replay='c10:loopback', replay_link=LINK, replay_exhaustive='two real servers on 127.0.0.1, three real nodes (two with L1), a 1500-step pseudo-random store/fetch/rise/clear history with binary and empty values against a reference map; 2000 hashed keys', enforce='cli_fetch', replace=['verif_strlen', 'to_time_t'], checks=NO_UWRAP, harness=r'''
    SYM_BUF(char, kb, kn1, BUF_CAP); __CPROVER_assume(kn1 >= 1 && kb[kn1 - 1] == 0); struct vstr key = { kb, kn1 - 1, 0 };
    SYM_BUF(char, rb, rn1, BUF_CAP); __CPROVER_assume(rn1 >= 1 && rb[rn1 - 1] == 0); g_reply_data.p = rb; g_reply_data.n = rn1 - 1; g_reply_data.src = 0;
    tcp_operation_header rh; g_reply_h = rh; size_t ti, sk; g_ti = ti; g_sk = sk; g_tr_count = 0; g_tx_calls = 0;
    struct vstr a; struct strset tg; int wi, fi; bool want = wi != 0, flag = fi != 0; /* canonical _Bool values */ time_t to; uint64_t gen;
    int r = cli_fetch(&key, &a, want ? &tg : 0, &to, &gen, flag); VERIF_REACH;'''),
    dict(name='oip_fetch', props=P, replace=['l1_store'], replay='c10:loopback', replay_link=LINK, replay_exhaustive='two real servers on 127.0.0.1, three real nodes (two with L1), a 1500-step pseudo-random store/fetch/rise/clear history with binary and empty values against a reference map; 2000 hashed keys', enforce='oip_fetch', harness=r'''
    struct oip o; struct vstr key = {0, 0, 0}, a; struct strset tg; time_t to; uint64_t gen; int i1, i2, i3, i4, i5, i6; bool na = i1 != 0, nt = i2 != 0, nto = i3 != 0, ng = i4 != 0; o.has_l1 = i5 != 0;
    int res; g_tcp_res = res; g_l1_hit = i6 != 0; uint64_t lg, sg; g_l1_gen = lg; g_srv_gen = sg;
    char *p1 = malloc(1), *p2 = malloc(1); __CPROVER_assume(p1 && p2); g_l1_val.p = p1; g_srv_val.p = p2;
    g_tcp_calls = 0; g_l1_fetch_calls = 0; g_l1_removed = 0; g_l1_stored = 0;
    bool r = oip_fetch(&o, &key, na ? 0 : &a, nt ? 0 : &tg, nto ? 0 : &to, ng ? 0 : &gen); VERIF_REACH;'''),
    dict(name='srv_on_header_in', props=P, enforce='srv_on_header_in', harness=r'''
    struct session s; int e; g_rd_calls = 0; g_cont_calls = 0; g_err_calls = 0;
    srv_on_header_in(&s, e); VERIF_REACH;'''),
]

UNIT = dict(
    name='tcpcache', pre=PRE.replace('size_t g_nul, g_sk;', 'size_t g_nul, g_sk, g_s0;'), functions=functions, jobs=jobs,
    regions=[dict(name='opcodes', file=PH, start=r'enum \{\s*fetch, rise', end=None, rewrites=[(OPS, r'opcodes_\1', 1)]),
             dict(name='proto_header', file=PH, start=r'struct tcp_operation_header \{', end=None)],
    trusted=['tcpcache: std::string is (pointer, length, NUL terminator); std::set<std::string> is a contiguous layout with an offset table (R8); the copy made by string::assign is observed at one arbitrary index',
             'tcpcache: messenger::transmit (socket I/O) is assumed to deliver header and payload unchanged; base_cache::store/fetch are recorders/stubs',
             'tcpcache: the composition "what the client builds is what the server parses" is a pen-and-paper step over the two contracts (same header fields, same byte positions)'],
    not_covered={'C10': ['multi-node history: that no node serves a value another node replaced follows from the per-call contracts (server consulted on every fetch, L1 value served only on "uptodate" for its generation, '
                         'generation unique per store) only by an argument outside the verifier', 'mem_cache itself (generation++ in store), sockets, reconnect logic in messenger::transmit, session opcodes']},
)
