# Unit "jsonw" -- JSON string serialisation (src/json.cpp details::generic_append, used by to_json and every object key / string value).  Serves C11.
import sys, os
sys.path.insert(0, os.path.join(os.path.dirname(os.path.abspath(__file__)), '..', 'tools'))
from cxx2c import lit

J = 'src/json.cpp'
P = ['C11']

PRE = r'''
/* RFC 8259 section 7: inside a string the quotation mark, the reverse solidus and U+0000..U+001F must be escaped */
#define JSON_PLAIN(c) ((unsigned char)(c) > 0x1F && (c) != '"' && (c) != '\\')
#define LHEX(v) ((char)((v) < 10 ? '0' + (v) : 'a' + ((v) - 10)))
size_t g_k; size_t g_next_in; int g_quotes; size_t g_out; char const *g_in_b;
/* Appender (string_append / stream_append, R7/R10): every call states what it may append */
static void app_quote(void) { g_quotes++; g_out++; }
/* a.append(p,n): a verbatim run of input bytes; it must start at the first input byte not yet represented and contain only plain characters */
static void app_run(char const *p, size_t n)
{
  __CPROVER_assert(SAME(p, g_in_b) && OFF(p) == g_next_in && g_quotes == 1, "verbatim run starts at the next unrepresented input byte, between the quotes");
  if(g_k >= OFF(p) && g_k - OFF(p) < n) __CPROVER_assert(JSON_PLAIN(g_in_b[g_k - OFF(g_in_b)]), "verbatim run contains no quotation mark, reverse solidus or control character");
  g_next_in += n; g_out += n;
}
/* a.append(addon): the escape of the input byte at g_next_in */
static void app_esc(char const *s)
{
  unsigned char c = (unsigned char)g_in_b[g_next_in - OFF(g_in_b)];
  __CPROVER_assert(g_quotes == 1 && !JSON_PLAIN(c), "an escape is emitted only for a byte that needs one, between the quotes");
  __CPROVER_assert(s[0] == '\\' && (
     (c == '"' && s[1] == '"' && s[2] == 0) || (c == '\\' && s[1] == '\\' && s[2] == 0) || (c == '\b' && s[1] == 'b' && s[2] == 0) || (c == '\f' && s[1] == 'f' && s[2] == 0) ||
     (c == '\n' && s[1] == 'n' && s[2] == 0) || (c == '\r' && s[1] == 'r' && s[2] == 0) || (c == '\t' && s[1] == 't' && s[2] == 0) ||
     (c <= 0x1F && s[1] == 'u' && s[2] == '0' && s[3] == '0' && s[4] == LHEX(c >> 4) && s[5] == LHEX(c & 15) && s[6] == 0)),
     "the escape denotes exactly the escaped byte (two-character escape or \\u00XX)");
  g_next_in += 1; g_out += 2;
}

/* ---- string token parser: the stream buffer is a ghost input string; str is a sink whose appends are checked */
char const *g_is_p; size_t g_is_n, g_is_pos; bool g_bad_raw, g_bad_scalar, g_validated, g_validate_result, g_str_cleared; size_t g_str_len;
static int is_sbumpc(void) { if(g_is_pos >= g_is_n) return -1; return (unsigned char)g_is_p[g_is_pos++]; }
static void str_clear(void) { g_str_cleared = 1; g_str_len = 0; }
/* str += char(c) for a raw (unescaped) input byte or a two-character escape */
static void str_put(char c) { g_str_len++; }
static void str_put_raw(int c) { if(c >= 0 && c <= 0x1F) g_bad_raw = 1; g_str_len++; }
/* append(x): UTF-8 of a scalar value; a lone surrogate or a value above U+10FFFF must never get here */
static void str_append_scalar(uint32_t x) { if((x >= 0xD800 && x <= 0xDFFF) || x > 0x10FFFF) g_bad_scalar = 1; g_str_len += 4; }
/* read_4_digits(x): four hex digits from the stream (or failure) */
static bool read4(uint16_t *x) { bool ok; if(g_is_n - g_is_pos < 4) return 0; if(!ok) { g_is_pos += 1; return 0; } g_is_pos += 4; uint16_t v; *x = v; return 1; }
/* utf8::validate(str): contract proved in unit utf8 -- in particular the UTF-8 form of a lone surrogate (ED A0..BF xx), which append() produces for an unpaired \\uDC00..DFFF, is rejected */
static bool utf8_validate_str(void) { g_validated = 1; if(g_bad_scalar) return 0; return g_validate_result; }
static bool utf16_is_first_surrogate(uint16_t x) { return 0xD800 <= x && x <= 0xDBFF; }      /* RFC 2781 */
static bool utf16_is_second_surrogate(uint16_t x) { return 0xDC00 <= x && x <= 0xDFFF; }
static uint32_t utf16_combine_surrogate(uint16_t w1, uint16_t w2) { return (((uint32_t)(w1 & 0x3FF) << 10) | (w2 & 0x3FF)) + 0x10000; }
'''

PRE += r'''
/* ---- tokenizer: next(), check(), read_4_digits() over the same ghost input stream */
enum { tock_eof = 255, tock_err, tock_str, tock_number, tock_true, tock_false, tock_null };
int g_line; size_t g_k2, g_chk0, g_s0off; int g_ps_calls, g_pn_calls; bool g_ps_res, g_pn_res; size_t g_ps_pos, g_pn_pos;
static void is_sungetc(void) { __CPROVER_assert(g_is_pos > 0, "sungetc after a successful sbumpc"); g_is_pos--; }
/* parse_string()/parse_number() seen from next(): recorders (parse_string has its own job) that consume at least the byte that was put back */
static bool tk_parse_string(void) { g_ps_calls++; g_ps_pos = g_is_pos; size_t k; __CPROVER_assume(k >= 1 && k <= g_is_n - g_is_pos); g_is_pos += k; return g_ps_res; }
static bool tk_parse_number(void) { g_pn_calls++; g_pn_pos = g_is_pos; size_t k; __CPROVER_assume(k >= 1 && k <= g_is_n - g_is_pos); g_is_pos += k; return g_pn_res; }
/* is_.get(buf,5): up to 4 characters, stops before a newline or at the end of input, NUL-terminates; fails when nothing was extracted */
static bool is_get4(char *buf)
{
  size_t k = 0;
  if(g_is_pos < g_is_n && g_is_p[g_is_pos] != '\n') { buf[0] = g_is_p[g_is_pos]; g_is_pos++; k = 1;
    if(g_is_pos < g_is_n && g_is_p[g_is_pos] != '\n') { buf[1] = g_is_p[g_is_pos]; g_is_pos++; k = 2;
      if(g_is_pos < g_is_n && g_is_p[g_is_pos] != '\n') { buf[2] = g_is_p[g_is_pos]; g_is_pos++; k = 3;
        if(g_is_pos < g_is_n && g_is_p[g_is_pos] != '\n') { buf[3] = g_is_p[g_is_pos]; g_is_pos++; k = 4; } } } }
  buf[k] = 0; return k > 0;
}
#define HEXV(c) ((c) >= '0' && (c) <= '9' ? (c) - '0' : (c) >= 'a' && (c) <= 'f' ? (c) - 'a' + 10 : (c) - 'A' + 10)
#define ISHEX(c) (((c) >= '0' && (c) <= '9') || ((c) >= 'a' && (c) <= 'f') || ((c) >= 'A' && (c) <= 'F'))
/* sscanf(buf,"%x",&v) on four hexadecimal digits (C99 7.19.6.2) */
static void sscanf_x4(char const *buf, unsigned *v) { __CPROVER_assert(ISHEX(buf[0]) && ISHEX(buf[1]) && ISHEX(buf[2]) && ISHEX(buf[3]) && buf[4] == 0, "sscanf %x is given exactly four hexadecimal digits"); *v = (unsigned)(HEXV(buf[0]) << 12 | HEXV(buf[1]) << 8 | HEXV(buf[2]) << 4 | HEXV(buf[3])); }
'''
PRE += r'''
/* ---- parser state machine (parse_stream): tokens come from an oracle, json::value operations are recorders, the std::stack of (state, value*) is an array + depth */
@@REGION:state_type@@
#define JSON_MAX_DEPTH 512
#define PSCAP 600
state_type g_ps_state[PSCAP]; size_t g_ps_val[PSCAP]; size_t g_pd, g_pd_max; size_t g_left; int g_out_swaps, g_assigns; bool g_dup_seen, g_eof_after_done; size_t g_last_inserted, g_hctr;
static void pst_init(void) { g_pd = 0; g_pd_max = 0; }
static bool pst_empty(void) { return g_pd == 0; }
static size_t pst_size(void) { return g_pd; }
/* only the bottom entry carries st_done; every other entry carries one of the two "close or comma" states (asserted at push, assumed where the top is read: stack history) */
static void pst_push(state_type st, size_t v)
{
  __CPROVER_assert(g_pd < PSCAP, "model capacity of the parser stack");
  __CPROVER_assert(g_pd == 0 ? st == st_done : (st == st_object_close_or_comma_expected || st == st_array_close_or_comma_expected), "only the bottom stack entry returns to st_done");
  g_ps_state[g_pd] = st; g_ps_val[g_pd] = v; g_pd++; if(g_pd > g_pd_max) g_pd_max = g_pd;
}
static state_type pst_top_state(void)
{
  __CPROVER_assert(g_pd > 0, "stack.top() on a non-empty stack");
  state_type v = g_ps_state[g_pd - 1];
  __CPROVER_assume(g_pd == 1 ? v == st_done : (v == st_object_close_or_comma_expected || v == st_array_close_or_comma_expected));
  return v;
}
static size_t pst_top_val(void) { __CPROVER_assert(g_pd > 0, "stack.top() on a non-empty stack"); return g_ps_val[g_pd - 1]; }
static void pst_pop(void) { __CPROVER_assert(g_pd > 0, "stack.pop() on a non-empty stack"); g_pd--; }
/* tokenizer oracle: any token; consumes at least one byte unless the input is exhausted (then only tock_eof) */
static int tk_next(void)
{
  if(g_left == 0) return tock_eof;
  size_t k; __CPROVER_assume(k >= 1 && k <= g_left); g_left -= k;
  int t; __CPROVER_assume(t == '[' || t == '{' || t == ':' || t == ',' || t == '}' || t == ']' || (t >= tock_eof && t <= tock_null)); return t;
}
static void val_assign(size_t v) { if(g_assigns < 1000000) g_assigns++; }
/* obj.insert(make_pair(key,value())): fails when the key is already present */
static bool obj_insert(size_t obj) { int dup; if(dup) { g_dup_seen = 1; return 0; } if(g_hctr < 4000000) g_hctr++; g_last_inserted = g_hctr; return 1; }
static void arr_push(size_t ar) { if(g_hctr < 4000000) g_hctr++; g_last_inserted = g_hctr; }
static void out_swap_rec(size_t result) { g_out_swaps++; }
'''
functions = [
    dict(cname='json_generic_append', file=J, locate=lit('void generic_append(char const *begin,char const *end,Appender &a)'), sig='void json_generic_append(char const *begin, char const *end)',
         hoist=[r'static char const tohex\[\]="[^"]*";'],
         rewrites=[(r"a\.append\('\"'\);", 'app_quote();', 2), (r'a\.append\(last,i-last\);', 'app_run(last,i-last);', 2), (r'a\.append\(addon\);', 'app_esc(addon);', 1)],
         loops={0: """__CPROVER_assigns(i, last, g_next_in, g_out, __CPROVER_object_whole(buf))
__CPROVER_loop_invariant(IN_RANGE(i, begin, end) && IN_RANGE(last, begin, i) && g_next_in == OFF(last) && g_quotes == 1 && g_out <= 1 + 6 * (OFF(last) - OFF(begin)) && g_out >= 1 + (OFF(last) - OFF(begin)))
__CPROVER_loop_invariant(buf[0] == '\\\\' && buf[1] == 'u' && buf[2] == '0' && buf[3] == '0')
__CPROVER_loop_invariant((g_k >= OFF(last) && g_k < OFF(i)) ==> JSON_PLAIN(begin[g_k - OFF(begin)]))
__CPROVER_decreases(OFF(end) - OFF(i))"""},
         contract=r'''
__CPROVER_requires(VALID_RANGE(begin, end) && OFF(end) - OFF(begin) <= BUF_CAP && g_in_b == begin && g_next_in == OFF(begin) && g_quotes == 0 && g_out == 0)
__CPROVER_assigns(g_next_in, g_quotes, g_out)
/* opening quote, then every input byte represented exactly once and in order (verbatim if plain, else by its escape: stub assertions), closing quote */
__CPROVER_ensures(g_quotes == 2 && g_next_in == OFF(end) && g_out >= 2 + (OFF(end) - OFF(begin)))
'''),
    dict(cname='json_parse_string', file=J, locate=lit('bool parse_string()'), sig='bool json_parse_string(void)',
         rewrites=[(r'std::streambuf \*buf=is_\.rdbuf\(\);', '', 1), (r'buf->sbumpc\(\)', 'is_sbumpc()', 3), (r'str\.clear\(\);', 'str_clear();', 1),
                   (r'str\+=char\(c\);\s*break;', 'str_put((char)c); break;', 1), (r"str\+='\\(\w)';", r"str_put('\\\1');", 5), (r'str\+=char\(c\);', 'str_put_raw(c);', 1),
                   (r'read_4_digits\(x\)', 'read4(&x)', 1), (r'\bappend\(', 'str_append_scalar(', 2), (r'utf8::validate\(str\.begin\(\),str\.end\(\)\)', 'utf8_validate_str()', 1)],
         loops={0: '''__CPROVER_assigns(c, second_surragate_expected, first_surragate, g_is_pos, g_str_len, g_bad_raw, g_bad_scalar)
__CPROVER_loop_invariant(g_is_pos <= g_is_n && !g_bad_raw && g_str_len <= 4 * g_is_pos && (second_surragate_expected ==> (first_surragate >= 0xD800 && first_surragate <= 0xDBFF)))
__CPROVER_decreases(g_is_n - g_is_pos)'''},
         contract=r'''
__CPROVER_requires(g_is_n <= BUF_CAP && __CPROVER_r_ok(g_is_p, g_is_n) && g_is_pos <= g_is_n && !g_bad_raw && !g_bad_scalar && !g_validated)
__CPROVER_assigns(g_is_pos, g_str_len, g_bad_raw, g_bad_scalar, g_validated, g_str_cleared)
/* an accepted string token: starts from an empty string, contains no raw control character, every \\u escape produced a scalar value
   (surrogates only as a first/second pair combined into one supplementary code point), and the result passed UTF-8 validation */
__CPROVER_ensures(__CPROVER_return_value ==> (g_str_cleared && !g_bad_raw && !g_bad_scalar && g_validated && g_validate_result))
/* terminates on every input and never reads past the end of the stream */
__CPROVER_ensures(g_is_pos <= g_is_n)
'''),
    dict(cname='json_check', file=J, locate=lit('bool check(char const *s)'), sig='bool json_check(char const *s)',
         rewrites=[(r'std::streambuf \*buf = is_\.rdbuf\(\);', '', 1), (r'buf->sbumpc\(\)', 'is_sbumpc()', 1), (r'std::char_traits<char>::to_int_type\(\*s\)', '(int)(unsigned char)(*s)', 1)],
         body_ghost='g_chk0 = g_is_pos; g_s0off = OFF(s);',
         loops={0: r'''__CPROVER_assigns(s, g_is_pos)
__CPROVER_loop_invariant(SAME(s, __CPROVER_loop_entry(s)) && OFF(s) >= OFF(__CPROVER_loop_entry(s)) && OFF(s) - OFF(__CPROVER_loop_entry(s)) <= ((__CPROVER_loop_entry(s))[1] == 0 ? 1 : (__CPROVER_loop_entry(s))[2] == 0 ? 2 : (__CPROVER_loop_entry(s))[3] == 0 ? 3 : 4) && g_s0off == OFF(__CPROVER_loop_entry(s)) && g_is_pos <= g_is_n && g_chk0 <= g_is_pos &&
      g_is_pos - g_chk0 == OFF(s) - OFF(__CPROVER_loop_entry(s)) && (g_k2 < g_is_pos - g_chk0 ==> g_is_p[g_chk0 + g_k2] == (__CPROVER_loop_entry(s))[g_k2]) &&
      (__CPROVER_loop_entry(s))[0] != 0 && ((__CPROVER_loop_entry(s))[1] == 0 || ((__CPROVER_loop_entry(s))[2] == 0 || ((__CPROVER_loop_entry(s))[3] == 0 || (__CPROVER_loop_entry(s))[4] == 0))))
__CPROVER_decreases(5 - (OFF(s) - g_s0off))'''},
         contract=r'''
/* s is one of the literal tails "rue", "ull", "alse", "/" (1..4 characters) */
__CPROVER_requires(g_is_n <= BUF_CAP && __CPROVER_r_ok(g_is_p, g_is_n) && g_is_pos <= g_is_n && __CPROVER_r_ok(s, 2) && s[0] != 0 && (s[1] == 0 || (__CPROVER_r_ok(s, 3) && (s[2] == 0 || (__CPROVER_r_ok(s, 4) && (s[3] == 0 || (__CPROVER_r_ok(s, 5) && s[4] == 0)))))))
__CPROVER_assigns(g_is_pos, g_chk0, g_s0off)
/* true exactly when the next characters of the input spell s; then exactly those characters are consumed */
__CPROVER_ensures(g_chk0 == __CPROVER_old(g_is_pos) && g_is_pos >= g_chk0 && g_is_pos <= g_is_n && g_is_pos - g_chk0 <= 5 &&
                  (__CPROVER_return_value ==> (g_is_pos - g_chk0 == (s[1] == 0 ? 1 : s[2] == 0 ? 2 : s[3] == 0 ? 3 : 4) && (g_k2 < g_is_pos - g_chk0 ==> g_is_p[g_chk0 + g_k2] == s[g_k2]))))
'''),
    dict(cname='json_read_4_digits', file=J, locate=lit('bool read_4_digits(uint16_t &x)'), sig='bool json_read_4_digits(uint16_t *x)', refs=['x'],
         rewrites=[(r'char buf\[\w\]=\{\w\};', 'char buf[5]={0};', 1), (r'is_\.get\(buf,\w\)', 'is_get4(buf)', 1), (r'sscanf\(buf,"%x",&v\)', 'sscanf_x4(buf,&v)', 1)],
         contract=r'''
__CPROVER_requires(g_is_n <= BUF_CAP && __CPROVER_r_ok(g_is_p, g_is_n) && g_is_pos <= g_is_n && __CPROVER_w_ok(x, sizeof(*x)))
__CPROVER_assigns(*x, g_is_pos)
/* success exactly on four hexadecimal digits, which are consumed and whose value is returned (what \uXXXX denotes) */
__CPROVER_ensures(__CPROVER_return_value ==> (g_is_pos == __CPROVER_old(g_is_pos) + 4 && ISHEX(g_is_p[g_is_pos - 4]) && ISHEX(g_is_p[g_is_pos - 3]) && ISHEX(g_is_p[g_is_pos - 2]) && ISHEX(g_is_p[g_is_pos - 1]) &&
                  *x == (uint16_t)(HEXV(g_is_p[g_is_pos - 4]) << 12 | HEXV(g_is_p[g_is_pos - 3]) << 8 | HEXV(g_is_p[g_is_pos - 2]) << 4 | HEXV(g_is_p[g_is_pos - 1]))))
'''),
    dict(cname='json_next', file=J, locate=lit('int next()'), sig='int json_next(void)', rename={'check': 'json_check', 'parse_string': 'tk_parse_string', 'parse_number': 'tk_parse_number'},
         rewrites=[(r'std::streambuf \*buf = is_\.rdbuf\(\);', '', 1), (r'buf->sbumpc\(\)', 'is_sbumpc()', 2), (r'buf->sungetc\(\)', 'is_sungetc()', 2), (r'\bline\+\+', 'g_line++', 1)],
         loops={0: r'''__CPROVER_assigns(g_is_pos, g_line, g_chk0, g_s0off, g_ps_calls, g_pn_calls, g_ps_pos, g_pn_pos)
__CPROVER_loop_invariant(g_is_pos <= g_is_n && g_is_pos >= __CPROVER_loop_entry(g_is_pos) && g_line >= __CPROVER_loop_entry(g_line) && g_line <= 2000001 && g_line - __CPROVER_loop_entry(g_line) <= (int)(g_is_pos - __CPROVER_loop_entry(g_is_pos)) && g_ps_calls == 0 && g_pn_calls == 0)
__CPROVER_decreases(g_is_n - g_is_pos)''',
                1: r'''__CPROVER_assigns(c, g_is_pos)
__CPROVER_loop_invariant(g_is_pos <= g_is_n && g_is_pos >= __CPROVER_loop_entry(g_is_pos))
__CPROVER_decreases(g_is_n - g_is_pos)'''},
         contract=r'''
__CPROVER_requires(g_is_n <= BUF_CAP && __CPROVER_r_ok(g_is_p, g_is_n) && g_is_pos <= g_is_n && g_line >= 1 && g_line <= 1000000 && g_ps_calls == 0 && g_pn_calls == 0)
__CPROVER_assigns(g_is_pos, g_line, g_chk0, g_s0off, g_ps_calls, g_pn_calls, g_ps_pos, g_pn_pos)
/* what a token is decided by: the last byte consumed for the six structural characters; the literals true / false / null spelled in full; a string or a number
   only through parse_string / parse_number started AT the deciding byte; everything else is an error or the end of input */
__CPROVER_ensures(g_is_pos <= g_is_n && g_is_pos >= __CPROVER_old(g_is_pos))
__CPROVER_ensures((__CPROVER_return_value == '[' || __CPROVER_return_value == '{' || __CPROVER_return_value == ':' || __CPROVER_return_value == ',' || __CPROVER_return_value == '}' || __CPROVER_return_value == ']') ==>
                  (g_is_pos >= 1 && (unsigned char)g_is_p[g_is_pos - 1] == __CPROVER_return_value && g_ps_calls == 0 && g_pn_calls == 0))
__CPROVER_ensures(__CPROVER_return_value == tock_true ==> (g_is_pos >= 4 && g_is_p[g_is_pos - 4] == 't' && (g_k2 < 3 ==> g_is_p[g_is_pos - 3 + g_k2] == "rue"[g_k2])))
__CPROVER_ensures(__CPROVER_return_value == tock_null ==> (g_is_pos >= 4 && g_is_p[g_is_pos - 4] == 'n' && (g_k2 < 3 ==> g_is_p[g_is_pos - 3 + g_k2] == "ull"[g_k2])))
__CPROVER_ensures(__CPROVER_return_value == tock_false ==> (g_is_pos >= 5 && g_is_p[g_is_pos - 5] == 'f' && (g_k2 < 4 ==> g_is_p[g_is_pos - 4 + g_k2] == "alse"[g_k2])))
__CPROVER_ensures(__CPROVER_return_value == tock_str ==> (g_ps_calls == 1 && g_ps_res && g_pn_calls == 0 && g_is_p[g_ps_pos] == '"'))
__CPROVER_ensures(__CPROVER_return_value == tock_number ==> (g_pn_calls == 1 && g_pn_res && g_ps_calls == 0 && (g_is_p[g_pn_pos] == '-' || (g_is_p[g_pn_pos] >= '0' && g_is_p[g_pn_pos] <= '9'))))
__CPROVER_ensures(__CPROVER_return_value == tock_eof ==> g_is_pos == g_is_n)
/* nothing else can come out */
__CPROVER_ensures(__CPROVER_return_value == '[' || __CPROVER_return_value == '{' || __CPROVER_return_value == ':' || __CPROVER_return_value == ',' || __CPROVER_return_value == '}' || __CPROVER_return_value == ']' ||
                  (__CPROVER_return_value >= tock_eof && __CPROVER_return_value <= tock_null))
'''),
    dict(cname='json_parse_stream', file=J, locate=lit('bool parse_stream(std::istream &in,value &out,bool force_eof,int &error_at_line)') + r'(?=\s*\{)', sig='bool json_parse_stream(bool force_eof, int *error_at_line)', refs=['error_at_line'],
         rewrites=[(r'tockenizer tock\(in\);', '', 1), (r'value result;', 'size_t result = 1;', 1), (r'std::string key;', '', 1), (r'key=tock\.str;', '', 1),
                   (r'std::stack<std::pair<state_type,value \*> > stack;', 'pst_init();', 1), (r'stack\.push\(std::make_pair\((\w+),&(\w+)\)\)', r'pst_push(\1, \2)', 0),
                   (r'stack\.empty\(\)', 'pst_empty()', 1), (r'stack\.size\(\)', 'pst_size()', 1), (r'stack\.top\(\)\.first', 'pst_top_state()', 1), (r'stack\.pop\(\)', 'pst_pop()', 1),
                   (r'\*stack\.top\(\)\.second=[^;]+;', 'val_assign(pst_top_val());', 1),
                   (r'json::object &obj = stack\.top\(\)\.second->object\(\);', 'size_t obj = pst_top_val();', 1),
                   (r'std::pair<json::object::iterator,bool> res=\s*obj\.insert\(std::make_pair\(key,json::value\(\)\)\);', 'bool res_second = obj_insert(obj);', 0), (r'res\.second', 'res_second', 1),
                   (r'json::value &val=res\.first->second;', 'size_t val = g_last_inserted;', 1), (r'json::array &ar = stack\.top\(\)\.second->array\(\);', 'size_t ar = pst_top_val();', 1),
                   (r'ar\.push_back\(json::value\(\)\);', 'arr_push(ar);', 1), (r'json::value &val=ar\.back\(\);', 'size_t val = g_last_inserted;', 1), (r'\bval=[^;]+;', 'val_assign(val);', 1),
                   (r'tock\.next\(\)', 'tk_next()', 2), (r'tock\.line', 'g_line', 2), (r'out\.swap\(result\);', 'out_swap_rec(result);', 0), (r'\bjson_max_depth\b', 'JSON_MAX_DEPTH', 1)],
         loops={0: r'''
__CPROVER_assigns(state, g_pd, g_pd_max, g_left, g_assigns, g_dup_seen, g_last_inserted, g_hctr, __CPROVER_object_whole(g_ps_state), __CPROVER_object_whole(g_ps_val))
/* the stack is empty exactly when the document is complete; its depth never exceeds the documented bound by more than the entry being opened; a duplicate key ends in the error state */
__CPROVER_loop_invariant(g_left <= BUF_CAP && (state == st_done) == (g_pd == 0) && g_pd <= JSON_MAX_DEPTH + 1 && g_pd_max <= JSON_MAX_DEPTH + 1 && g_pd <= g_pd_max && (g_pd_max == JSON_MAX_DEPTH + 1 ==> g_pd == JSON_MAX_DEPTH + 1) && g_out_swaps == 0 && (g_dup_seen ==> state == st_error) &&
      (state == st_object_or_array_or_value_expected || state == st_object_key_or_close_expected || state == st_object_colon_expected || state == st_object_value_expected || state == st_object_close_or_comma_expected ||
       state == st_array_value_or_close_expected || state == st_array_close_or_comma_expected || state == st_error || state == st_done))
__CPROVER_decreases(2 * g_left + ((state != st_error && state != st_done) ? 1 : 0))'''},
         contract=r'''
__CPROVER_requires(__CPROVER_rw_ok(error_at_line, sizeof(*error_at_line)) && g_left <= BUF_CAP && g_out_swaps == 0 && !g_dup_seen && g_hctr == 1 && g_assigns == 0)
__CPROVER_assigns(*error_at_line, g_pd, g_pd_max, g_left, g_assigns, g_dup_seen, g_last_inserted, g_hctr, g_out_swaps, __CPROVER_object_whole(g_ps_state), __CPROVER_object_whole(g_ps_val))
/* C11: the parser terminates (decreases clause); the target is replaced exactly when the parse succeeds, so a failed parse leaves it untouched; a duplicate key is a failure; nesting stays within the bound */
__CPROVER_ensures(g_out_swaps == (__CPROVER_return_value ? 1 : 0))
__CPROVER_ensures(g_dup_seen ==> !__CPROVER_return_value)
__CPROVER_ensures(g_pd_max <= JSON_MAX_DEPTH + 1 && (__CPROVER_return_value ==> (g_pd == 0 && g_pd_max <= JSON_MAX_DEPTH)))
__CPROVER_ensures(!__CPROVER_return_value ==> *error_at_line == g_line)
'''),
]

jobs = [
    dict(name='json_generic_append', props=P, enforce='json_generic_append', harness=r'''
    SYM_BUF(char, buf, n, BUF_CAP); size_t k; g_k = k; g_in_b = buf; g_next_in = OFF(buf); g_quotes = 0; g_out = 0;
    WIT_BUF(0, buf, n);
    json_generic_append(buf, buf + n); VERIF_REACH;''', witness=dict(bufs=['in']), replay='c11:to_json', replay_link=['-L{BUILD}/booster', '-lbooster']),
    dict(name='json_parse_string', props=P, enforce='json_parse_string', harness=r'''
    SYM_BUF(char, in, n, BUF_CAP); size_t pos; __CPROVER_assume(pos <= n); g_is_p = in; g_is_n = n; g_is_pos = pos; bool vr; g_validate_result = vr;
    g_bad_raw = 0; g_bad_scalar = 0; g_validated = 0; g_str_cleared = 0; g_str_len = 0;
    json_parse_string(); VERIF_REACH;'''),
    dict(name='json_check', props=P, enforce='json_check', harness=r'''
    SYM_BUF(char, b, n, BUF_CAP); g_is_p = b; g_is_n = n; size_t pos, k2; __CPROVER_assume(pos <= n); g_is_pos = pos; g_k2 = k2;

    char lit[5]; json_check(lit); VERIF_REACH;'''),
    dict(name='json_read_4_digits', props=P, enforce='json_read_4_digits', pre_unwind=5, harness=r'''
    SYM_BUF(char, b, n, BUF_CAP); g_is_p = b; g_is_n = n; size_t pos, k2; __CPROVER_assume(pos <= n); g_is_pos = pos; g_k2 = k2;

    uint16_t x; json_read_4_digits(&x); VERIF_REACH;'''),
    dict(name='json_next', props=P, enforce='json_next', replace=['json_check'], harness=r'''
    SYM_BUF(char, b, n, BUF_CAP); g_is_p = b; g_is_n = n; size_t pos, k2; __CPROVER_assume(pos <= n); g_is_pos = pos; g_k2 = k2;

    int ln, r1, r2; g_line = ln; g_ps_calls = 0; g_pn_calls = 0; g_ps_res = r1 != 0; g_pn_res = r2 != 0; json_next(); VERIF_REACH;'''),
    dict(name='json_parse_stream', props=P, enforce='json_parse_stream', timeout=600, harness=r'''
    size_t left; __CPROVER_assume(left <= BUF_CAP); g_left = left; g_out_swaps = 0; g_dup_seen = 0; g_hctr = 1; g_assigns = 0; int ln, fe, el; g_line = ln;
    json_parse_stream(fe != 0, &el); VERIF_REACH;'''),
]

UNIT = dict(
    name='jsonw', regions=[dict(name='state_type', file=J, start=r'typedef enum \{\s*st_init', end=r'\} state_type;')], pre=PRE, functions=functions, jobs=jobs,
    trusted=['jsonw: parse_string: the stream buffer is a ghost input string, `str` a checked sink, read_4_digits / utf8::validate / utf16 helpers are stubs (utf8::validate is proved in unit utf8) (R10)',
             'jsonw: the Appender template parameter (string_append / stream_append) is three stubs that assert what each append may contain (R2/R7/R10)'],
    not_covered={'C11': ['number parsing and printing (operator>> / operator<< of libstdc++ on double: external), typed extraction, locale independence, tree construction (json::value copy / map insert are recorders)',
                         'the composition parse(to_string(v)) == v: the writer contract (every byte once, escaped exactly when required) and the string-token parser contract are its two halves']},
)
