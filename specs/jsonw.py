# Unit "jsonw" -- JSON string serialisation (src/json.cpp details::generic_append, used by to_json and every object key / string value).  Serves C11.
import sys, os
sys.path.insert(0, os.path.join(os.path.dirname(os.path.abspath(__file__)), '..', 'tools'))
from cxx2c import lit

J = 'src/json.cpp'
P = ['C11']

PRE = r'''
/* RFC 8259 section 7: inside a string the quotation mark, the reverse solidus and U+0000..U+001F must be escaped */
#define JSON_PLAIN(c) ((unsigned char)(c) > 0x1F && (c) != '"' && (c) != '\\')
#define LHEX(v) ((char)((v) < 10 ? '0' + (v) : 'a' + ((v) - 10)))
size_t g_k; size_t g_next_in; int g_quotes; size_t g_out; char const *g_in_b;
/* Appender (string_append / stream_append, R7/R10): every call states what it may append */
static void app_quote(void) { g_quotes++; g_out++; }
/* a.append(p,n): a verbatim run of input bytes; it must start at the first input byte not yet represented and contain only plain characters */
static void app_run(char const *p, size_t n)
{
  __CPROVER_assert(SAME(p, g_in_b) && OFF(p) == g_next_in && g_quotes == 1, "verbatim run starts at the next unrepresented input byte, between the quotes");
  if(g_k >= OFF(p) && g_k - OFF(p) < n) __CPROVER_assert(JSON_PLAIN(g_in_b[g_k - OFF(g_in_b)]), "verbatim run contains no quotation mark, reverse solidus or control character");
  g_next_in += n; g_out += n;
}
/* a.append(addon): the escape of the input byte at g_next_in */
static void app_esc(char const *s)
{
  unsigned char c = (unsigned char)g_in_b[g_next_in - OFF(g_in_b)];
  __CPROVER_assert(g_quotes == 1 && !JSON_PLAIN(c), "an escape is emitted only for a byte that needs one, between the quotes");
  __CPROVER_assert(s[0] == '\\' && (
     (c == '"' && s[1] == '"' && s[2] == 0) || (c == '\\' && s[1] == '\\' && s[2] == 0) || (c == '\b' && s[1] == 'b' && s[2] == 0) || (c == '\f' && s[1] == 'f' && s[2] == 0) ||
     (c == '\n' && s[1] == 'n' && s[2] == 0) || (c == '\r' && s[1] == 'r' && s[2] == 0) || (c == '\t' && s[1] == 't' && s[2] == 0) ||
     (c <= 0x1F && s[1] == 'u' && s[2] == '0' && s[3] == '0' && s[4] == LHEX(c >> 4) && s[5] == LHEX(c & 15) && s[6] == 0)),
     "the escape denotes exactly the escaped byte (two-character escape or \\u00XX)");
  g_next_in += 1; g_out += 2;
}

/* ---- string token parser: the stream buffer is a ghost input string; str is a sink whose appends are checked */
char const *g_is_p; size_t g_is_n, g_is_pos; bool g_bad_raw, g_bad_scalar, g_validated, g_validate_result, g_str_cleared; size_t g_str_len;
static int is_sbumpc(void) { if(g_is_pos >= g_is_n) return -1; return (unsigned char)g_is_p[g_is_pos++]; }
static void str_clear(void) { g_str_cleared = 1; g_str_len = 0; }
/* str += char(c) for a raw (unescaped) input byte or a two-character escape */
static void str_put(char c) { g_str_len++; }
static void str_put_raw(int c) { if(c >= 0 && c <= 0x1F) g_bad_raw = 1; g_str_len++; }
/* append(x): UTF-8 of a scalar value; a lone surrogate or a value above U+10FFFF must never get here */
static void str_append_scalar(uint32_t x) { if((x >= 0xD800 && x <= 0xDFFF) || x > 0x10FFFF) g_bad_scalar = 1; g_str_len += 4; }
/* read_4_digits(x): four hex digits from the stream (or failure) */
static bool read4(uint16_t *x) { bool ok; if(g_is_n - g_is_pos < 4) return 0; if(!ok) { g_is_pos += 1; return 0; } g_is_pos += 4; uint16_t v; *x = v; return 1; }
/* utf8::validate(str): contract proved in unit utf8 -- in particular the UTF-8 form of a lone surrogate (ED A0..BF xx), which append() produces for an unpaired \\uDC00..DFFF, is rejected */
static bool utf8_validate_str(void) { g_validated = 1; if(g_bad_scalar) return 0; return g_validate_result; }
static bool utf16_is_first_surrogate(uint16_t x) { return 0xD800 <= x && x <= 0xDBFF; }      /* RFC 2781 */
static bool utf16_is_second_surrogate(uint16_t x) { return 0xDC00 <= x && x <= 0xDFFF; }
static uint32_t utf16_combine_surrogate(uint16_t w1, uint16_t w2) { return (((uint32_t)(w1 & 0x3FF) << 10) | (w2 & 0x3FF)) + 0x10000; }
'''

functions = [
    dict(cname='json_generic_append', file=J, locate=lit('void generic_append(char const *begin,char const *end,Appender &a)'), sig='void json_generic_append(char const *begin, char const *end)',
         hoist=[r'static char const tohex\[\]="[^"]*";'],
         rewrites=[(r"a\.append\('\"'\);", 'app_quote();', 2), (r'a\.append\(last,i-last\);', 'app_run(last,i-last);', 2), (r'a\.append\(addon\);', 'app_esc(addon);', 1)],
         loops={0: """__CPROVER_assigns(i, last, g_next_in, g_out, __CPROVER_object_whole(buf))
__CPROVER_loop_invariant(IN_RANGE(i, begin, end) && IN_RANGE(last, begin, i) && g_next_in == OFF(last) && g_quotes == 1 && g_out <= 1 + 6 * (OFF(last) - OFF(begin)) && g_out >= 1 + (OFF(last) - OFF(begin)))
__CPROVER_loop_invariant(buf[0] == '\\\\' && buf[1] == 'u' && buf[2] == '0' && buf[3] == '0')
__CPROVER_loop_invariant((g_k >= OFF(last) && g_k < OFF(i)) ==> JSON_PLAIN(begin[g_k - OFF(begin)]))
__CPROVER_decreases(OFF(end) - OFF(i))"""},
         contract=r'''
__CPROVER_requires(VALID_RANGE(begin, end) && OFF(end) - OFF(begin) <= BUF_CAP && g_in_b == begin && g_next_in == OFF(begin) && g_quotes == 0 && g_out == 0)
__CPROVER_assigns(g_next_in, g_quotes, g_out)
/* opening quote, then every input byte represented exactly once and in order (verbatim if plain, else by its escape: stub assertions), closing quote */
__CPROVER_ensures(g_quotes == 2 && g_next_in == OFF(end) && g_out >= 2 + (OFF(end) - OFF(begin)))
'''),
    dict(cname='json_parse_string', file=J, locate=lit('bool parse_string()'), sig='bool json_parse_string(void)',
         rewrites=[(r'std::streambuf \*buf=is_\.rdbuf\(\);', '', 1), (r'buf->sbumpc\(\)', 'is_sbumpc()', 3), (r'str\.clear\(\);', 'str_clear();', 1),
                   (r'str\+=char\(c\);\s*break;', 'str_put((char)c); break;', 1), (r"str\+='\\(\w)';", r"str_put('\\\1');", 5), (r'str\+=char\(c\);', 'str_put_raw(c);', 1),
                   (r'read_4_digits\(x\)', 'read4(&x)', 1), (r'\bappend\(', 'str_append_scalar(', 2), (r'utf8::validate\(str\.begin\(\),str\.end\(\)\)', 'utf8_validate_str()', 1)],
         loops={0: '''__CPROVER_assigns(c, second_surragate_expected, first_surragate, g_is_pos, g_str_len, g_bad_raw, g_bad_scalar)
__CPROVER_loop_invariant(g_is_pos <= g_is_n && !g_bad_raw && g_str_len <= 4 * g_is_pos && (second_surragate_expected ==> (first_surragate >= 0xD800 && first_surragate <= 0xDBFF)))
__CPROVER_decreases(g_is_n - g_is_pos)'''},
         contract=r'''
__CPROVER_requires(g_is_n <= BUF_CAP && __CPROVER_r_ok(g_is_p, g_is_n) && g_is_pos <= g_is_n && !g_bad_raw && !g_bad_scalar && !g_validated)
__CPROVER_assigns(g_is_pos, g_str_len, g_bad_raw, g_bad_scalar, g_validated, g_str_cleared)
/* an accepted string token: starts from an empty string, contains no raw control character, every \\u escape produced a scalar value
   (surrogates only as a first/second pair combined into one supplementary code point), and the result passed UTF-8 validation */
__CPROVER_ensures(__CPROVER_return_value ==> (g_str_cleared && !g_bad_raw && !g_bad_scalar && g_validated && g_validate_result))
/* terminates on every input and never reads past the end of the stream */
__CPROVER_ensures(g_is_pos <= g_is_n)
'''),
]

jobs = [
    dict(name='json_generic_append', props=P, enforce='json_generic_append', harness=r'''
    SYM_BUF(char, buf, n, BUF_CAP); size_t k; g_k = k; g_in_b = buf; g_next_in = OFF(buf); g_quotes = 0; g_out = 0;
    WIT_BUF(0, buf, n);
    json_generic_append(buf, buf + n); VERIF_REACH;''', witness=dict(bufs=['in']), replay='c11:to_json', replay_link=['-L{BUILD}/booster', '-lbooster']),
    dict(name='json_parse_string', props=P, enforce='json_parse_string', harness=r'''
    SYM_BUF(char, in, n, BUF_CAP); size_t pos; __CPROVER_assume(pos <= n); g_is_p = in; g_is_n = n; g_is_pos = pos; bool vr; g_validate_result = vr;
    g_bad_raw = 0; g_bad_scalar = 0; g_validated = 0; g_str_cleared = 0; g_str_len = 0;
    json_parse_string(); VERIF_REACH;'''),
]

UNIT = dict(
    name='jsonw', pre=PRE, functions=functions, jobs=jobs,
    trusted=['jsonw: parse_string: the stream buffer is a ghost input string, `str` a checked sink, read_4_digits / utf8::validate / utf16 helpers are stubs (utf8::validate is proved in unit utf8) (R10)',
             'jsonw: the Appender template parameter (string_append / stream_append) is three stubs that assert what each append may contain (R2/R7/R10)'],
    not_covered={'C11': ['the rest of the parser (tokenizer dispatch, nesting bound, unique keys), number printing/parsing, tree construction, typed extraction, locale independence: '
                         'only the string writer and the string-token parser (control characters, escape set, surrogate pairing, UTF-8 check) are under contract']},
)
