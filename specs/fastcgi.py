# Unit "fastcgi" -- record decoder, name/value pair decoder, record cache and the protocol
# callbacks of src/fastcgi_api.cpp.  Serves C01 (faithful decoding, segmentation independence)
# and C02 (memory safety for arbitrary peer bytes, bounded buffers, handler exactly once).
import sys, os
sys.path.insert(0, os.path.join(os.path.dirname(os.path.abspath(__file__)), '..', 'tools'))
from cxx2c import lit

F = 'src/fastcgi_api.cpp'
P12 = ['C01', 'C02']
P2 = ['C02']

PRE = r'''
#include <arpa/inet.h>
@@REGION:fcgi_header@@
@@REGION:fcgi_enum@@
@@REGION:fcgi_enum2@@
@@REGION:fcgi_enum3@@
@@REGION:fcgi_enum4@@
@@REGION:fcgi_request_body@@
@@REGION:fcgi_end_request_body@@
struct fastcgi {
  struct fcgi_header header_;
  char *body_p; size_t body_n;            /* std::vector<char> body_  (R8) */
  long long read_length_, content_length_;
  unsigned body_ptr_; int request_id_; bool keep_alive_;
  char *cache_p; size_t cache_n;          /* std::vector<char> cache_ (R8) */
  size_t cache_start_, cache_end_;
};
#define FCGI_BODY_LIMIT (16384u + 65535u + 255u)
/* std::vector<char> model (R8): one object of FCGI_BODY_LIMIT bytes (the largest size the code may ever ask for, asserted in
   the resize stubs) with a logical size; growth is in place, so the data pointer is stable.  Accesses are checked against
   the LOGICAL size by body_at()/cache_at() and by the ghost range assertions next to the memcpy calls. */
#define FCGI_INV(s) (__CPROVER_rw_ok(s, sizeof(*(s))) && (s)->cache_start_ <= (s)->cache_end_ && (s)->cache_end_ <= (s)->cache_n && (s)->cache_n <= FCGI_BODY_LIMIT && \
     __CPROVER_rw_ok((s)->cache_p, FCGI_BODY_LIMIT) && (s)->body_n <= FCGI_BODY_LIMIT && __CPROVER_rw_ok((s)->body_p, FCGI_BODY_LIMIT) && !SAME((s)->cache_p, (s)->body_p) && \
     !SAME((s)->cache_p, s) && !SAME((s)->body_p, s))
#define FCGI_INV_S(s) FCGI_INV(s)
/* ---- ghosts */
int g_h_calls;                 /* how many times the completion handler h was invoked or handed to a continuation */
int g_h_code;                  /* last code given to h: 0 ok, 1 error e, 2 protocol_violation */
int g_cont;                    /* which continuation received h */
enum { CB_none, CB_on_start_request, CB_params_record_expected, CB_stdin_eof_expected, CB_on_params_response_sent, CB_on_header_read, CB_on_body_read,
       CB_on_some_input_recieved, CB_on_read_stdin_eof_expected, CB_on_some_read_from_socket, CB_async_read_headers };
size_t g_pool_calls, g_env_calls; char const *g_body0; size_t g_body0_n;
size_t g_rd_ptr_off, g_rd_n; size_t g_k; bool g_moved;   /* socket read request: offset into cache_ and size */
static void call_h(int code) { g_h_calls++; g_h_code = code; }
static void give_h(int cont) { g_h_calls++; g_cont = cont; }
/* body_.resize(n): C02 demands that a peer cannot make the buffer grow without bound */
static void body_resize(struct fastcgi *self, size_t n)
{
  __CPROVER_assert(n <= FCGI_BODY_LIMIT, "body_ never grows beyond one maximal record past the 16 KiB parameter limit");
  self->body_n = n;
}
static void body_clear(struct fastcgi *self) { self->body_n = 0; }
static void cache_resize(struct fastcgi *self, size_t n)
{
  __CPROVER_assert(n <= FCGI_BODY_LIMIT, "cache_ size is bounded by the largest record");
  self->cache_n = n;
}
/* &body_[i] / &cache_[i]: element address, i must not exceed the logical size */
/* &body_.front(): only defined on a non-empty vector */
static char *body_front(struct fastcgi *self) { __CPROVER_assert(self->body_n >= 1, "&body_.front() is taken on a non-empty vector"); return self->body_p; }
static char *body_at(struct fastcgi *self, size_t i) { __CPROVER_assert(i <= self->body_n, "&body_[i]: index within the vector"); return self->body_p + i; }
static char *cache_at(struct fastcgi *self, size_t i) { __CPROVER_assert(i <= self->cache_n, "&cache_[i]: index within the vector"); return self->cache_p + i; }
#define G_ASSERT_BODY_RANGE(i, n) __CPROVER_assert((i) <= self->body_n && (n) <= self->body_n - (i), "range written into body_ lies inside the vector")
/* pool_.add(p,n) / name.assign(p,n): reads [p,p+n), which must lie inside the record body */
static char *pool_add(char const *p, uint32_t n)
{
  __CPROVER_assert(SAME(p, g_body0) && OFF(p) >= OFF(g_body0) && OFF(p) - OFF(g_body0) <= g_body0_n && n <= g_body0_n - (OFF(p) - OFF(g_body0)),
                   "name/value range handed to the string pool lies inside the received record body");
  g_pool_calls++; return (char *)p;
}
static void env_add(char const *n, char const *v) { g_env_calls++; }
static size_t max_size(size_t a, size_t b) { return a > b ? a : b; }
typedef struct fcgi_header fcgi_header; typedef struct fcgi_request_body fcgi_request_body; typedef struct fcgi_end_request_body fcgi_end_request_body;
int g_cb_calls; int g_cb_code; size_t g_cb_n;          /* io-level callback cb of async_read_from_socket: given exactly once */
static void post_cb(int code, size_t n) { g_cb_calls++; g_cb_code = code; g_cb_n = n; }
#define AIO_BUF(p, n) (p), (n)
/* socket_.async_read_some(buffer(p,n), continuation holding cb): the kernel may write up to n bytes at p later */
static void sock_async_read_some(struct fastcgi *self, char *p, size_t n)
{
  __CPROVER_assert(n >= 1, "socket read is asked for at least one byte (no busy loop on a full cache)");
  __CPROVER_assert(self->cache_n > 0 && SAME(p, self->cache_p) && OFF(p) == OFF(self->cache_p) + self->cache_end_ && n == self->cache_n - self->cache_end_,
                   "socket read target is exactly the free tail of the cache");
  g_rd_ptr_off = self->cache_end_; g_rd_n = n; g_cb_calls++;
}
/* async_read_record(continuation(h)), async_send_respnse(continuation(h)), async_read_headers(h): h handed over once */
static void async_read_record_cb(struct fastcgi *self, int cont) { give_h(cont); }
/* io_handler variants: h(e, n) posted / bound with the byte count (and destination) it will report */
size_t g_h_n, g_cont_n, g_bp0, g_bn0; void *g_cont_p; long long g_rl0; char g_src_v;
static void post_h(int code, size_t n) { g_h_calls++; g_h_code = code; g_h_n = n; }
static void async_read_record_n(struct fastcgi *self, int cont, void *p, size_t n) { give_h(cont); g_cont_p = p; g_cont_n = n; }
static void async_send_respnse_cb(struct fastcgi *self, int cont) { give_h(cont); }
/* second parse_pairs overload (std::vector<std::pair<std::string,std::string>>): outcome only */
static bool fcgi_parse_pairs_vec(struct fastcgi *self) { bool r; return r; }
static void get_values_reply(struct fastcgi *self) { size_t n; __CPROVER_assume(n <= 256); body_resize(self, n); }
/* body_.assign(n, v): n elements */
static void body_assign(struct fastcgi *self, size_t n, char v) { body_resize(self, n); }
static char const *env_get_content_length(void) { bool has; if(!has) return 0; char *s = malloc(2); __CPROVER_assume(s != NULL); s[1] = 0; return s; }
static long long atoll_stub(char const *s) { long long v; return v; }
'''

# R1: member functions inside the struct definitions are cut out of the C struct (they are extracted as functions below)
METHODS_OUT = [(r'void to_host\(\) \{[^}]*\}', '', 1), (r'void to_net\(\) \{[^}]*\}', '', 1)]
VEC_RULES_BODY = [(r'body_\.size\(\)', 'self->body_n'), (r'body_\.clear\(\)', 'body_clear(self)'), (r'&body_\.front\(\)', 'body_front(self)')]

def with_rules(*names_counts, extra=()):
    d = {r[0]: r for r in VEC_RULES_BODY}
    out = []
    for pat, cnt in names_counts:
        out.append((pat, d[pat][1], cnt))
    return out + list(extra)

READ_LEN_CONTRACT = r'''
__CPROVER_requires(__CPROVER_rw_ok(p, sizeof(*p)) && VALID_RANGE(*p, e))
__CPROVER_assigns(*p)
__CPROVER_ensures(IN_RANGE(*p, __CPROVER_old(*p), e))
/* FastCGI 3.4: one byte if the high bit is clear, else four bytes big endian with the top bit masked */
__CPROVER_ensures((OFF(e) > OFF(__CPROVER_old(*p)) && REBASE(__CPROVER_old(*p), e)[0] < 0x80) ==>
     (__CPROVER_return_value == REBASE(__CPROVER_old(*p), e)[0] && OFF(*p) == OFF(__CPROVER_old(*p)) + 1))
__CPROVER_ensures((OFF(e) - OFF(__CPROVER_old(*p)) >= 4 && REBASE(__CPROVER_old(*p), e)[0] >= 0x80) ==>
     (__CPROVER_return_value == ((((uint32_t)REBASE(__CPROVER_old(*p), e)[0] & 0x7f) << 24) | ((uint32_t)REBASE(__CPROVER_old(*p), e)[1] << 16) |
                                  ((uint32_t)REBASE(__CPROVER_old(*p), e)[2] << 8) | (uint32_t)REBASE(__CPROVER_old(*p), e)[3]) &&
      OFF(*p) == OFF(__CPROVER_old(*p)) + 4))
/* not enough bytes for the announced form: sentinel, cursor unchanged */
__CPROVER_ensures((OFF(e) == OFF(__CPROVER_old(*p)) || (REBASE(__CPROVER_old(*p), e)[0] >= 0x80 && OFF(e) - OFF(__CPROVER_old(*p)) < 4)) ==>
     (__CPROVER_return_value == 0xFFFFFFFFu && OFF(*p) == OFF(__CPROVER_old(*p))))
/* the sentinel is returned only then (lengths have the top bit clear) */
__CPROVER_ensures(__CPROVER_return_value == 0xFFFFFFFFu || __CPROVER_return_value <= 0x7FFFFFFFu)
'''

PAIRS_INV = r'''
__CPROVER_assigns(p, g_pool_calls, g_env_calls)
__CPROVER_loop_invariant(IN_RANGE(p, self->body_p, e) && g_env_calls <= OFF(p) - OFF(self->body_p) && g_pool_calls == 2 * g_env_calls)
__CPROVER_decreases(OFF(e) - OFF(p))
'''

functions = [
    dict(cname='fcgi_read_len', file=F, locate=lit('uint32_t read_len(unsigned char const *&p,unsigned char const *e)'),
         sig='uint32_t fcgi_read_len(unsigned char const **p, unsigned char const *e)', refs=['p'], contract=READ_LEN_CONTRACT),
    dict(cname='fcgi_parse_pairs', file=F, locate=r'bool parse_pairs\(\)', sig='bool fcgi_parse_pairs(struct fastcgi *self)', self_arg='self',
         rename={'read_len': 'fcgi_read_len'},
         rewrites=with_rules((r'&body_\.front\(\)', 1), (r'body_\.size\(\)', 1),
                             extra=[(r'pool_\.add\(', 'pool_add(', 2), (r'env_\.add\(', 'env_add(', 1), (r'body_\.empty\(\)', '(self->body_n == 0)', 0)]),
         loops={0: PAIRS_INV},
         contract=r'''
__CPROVER_requires(FCGI_INV(self))
__CPROVER_requires(g_body0 == self->body_p && g_body0_n == self->body_n)
__CPROVER_requires(g_env_calls == 0 && g_pool_calls == 0)
__CPROVER_assigns(g_pool_calls, g_env_calls)
/* every (pointer,length) handed to the pool lies inside the body (asserted in the stub); each pair consumes at least its two length bytes */
__CPROVER_ensures(g_env_calls <= self->body_n && g_pool_calls == 2 * g_env_calls)
'''),
]

exec(open(os.path.join(os.path.dirname(os.path.abspath(__file__)), 'fastcgi_fns.inc')).read())

jobs = [
    dict(name='fcgi_read_len', props=P12, enforce='fcgi_read_len', harness=r'''
    SYM_BUF(unsigned char, buf, n, BUF_CAP); size_t off; __CPROVER_assume(off <= n);
    unsigned char const *p = buf + off; WIT_BUF(0, buf + off, n - off);
    fcgi_read_len(&p, buf + n); VERIF_REACH;''', witness=dict(bufs=['in']), replay='c02fcgi:read_len'),
    dict(name='fcgi_parse_pairs', props=P12, enforce='fcgi_parse_pairs', replace=['fcgi_read_len'], harness=r'''
    struct fastcgi c; size_t n; __CPROVER_assume(n <= FCGI_BODY_LIMIT); WIT_CAP(n); size_t cap1, cap2; __CPROVER_assume(cap1 >= FCGI_BODY_LIMIT && cap1 <= FCGI_BODY_LIMIT + 8 && cap2 >= FCGI_BODY_LIMIT && cap2 <= FCGI_BODY_LIMIT + 8);
    char *body = malloc(cap1); char *cache = malloc(cap2); __CPROVER_assume(body != NULL && cache != NULL);
    c.body_p = body; c.body_n = n; c.cache_n = 0; c.cache_start_ = 0; c.cache_end_ = 0; c.cache_p = cache;
    g_body0 = body; g_body0_n = n; g_env_calls = 0; g_pool_calls = 0;
    WIT_BUF(0, body, n);
    fcgi_parse_pairs(&c); VERIF_REACH;''', witness=dict(bufs=['body']), replay='c02fcgi:parse_pairs'),
]

SETUP = r"""
    struct fastcgi c;
    size_t cn, cs, ce, bn, k; __CPROVER_assume(cn <= FCGI_BODY_LIMIT && cs <= ce && ce <= cn && bn <= BODYMAX);
    size_t cap1, cap2; __CPROVER_assume(cap1 >= FCGI_BODY_LIMIT && cap1 <= FCGI_BODY_LIMIT + 8 && cap2 >= FCGI_BODY_LIMIT && cap2 <= FCGI_BODY_LIMIT + 8); /* symbolic size: keeps cbmc in the array theory */
    char *cache = malloc(cap1); char *body = malloc(cap2); __CPROVER_assume(cache != NULL && body != NULL);
    c.cache_p = cache; c.cache_n = cn; c.cache_start_ = cs; c.cache_end_ = ce; c.body_p = body; c.body_n = bn;
    g_h_calls = 0; g_cb_calls = 0; g_env_calls = 0; g_pool_calls = 0; g_k = k; g_body0 = body; g_body0_n = bn; c.content_length_ = 0; c.read_length_ = 0;
"""
def setup(bodymax): return SETUP.replace('BODYMAX', str(bodymax))
CACHE_FNS = ['fcgi_peek_bytes', 'fcgi_get_buffer_size', 'fcgi_skip_bytes', 'fcgi_read_bytes']
jobs += [
    dict(name='fcgi_header_to_host', props=P12, enforce='fcgi_header_to_host', harness='struct fcgi_header h; fcgi_header_to_host(&h); VERIF_REACH;'),
    dict(name='fcgi_request_body_to_host', props=P12, enforce='fcgi_request_body_to_host', harness='struct fcgi_request_body b; fcgi_request_body_to_host(&b); VERIF_REACH;'),
    dict(name='fcgi_peek_bytes', props=P12, enforce='fcgi_peek_bytes', replace=['verif_memcpy'], harness=setup(8) + 'size_t n; __CPROVER_assume(n >= 1 && n <= 64); char *out = malloc(n); __CPROVER_assume(out != NULL); fcgi_peek_bytes(&c, out, n); VERIF_REACH;'),
    dict(name='fcgi_get_buffer_size', props=P12, enforce='fcgi_get_buffer_size', harness=setup(8) + 'fcgi_get_buffer_size(&c); VERIF_REACH;'),
    dict(name='fcgi_skip_bytes', props=P12, enforce='fcgi_skip_bytes', harness=setup(8) + 'size_t n; fcgi_skip_bytes(&c, n); VERIF_REACH;'),
    dict(name='fcgi_read_bytes', props=P12, enforce='fcgi_read_bytes', replace=['verif_memcpy'], harness=setup(8) + 'size_t n; __CPROVER_assume(n >= 1 && n <= FCGI_BODY_LIMIT); char *out = malloc(n); __CPROVER_assume(out != NULL); fcgi_read_bytes(&c, out, n); VERIF_REACH;'),
    dict(name='fcgi_async_read_from_socket', props=P12, enforce='fcgi_async_read_from_socket', replace=['verif_memcpy', 'verif_memmove'], harness=setup(8) +
         'size_t n; __CPROVER_assume(n >= 1 && n <= FCGI_BODY_LIMIT); char *out = malloc(n); __CPROVER_assume(out != NULL); fcgi_async_read_from_socket(&c, out, n); VERIF_REACH;'),
    dict(name='fcgi_on_some_read_from_socket', props=P12, enforce='fcgi_on_some_read_from_socket', replace=['fcgi_async_read_from_socket'], harness=setup(8) +
         'size_t n, rd; int e; __CPROVER_assume(n >= 1 && n <= FCGI_BODY_LIMIT && cs == 0 && rd <= cn - ce); char *out = malloc(n); __CPROVER_assume(out != NULL); '
         'fcgi_on_some_read_from_socket(&c, e, rd, out, n); VERIF_REACH;'),
    dict(name='fcgi_non_blocking_read_record', props=P12, enforce='fcgi_non_blocking_read_record', replace=CACHE_FNS + ['fcgi_header_to_host'], harness=setup('16383') +
         'fcgi_non_blocking_read_record(&c); VERIF_REACH;'),
    dict(name='fcgi_on_header_read', props=P2, enforce='fcgi_on_header_read', replace=['fcgi_header_to_host', 'fcgi_async_read_from_socket'], harness=setup('16383') +
         'int e; fcgi_on_header_read(&c, e); VERIF_REACH;'),
    dict(name='fcgi_on_body_read', props=P2, enforce='fcgi_on_body_read', harness=setup('FCGI_BODY_LIMIT') +
         '__CPROVER_assume(bn >= (size_t)c.header_.content_length + c.header_.padding_length); int e; fcgi_on_body_read(&c, e); VERIF_REACH;'),
    dict(name='fcgi_stdin_eof_expected', props=P2, enforce='fcgi_stdin_eof_expected', harness=setup(8) + 'int e; fcgi_stdin_eof_expected(&c, e); VERIF_REACH;'),
    dict(name='fcgi_params_record_expected', props=P2, enforce='fcgi_params_record_expected', replace=['fcgi_non_blocking_read_record', 'fcgi_stdin_eof_expected', 'fcgi_parse_pairs'],
         harness=setup('16384 + 65535') + 'int e; WIT(0, e); WIT(1, c.header_.type); WIT(2, c.header_.request_id); WIT(3, c.request_id_); WIT(4, c.header_.content_length); WIT(5, bn); WIT(6, ce - cs); WIT_BUF(0, cache + cs, ce - cs);'
         ' fcgi_params_record_expected(&c, e); VERIF_REACH;',
         witness=dict(bufs=['cache'], vals=['e', 'type', 'hdr_request_id', 'request_id', 'content_length', 'body_n', 'cached']), replay='c02fcgi:params_record_expected', replay_link=['-L{BUILD}', '-lcppcms', '-L{BUILD}/booster', '-lbooster']),
    dict(name='fcgi_on_start_request', props=P2, enforce='fcgi_on_start_request',
         replace=['fcgi_non_blocking_read_record', 'fcgi_params_record_expected', 'fcgi_request_body_to_host', 'fcgi_end_request_body_to_net'],
         harness=setup(65535) + 'int e; WIT(0, e); WIT(1, c.header_.type); WIT(2, c.header_.version); WIT(3, bn); WIT(4, ce - cs); WIT_BUF(0, cache + cs, ce - cs);'
         ' fcgi_on_start_request(&c, e); VERIF_REACH;',
         witness=dict(bufs=['cache'], vals=['e', 'type', 'version', 'body_n', 'cached']), replay='c02fcgi:on_start_request', replay_link=['-L{BUILD}', '-lcppcms', '-L{BUILD}/booster', '-lbooster']),
]

jobs += [
    dict(name='fcgi_async_read_some', props=P12, replay='c02fcgi:stdin_stream', replay_link=['-L{BUILD}', '-lcppcms', '-L{BUILD}/booster', '-lbooster'], replay_exhaustive='two consecutive STDIN payloads of 1..6 bytes read with buffers of 1..7 bytes through the real fastcgi::async_read_some; delivered bytes compared with payload1 ++ payload2', enforce='fcgi_async_read_some', replace=['verif_memcpy'], harness=setup('FCGI_BODY_LIMIT') +
         'size_t n; __CPROVER_assume(n >= 1 && n <= BUF_CAP); char *out = malloc(n); __CPROVER_assume(out != NULL); g_cont = CB_none; long long cl, rl; c.content_length_ = cl; c.read_length_ = rl; '
         'unsigned bp; c.body_ptr_ = bp; fcgi_async_read_some(&c, out, n); VERIF_REACH;'),
    dict(name='fcgi_on_some_input_recieved', props=P12, replay='c02fcgi:stdin_stream', replay_link=['-L{BUILD}', '-lcppcms', '-L{BUILD}/booster', '-lbooster'], replay_exhaustive='two consecutive STDIN payloads of 1..6 bytes read with buffers of 1..7 bytes through the real fastcgi::async_read_some; delivered bytes compared with payload1 ++ payload2', enforce='fcgi_on_some_input_recieved', replace=['fcgi_async_read_some'], harness=setup('FCGI_BODY_LIMIT') +
         'size_t n; __CPROVER_assume(n >= 1 && n <= BUF_CAP); char *out = malloc(n); __CPROVER_assume(out != NULL); g_cont = CB_none; long long cl, rl; c.content_length_ = cl; c.read_length_ = rl; '
         'unsigned bp; c.body_ptr_ = bp; int e; fcgi_on_some_input_recieved(&c, e, out, n); VERIF_REACH;'),
    dict(name='fcgi_on_read_stdin_eof_expected', props=P12, enforce='fcgi_on_read_stdin_eof_expected', harness=setup(8) + 'int e; size_t n; fcgi_on_read_stdin_eof_expected(&c, e, n); VERIF_REACH;'),
]

UNIT = dict(
    name='fastcgi', pre=PRE, functions=functions, jobs=jobs, rename={'memcpy': 'verif_memcpy', 'memmove': 'verif_memmove'},
    regions=[dict(name='fcgi_header', file=F, start=r'struct fcgi_header \{', end=None, rewrites=METHODS_OUT),
             dict(name='fcgi_enum', file=F, start=r'enum \{\s*fcgi_header_len', end=None),
             dict(name='fcgi_enum2', file=F, start=r'enum \{\s*fcgi_keep_conn', end=None),
             dict(name='fcgi_enum3', file=F, start=r'enum \{\s*fcgi_responder', end=None),
             dict(name='fcgi_enum4', file=F, start=r'enum \{\s*fcgi_request_complete', end=None),
             dict(name='fcgi_request_body', file=F, start=r'struct fcgi_request_body \{', end=None, rewrites=METHODS_OUT),
             dict(name='fcgi_end_request_body', file=F, start=r'struct fcgi_end_request_body \{', end=None, rewrites=METHODS_OUT)],
    trusted=['fastcgi: std::vector<char> body_/cache_ are (pointer,length) pairs; resize() is a stub that allocates fresh storage (R8/R10) and asserts the size bound',
             'fastcgi: pool_.add / env_.add / std::string::assign are stubs that assert the source range lies inside the record body (R10)',
             'fastcgi: completion handler h and every continuation that receives h are counted by a ghost (call_h / give_h)'],
    not_covered={'C01': ['end-to-end equality of the request seen through HTTP, SCGI and FastCGI (goes through cppcms::service and the event loop)'],
                 'C02': ['event loop survival and isolation of other connections (schedule/whole-process property)']},
)
