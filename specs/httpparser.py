# Unit "httpparser" -- header tokeniser state machine of the embedded HTTP server (private/http_parser.h parser::step).  Serves C01, C02.
import sys, os
sys.path.insert(0, os.path.join(os.path.dirname(os.path.abspath(__file__)), '..', 'tools'))
from cxx2c import lit

H = 'private/http_parser.h'
P = ['C01', 'C02']

PRE = r'''
@@REGION:states@@
@@REGION:results@@
struct hparser { states_t state_; unsigned bracket_counter_; };
/* the input (whatever getc() reads from: request buffer or body vector) is a ghost byte string with a cursor; ungetc may push back ONE byte */
char const *g_in; size_t g_in_n, g_in_pos; bool g_ungot; int g_ungot_c; size_t g_getc_calls;
/* header_ (std::string) is a checked sink: length + last two bytes */
size_t g_hdr_len; char g_hdr_last, g_hdr_prev; bool g_hdr_underflow;
static int p_getc(void) { if(g_ungot) { g_ungot = 0; return (unsigned char)g_ungot_c; } if(g_in_pos < g_in_n) return (unsigned char)g_in[g_in_pos++]; return -1; }
static void p_ungetc(int c) { __CPROVER_assert(!g_ungot, "at most one byte is pushed back"); if(g_in_pos > 0) g_in_pos--; else { g_ungot = 1; g_ungot_c = c; } }
static void hdr_clear(void) { g_hdr_len = 0; }
static void hdr_put(char c) { g_hdr_prev = g_hdr_last; g_hdr_last = c; g_hdr_len++; }
/* header_.resize(n): shrinking only; header_.size()-2 must not wrap around */
static void hdr_resize(size_t n) { __CPROVER_assert(n <= g_hdr_len, "header_.resize(size-2) never underflows (the header ends with the CR LF being removed)"); if(n > g_hdr_len) g_hdr_underflow = 1; g_hdr_len = n; }
/* representation invariant of the parser between calls */
#define HP_INV(s) ((s)->state_ >= idle && (s)->state_ <= pass_closing_bracket_expected && g_hdr_len <= BUF_CAP + BUF_CAP + 2 && \
    ((s)->state_ == lf_exptected ==> (g_hdr_len >= 1 && g_hdr_last == '\r')) && \
    ((s)->state_ == space_or_other_exptected ==> (g_hdr_len >= 2 && g_hdr_prev == '\r' && g_hdr_last == '\n')) && \
    (((s)->state_ == closing_bracket_expected || (s)->state_ == pass_closing_bracket_expected) ==> (s)->bracket_counter_ >= 1) && \
    (((s)->state_ != closing_bracket_expected && (s)->state_ != pass_closing_bracket_expected) ==> (s)->bracket_counter_ == 0))
'''

HP = 'private/http_protocol.h'; HA = 'src/http_api.cpp'
PRE += r'''
/* ---- RFC 2616 2.2 token / separators / LWS (private/http_protocol.h) and the "Name: value" splitter of the embedded server */
#define IS_SEP(c) ((c)=='(' || (c)==')' || (c)=='<' || (c)=='>' || (c)=='@' || (c)==',' || (c)==';' || (c)==':' || (c)=='\\' || (c)=='"' || (c)=='/' || (c)=='[' || (c)==']' || (c)=='?' || (c)=='=' || (c)=='{' || (c)=='}' || (c)==' ' || (c)=='\t')
#define IS_TOKCH(c) ((c) >= 0x20 && (c) <= 0x7E && !IS_SEP(c))
#define CGI_NORM(c) ((c) == '-' ? '_' : ((c) >= 'a' && (c) <= 'z') ? (char)((c) - 'a' + 'A') : (c))
size_t g_pk;                                             /* arbitrary ghost index */
char const *g_cp_src[2]; char *g_cp_dst[2]; size_t g_cp_n[2]; int g_cp_calls;
size_t g_alloc_n; char *g_alloc_p;
static char *pool_alloc(size_t n) { char *p = malloc(n); __CPROVER_assume(p != NULL); g_alloc_n = n; g_alloc_p = p; return p; }
/* std::copy(first,last,dest) on char ranges: copies the bytes, returns dest + (last-first); observed at the ghost index; the two calls of the function are recorded.
   The destination must be the block just obtained from the pool and hold the range plus the terminator the caller stores through the returned pointer */
static char *copy_range(char const *b, char const *e, char *dst)
{
  __CPROVER_assert(SAME(b, e) && OFF(b) <= OFF(e), "std::copy source is an ordered range of one object");
  size_t n = OFF(e) - OFF(b);
  __CPROVER_assert(dst == g_alloc_p && n < g_alloc_n, "std::copy destination is the block just allocated and holds the range plus the NUL terminator");
  if(g_pk < n) dst[g_pk] = b[g_pk];
  if(g_cp_calls < 2) { g_cp_src[g_cp_calls] = b; g_cp_dst[g_cp_calls] = dst; g_cp_n[g_cp_calls] = n; } g_cp_calls++;
  return dst + n;
}
'''
functions = [
    dict(cname='http_parser_step', file=H, locate=r'int step\(\)', sig='int http_parser_step(struct hparser *self)', members=['state_', 'bracket_counter_'],
         rename={'getc': 'p_getc', 'ungetc': 'p_ungetc'},
         rewrites=[(r'header_\.clear\(\);', 'hdr_clear();', 2), (r'header_\.resize\(header_\.size\(\)\s*-\s*(\w)\);', r'hdr_resize(g_hdr_len - \1);', 2), (r'header_\+=char\(c\);', 'hdr_put((char)c);', 1)],
         loops={0: '''__CPROVER_assigns(self->state_, self->bracket_counter_, g_in_pos, g_ungot, g_ungot_c, g_getc_calls, g_hdr_len, g_hdr_last, g_hdr_prev)
__CPROVER_loop_invariant(HP_INV(self) && g_in_pos <= g_in_n && !g_hdr_underflow && g_in_pos >= g_p0 && (g_ungot ==> (g_u0 == 1 && g_in_pos == g_p0 && self->state_ == idle)) &&
      g_hdr_len + (g_ungot ? 1 : 0) <= g_h0 + (g_in_pos - g_p0) + g_u0)
__CPROVER_decreases(g_in_n - g_in_pos + (g_ungot ? 1 : 0))'''},
         body_ghost='g_h0 = g_hdr_len; g_p0 = g_in_pos; g_c0 = g_getc_calls; g_u0 = g_ungot ? 1 : 0;',
         contract=r'''
__CPROVER_requires(__CPROVER_rw_ok(self, sizeof(*self)) && HP_INV(self) && g_in_n <= BUF_CAP && __CPROVER_r_ok(g_in, g_in_n) && g_in_pos <= g_in_n && g_hdr_len <= BUF_CAP && !g_hdr_underflow && g_getc_calls <= BUF_CAP &&
                   (g_ungot ==> self->state_ == idle))
__CPROVER_assigns(self->state_, self->bracket_counter_, g_in_pos, g_ungot, g_ungot_c, g_getc_calls, g_hdr_len, g_hdr_last, g_hdr_prev, g_h0, g_p0, g_c0, g_u0)
/* C02: for ANY bytes the header string never underflows, the bracket counter never wraps, the cursor stays inside the input */
__CPROVER_ensures(!g_hdr_underflow && g_in_pos <= g_in_n)
__CPROVER_ensures(__CPROVER_return_value >= more_data && __CPROVER_return_value <= error_observerd)
/* C01 (segmentation independence): "need more data" is returned exactly at the end of the available input with a well-formed carried state
   (state_, bracket_counter_, header_): the transition function reads nothing else, so cutting the stream anywhere gives the same sequence of results */
__CPROVER_ensures(__CPROVER_return_value == more_data ==> (g_in_pos == g_in_n && !g_ungot && HP_INV(self)))
__CPROVER_ensures(__CPROVER_return_value == got_header ==> (self->state_ == idle && self->bracket_counter_ == 0))
'''),
    dict(cname='proto_separator', file=HP, locate=lit('inline bool separator(char c)'), sig='bool proto_separator(char c)',
         contract='__CPROVER_assigns()\n/* RFC 2616 2.2 separators */\n__CPROVER_ensures(__CPROVER_return_value == (IS_SEP(c) ? 1 : 0))'),
    dict(cname='proto_tocken', file=HP, locate=lit('It tocken(It begin,It end)'), sig='char const *proto_tocken(char const *begin, char const *end)', rename={'separator': 'proto_separator'},
         loops={0: '__CPROVER_assigns(begin, c)\n__CPROVER_loop_invariant(IN_RANGE(begin, __CPROVER_loop_entry(begin), end) && (g_pk < OFF(begin) - OFF(__CPROVER_loop_entry(begin)) ==> IS_TOKCH((__CPROVER_loop_entry(begin))[g_pk])))\n__CPROVER_decreases(OFF(end) - OFF(begin))'},
         contract='__CPROVER_requires(VALID_RANGE(begin, end) && OFF(end) - OFF(begin) <= BUF_CAP)\n__CPROVER_assigns()\n'
                  '/* the longest prefix of token characters */\n'
                  '__CPROVER_ensures(IN_RANGE(__CPROVER_return_value, begin, end) && (g_pk < OFF(__CPROVER_return_value) - OFF(begin) ==> IS_TOKCH(begin[g_pk])) && (__CPROVER_return_value == end || !IS_TOKCH(*__CPROVER_return_value)))'),
    dict(cname='proto_skip_ws', file=HP, locate=lit('It skip_ws(It p,It end)'), sig='char const *proto_skip_ws(char const *p, char const *end)',
         loops={0: '__CPROVER_assigns(p)\n__CPROVER_loop_invariant(IN_RANGE(p, __CPROVER_loop_entry(p), end) && (g_pk < OFF(p) - OFF(__CPROVER_loop_entry(p)) ==> ((__CPROVER_loop_entry(p))[g_pk] == 0x20 || (__CPROVER_loop_entry(p))[g_pk] == 0x09 || (__CPROVER_loop_entry(p))[g_pk] == 0x0d || (__CPROVER_loop_entry(p))[g_pk] == 0x0a)))\n__CPROVER_decreases(OFF(end) - OFF(p))'},
         contract='/* callers pass ranges inside NUL-terminated strings: one more byte is addressable after `end`, so `p+2` in the LWS test never goes beyond one-past-the-end (observation: without that byte the comparison would be undefined) */\n__CPROVER_requires(VALID_RANGE(p, end) && OFF(end) - OFF(p) <= BUF_CAP && __CPROVER_r_ok(p, OFF(end) - OFF(p) + 1))\n__CPROVER_assigns()\n'
                  '/* skips SP, HT and line continuations (CR LF followed by SP/HT) only, and stops at the first byte that is none of these */\n'
                  '__CPROVER_ensures(IN_RANGE(__CPROVER_return_value, p, end) && (g_pk < OFF(__CPROVER_return_value) - OFF(p) ==> (p[g_pk] == 0x20 || p[g_pk] == 0x09 || p[g_pk] == 0x0d || p[g_pk] == 0x0a)) && '
                  '(__CPROVER_return_value == end || (*__CPROVER_return_value != 0x20 && *__CPROVER_return_value != 0x09)))'),
    dict(cname='http_header_name_step', file=HA, locate=lit('virtual bool parse_single_header(std::string const &header,char const *&o_name,char const *&o_value)'),
         sig='void http_header_name_step(char *name, unsigned i)', slice=dict(loop=0, after=r'\A', tail=''),
         contract='/* one step of the name normalisation loop of parse_single_header (the loop body, extracted as it stands) */\n'
                  '__CPROVER_requires(__CPROVER_rw_ok(name + i, 1))\n__CPROVER_assigns(name[i])\n'
                  '/* CGI convention: \'-\' becomes \'_\', EVERY lower-case letter a..z becomes upper case, everything else is kept */\n'
                  '__CPROVER_ensures(name[i] == CGI_NORM(__CPROVER_old(name[i])))'),
    dict(cname='http_parse_single_header', file=HA, locate=lit('virtual bool parse_single_header(std::string const &header,char const *&o_name,char const *&o_value)'),
         sig='bool http_parse_single_header(char const *header_p, size_t header_n, char const **o_name, char const **o_value)', refs=['o_name', 'o_value'],
         rewrites=[(r'header\.c_str\(\)', 'header_p', 1), (r'header\.size\(\)', 'header_n', 1), (r'cppcms::http::protocol::skip_ws\(', 'proto_skip_ws(', 3), (r'cppcms::http::protocol::tocken\(', 'proto_tocken(', 1),
                   (r'pool_\.alloc\(', 'pool_alloc(', 2), (r'\*std::copy\(', '*copy_range(', 2)],
         loops={0: '''__CPROVER_assigns(i, __CPROVER_object_whole(name))
__CPROVER_loop_invariant(i <= name_size && name_size >= 1 && name_size <= BUF_CAP && name[name_size] == 0 && (g_pk < name_size ==> name[g_pk] == (g_pk < i ? CGI_NORM(g_cp_src[0][g_pk]) : g_cp_src[0][g_pk])))
__CPROVER_decreases(name_size - i)'''},
         contract=r'''
__CPROVER_requires(header_n <= BUF_CAP && __CPROVER_r_ok(header_p, header_n + 1) && header_p[header_n] == 0 && __CPROVER_w_ok(o_name, sizeof(*o_name)) && __CPROVER_w_ok(o_value, sizeof(*o_value)) && g_cp_calls == 0)
__CPROVER_assigns(*o_name, *o_value, g_cp_calls, __CPROVER_object_whole(g_cp_src), __CPROVER_object_whole(g_cp_dst), __CPROVER_object_whole(g_cp_n), g_alloc_n, g_alloc_p)
/* C01: "Name: value" -> the CGI variable name is the header's token, upper-cased with '-' -> '_', nothing more and nothing less; the value is the rest of the line after the colon and
   leading white space, verbatim up to the end of the header; both are NUL-terminated copies (C02: every copy fits its allocation - asserted in the copy model) */
__CPROVER_ensures(__CPROVER_return_value ==> (g_cp_calls == 2 && *o_name == g_cp_dst[0] && *o_value == g_cp_dst[1] && g_cp_n[0] >= 1 &&
                  SAME(g_cp_src[0], header_p) && SAME(g_cp_src[1], header_p) && OFF(g_cp_src[0]) >= OFF(header_p) && OFF(g_cp_src[0]) + g_cp_n[0] < OFF(g_cp_src[1]) &&
                  OFF(g_cp_src[1]) + g_cp_n[1] == OFF(header_p) + header_n))
__CPROVER_ensures(__CPROVER_return_value ==> ((*o_name)[g_cp_n[0]] == 0 && (*o_value)[g_cp_n[1]] == 0 && (g_pk < g_cp_n[0] ==> (IS_TOKCH(g_cp_src[0][g_pk]) && (*o_name)[g_pk] == CGI_NORM(g_cp_src[0][g_pk]))) &&
                  (g_pk < g_cp_n[1] ==> (*o_value)[g_pk] == g_cp_src[1][g_pk])))
'''),
]
PRE += 'size_t g_h0, g_p0, g_c0, g_u0;\n'

jobs = [
    dict(name='http_parser_step', props=P, enforce='http_parser_step', harness=r'''
    SYM_BUF(char, in, n, BUF_CAP); size_t pos, hl, gc; __CPROVER_assume(pos <= n && hl <= BUF_CAP && gc <= BUF_CAP);
    g_in = in; g_in_n = n; g_in_pos = pos; g_hdr_len = hl; g_getc_calls = gc; g_hdr_underflow = 0;
    char a, b; g_hdr_last = a; g_hdr_prev = b; bool u; int uc; g_ungot = u; g_ungot_c = uc;
    struct hparser p;
    http_parser_step(&p); VERIF_REACH;'''),
    dict(name='proto_separator', props=P, enforce='proto_separator', harness='char c; proto_separator(c); VERIF_REACH;'),
    dict(name='proto_tocken', props=P, enforce='proto_tocken', replace=['proto_separator'], harness='SYM_BUF(char, b, n, BUF_CAP); size_t k; g_pk = k; proto_tocken(b, b + n); VERIF_REACH;'),
    dict(name='proto_skip_ws', props=P, enforce='proto_skip_ws', harness='size_t n, k; __CPROVER_assume(n <= BUF_CAP); char *b = malloc(n + 1); __CPROVER_assume(b != NULL); g_pk = k; proto_skip_ws(b, b + n); VERIF_REACH;'),
    dict(name='http_header_name_step', props=P, enforce='http_header_name_step', harness='char nm[8]; unsigned i; __CPROVER_assume(i < 8); http_header_name_step(nm, i); VERIF_REACH;'),
    dict(name='http_parse_single_header', props=P, tier='thorough', enforce='http_parse_single_header', replace=['proto_tocken', 'proto_skip_ws'], per_property=r'.', pp_chunk=10, pp_workers=14, timeout=600, harness=r'''
    size_t n, k; __CPROVER_assume(n <= BUF_CAP); char *b = malloc(n + 1); __CPROVER_assume(b != NULL && b[n] == 0); g_pk = k; g_cp_calls = 0; char const *on, *ov;
    http_parse_single_header(b, n, &on, &ov); VERIF_REACH;'''),
]

UNIT = dict(
    name='httpparser', pre=PRE, functions=functions, jobs=jobs,
    regions=[dict(name='states', file=H, start=r'enum \{\s*idle,', end=r'\}\s*state_;', rewrites=[(r'\}\s*state_;', '} states_t;', 1), (r'^enum', 'typedef enum', 1)]),
             dict(name='results', file=H, start=r'enum \{ more_data,', end=r'\};')],
    trusted=['httpparser: getc()/ungetc() (input cursor with one byte of push-back: std::stack<char> ungot_ and the two buffer modes) and std::string header_ (length + last two bytes) are stubs (R8/R10)'],
    not_covered={'C01': ['parse_single_header, request line split, SCRIPT_NAME/PATH_INFO split in http_api.cpp'], 'C02': ['http_api.cpp callbacks (error responses, timeouts)']},
)
