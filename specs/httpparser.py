# Unit "httpparser" -- header tokeniser state machine of the embedded HTTP server (private/http_parser.h parser::step).  Serves C01, C02.
import sys, os
sys.path.insert(0, os.path.join(os.path.dirname(os.path.abspath(__file__)), '..', 'tools'))
from cxx2c import lit

H = 'private/http_parser.h'
P = ['C01', 'C02']

PRE = r'''
@@REGION:states@@
@@REGION:results@@
struct hparser { states_t state_; unsigned bracket_counter_; };
/* the input (whatever getc() reads from: request buffer or body vector) is a ghost byte string with a cursor; ungetc may push back ONE byte */
char const *g_in; size_t g_in_n, g_in_pos; bool g_ungot; int g_ungot_c; size_t g_getc_calls;
/* header_ (std::string) is a checked sink: length + last two bytes */
size_t g_hdr_len; char g_hdr_last, g_hdr_prev; bool g_hdr_underflow;
static int p_getc(void) { if(g_ungot) { g_ungot = 0; return (unsigned char)g_ungot_c; } if(g_in_pos < g_in_n) return (unsigned char)g_in[g_in_pos++]; return -1; }
static void p_ungetc(int c) { __CPROVER_assert(!g_ungot, "at most one byte is pushed back"); if(g_in_pos > 0) g_in_pos--; else { g_ungot = 1; g_ungot_c = c; } }
static void hdr_clear(void) { g_hdr_len = 0; }
static void hdr_put(char c) { g_hdr_prev = g_hdr_last; g_hdr_last = c; g_hdr_len++; }
/* header_.resize(n): shrinking only; header_.size()-2 must not wrap around */
static void hdr_resize(size_t n) { __CPROVER_assert(n <= g_hdr_len, "header_.resize(size-2) never underflows (the header ends with the CR LF being removed)"); if(n > g_hdr_len) g_hdr_underflow = 1; g_hdr_len = n; }
/* representation invariant of the parser between calls */
#define HP_INV(s) ((s)->state_ >= idle && (s)->state_ <= pass_closing_bracket_expected && g_hdr_len <= BUF_CAP + BUF_CAP + 2 && \
    ((s)->state_ == lf_exptected ==> (g_hdr_len >= 1 && g_hdr_last == '\r')) && \
    ((s)->state_ == space_or_other_exptected ==> (g_hdr_len >= 2 && g_hdr_prev == '\r' && g_hdr_last == '\n')) && \
    (((s)->state_ == closing_bracket_expected || (s)->state_ == pass_closing_bracket_expected) ==> (s)->bracket_counter_ >= 1) && \
    (((s)->state_ != closing_bracket_expected && (s)->state_ != pass_closing_bracket_expected) ==> (s)->bracket_counter_ == 0))
'''

HP = 'private/http_protocol.h'; HA = 'src/http_api.cpp'
PRE += r'''
/* ---- RFC 2616 2.2 token / separators / LWS (private/http_protocol.h) and the "Name: value" splitter of the embedded server */
#define IS_SEP(c) ((c)=='(' || (c)==')' || (c)=='<' || (c)=='>' || (c)=='@' || (c)==',' || (c)==';' || (c)==':' || (c)=='\\' || (c)=='"' || (c)=='/' || (c)=='[' || (c)==']' || (c)=='?' || (c)=='=' || (c)=='{' || (c)=='}' || (c)==' ' || (c)=='\t')
#define IS_TOKCH(c) ((c) >= 0x20 && (c) <= 0x7E && !IS_SEP(c))
#define CGI_NORM(c) ((c) == '-' ? '_' : ((c) >= 'a' && (c) <= 'z') ? (char)((c) - 'a' + 'A') : (c))
size_t g_pk;                                             /* arbitrary ghost index */
char const *g_cp_src[2]; char *g_cp_dst[2]; size_t g_cp_n[2]; int g_cp_calls;
size_t g_alloc_n; char *g_alloc_p;
static char *pool_alloc(size_t n) { char *p = malloc(n); __CPROVER_assume(p != NULL); g_alloc_n = n; g_alloc_p = p; return p; }
/* std::copy(first,last,dest) on char ranges: copies the bytes, returns dest + (last-first); observed at the ghost index; the two calls of the function are recorded.
   The destination must be the block just obtained from the pool and hold the range plus the terminator the caller stores through the returned pointer */
static char *copy_range(char const *b, char const *e, char *dst)
{
  __CPROVER_assert(SAME(b, e) && OFF(b) <= OFF(e), "std::copy source is an ordered range of one object");
  size_t n = OFF(e) - OFF(b);
  __CPROVER_assert(dst == g_alloc_p && n < g_alloc_n, "std::copy destination is the block just allocated and holds the range plus the NUL terminator");
  if(g_pk < n) dst[g_pk] = b[g_pk];
  if(g_cp_calls < 2) { g_cp_src[g_cp_calls] = b; g_cp_dst[g_cp_calls] = dst; g_cp_n[g_cp_calls] = n; } g_cp_calls++;
  return dst + n;
}
'''

PRE += r'''
/* ---- request line "METHOD SP URI SP PROTOCOL" of the embedded HTTP server (first header of some_headers_data_read) */
#define K_SERVER_PROTOCOL 1
struct hreq { char *request_method_; char *request_uri_; bool is_http_11_; bool first_header_observerd_; };
char const *g_pa_src[2]; size_t g_pa_n[2]; char *g_pa_ret[2]; int g_pa_calls; char const *g_ps_src; char *g_ps_ret; int g_ps_calls; int g_env_calls, g_env_key; char const *g_env_val;
int g_err_calls; char const *g_sc_arg; int g_sc_calls; bool g_sc_eq; size_t g_ga, g_gr, g_f_off0, g_f_off1; int g_fc;
static char *pool_add_range(char const *b, char const *e)
{
  __CPROVER_assert(SAME(b, e) && OFF(b) <= OFF(e), "pool_.add(begin,end) is given an ordered range of one object");
  char *r = malloc(1); __CPROVER_assume(r != NULL);
  if(g_pa_calls < 2) { g_pa_src[g_pa_calls] = b; g_pa_n[g_pa_calls] = OFF(e) - OFF(b); g_pa_ret[g_pa_calls] = r; } if(g_pa_calls < 3) g_pa_calls++;
  return r;
}
static char *pool_add_str(char const *p) { char *r = malloc(1); __CPROVER_assume(r != NULL); if(g_ps_calls < 2) g_ps_calls++; g_ps_src = p; g_ps_ret = r; return r; }
static void env_add_rec(int key, char const *v) { if(g_env_calls < 2) g_env_calls++; g_env_key = key; g_env_val = v; }
static void h_protocol_violation(void) { if(g_err_calls < 2) g_err_calls++; }
/* strcmp(p, literal): the literal must be the protocol name of RFC 2616; the answer is computed from the bytes (short-circuit: never past the NUL) */
static int strcmp_rec(char const *p, char const *l)
{
  __CPROVER_assert(l[0] == 'H' && l[1] == 'T' && l[2] == 'T' && l[3] == 'P' && l[4] == '/' && l[5] == '1' && l[6] == '.' && l[7] == '1' && l[8] == 0, "the protocol is compared with \"HTTP/1.1\"");
  if(g_sc_calls < 2) g_sc_calls++; g_sc_arg = p;
  g_sc_eq = p[0] == 'H' && p[1] == 'T' && p[2] == 'T' && p[3] == 'P' && p[4] == '/' && p[5] == '1' && p[6] == '.' && p[7] == '1' && p[8] == 0;
  int nz; __CPROVER_assume(nz != 0); return g_sc_eq ? 0 : nz;
}
'''

PRE += r'''
/* ---- URI split of process_request: request_uri_ = U[0..n) NUL-terminated; QUERY_STRING after the first '?', SCRIPT_NAME = a configured name that prefixes the path on a segment boundary,
 *      PATH_INFO = urldecode(rest).  The pool copy of the part before '?' is modelled as the SAME bytes with a logical end (its strlen is the offset of '?': strchr saw no NUL before it). */
#define K_QUERY_STRING 2
#define K_SCRIPT_NAME 3
#define K_PATH_INFO 4
#define SNMAX 256
struct hreq2 { char *request_uri_; char *env_query_string_; char *env_script_name_; char *env_path_info_; };
char *g_U; size_t g_Un;                       /* the request URI and its length (no NUL before g_Un) */
char *g_names; size_t *g_name_len; unsigned g_sn_n;   /* configured script names: fixed-width slots, lengths taken modulo the slot width */
size_t g_end_off; int g_cp_len_calls; size_t g_cp_len_n; char const *g_cp_len_src;
int g_400, g_envq_calls, g_envs_calls, g_envp_calls, g_envx_calls; char const *g_envq_val, *g_envs_val, *g_envp_val;
int g_sn_calls; size_t g_sn_chosen; char *g_sn_ret; int g_ud_calls; char const *g_ud_b, *g_ud_e; char *g_ud_ret; size_t g_sk; bool g_seen_sk;
static char nce_string[1];
static void error_response_rec(void) { if(g_400 < 2) g_400++; }
static char *pool_add_len(char *p, size_t n) { if(g_cp_len_calls < 2) g_cp_len_calls++; g_cp_len_src = p; g_cp_len_n = n; __CPROVER_assert(p == g_U && n <= g_Un, "the path copy is a prefix of the request URI"); g_end_off = OFF(g_U) + n; return p; }
static size_t path_strlen(char const *p) { __CPROVER_assert(SAME(p, g_U) && OFF(p) <= g_end_off, "strlen() of a pointer into the path"); return g_end_off - OFF(p); }
static size_t sn_size(size_t i) { __CPROVER_assert(i < g_sn_n, "script_names[i] inside the vector"); if(i == g_sk) g_seen_sk = 1; return g_name_len[i] % SNMAX; }
static char const *sn_ptr(size_t i) { __CPROVER_assert(i < g_sn_n, "script_names[i] inside the vector"); return g_names + i * SNMAX; }
static char *pool_add_name(size_t i) { if(g_sn_calls < 2) g_sn_calls++; g_sn_chosen = i; char *r = malloc(1); __CPROVER_assume(r != NULL); g_sn_ret = r; return r; }
static char *pool_add_decoded(char const *b, char const *e) { if(g_ud_calls < 2) g_ud_calls++; g_ud_b = b; g_ud_e = e; char *r = malloc(1); __CPROVER_assume(r != NULL); g_ud_ret = r; return r; }
static void env_add_rec2(int key, char const *v)
{
  if(key == K_QUERY_STRING) { if(g_envq_calls < 2) g_envq_calls++; g_envq_val = v; }
  else if(key == K_SCRIPT_NAME) { if(g_envs_calls < 2) g_envs_calls++; g_envs_val = v; }
  else if(key == K_PATH_INFO) { if(g_envp_calls < 2) g_envp_calls++; g_envp_val = v; }
  else g_envx_calls = 1;
}
#define UOFF(p) (OFF(p) - OFF(g_U))
'''

PRE += r'''
/* ---- body hand-over of the embedded HTTP server: bytes that arrived together with the headers (input_body_ from input_body_ptr_) are delivered before the socket is read */
struct hbody { char *ib_p; size_t ib_n; unsigned input_body_ptr_; };
size_t g_n0, g_pt0; char *g_ibp; int g_post_calls, g_sock_calls, g_cpy_calls, g_rel_calls; size_t g_post_n, g_sock_n, g_cpy_n; void *g_sock_p; void const *g_cpy_src; void *g_cpy_dst;
static void update_time_rec(void) { }
static void copy_obs(void *dst, void const *src, size_t n)
{
  __CPROVER_assert(__CPROVER_r_ok(src, n) && __CPROVER_w_ok(dst, n), "memcpy stays inside the buffered input and inside the caller's buffer");
  if(g_pk < n) ((char *)dst)[g_pk] = ((char const *)src)[g_pk];
  if(g_cpy_calls < 2) g_cpy_calls++; g_cpy_src = src; g_cpy_dst = dst; g_cpy_n = n;
}
static void post_rec(size_t n) { if(g_post_calls < 2) g_post_calls++; g_post_n = n; }
static void ib_release_rec(void) { if(g_rel_calls < 2) g_rel_calls++; }
static void sock_async_read_rec(void *p, size_t n) { if(g_sock_calls < 2) g_sock_calls++; g_sock_p = p; g_sock_n = n; }
'''

PRE += r'''
/* ---- some_headers_data_read as a whole (C02): whatever the peer sends, each invocation ends in EXACTLY ONE continuation -- the completion handler with an error, another read of header bytes
 *      (only while at most 16 KiB were read), or process_request -- and every buffer it sizes holds what is written into it.  The parser, the socket and parse_single_header are oracles. */
#define P_more_data 0
#define P_got_header 1
#define P_end_of_headers 2
#define P_error_observerd 3
struct hconn { bool first_header_observerd_; size_t total_read_; unsigned input_body_ptr_; size_t ib_n, ib_cap; char *request_method_; char *request_uri_; bool is_http_11_; long long env_content_length_; char const *env_content_type_; };
int g_hc_h, g_hc_again, g_hc_pr, g_hc_h_kind, g_hc_bad; size_t g_again_total; char *g_hname; size_t g_hname_len; char *g_hvalue; char const *g_line_p; size_t g_line_n;
char *g_al_p; size_t g_al_n, g_al_used;
static void hc_h_rec(int kind) { if(g_hc_h < 2) g_hc_h++; g_hc_h_kind = kind; }
static void hc_again_rec(struct hconn *c) { if(g_hc_again < 2) g_hc_again++; g_again_total = c->total_read_; }
static void hc_process_request_rec(void) { if(g_hc_pr < 2) g_hc_pr++; }
static size_t bytes_readable_rec(bool *e) { int f; size_t n; *e = f != 0; return n; }
static void ib_reserve(struct hconn *c, size_t n) { __CPROVER_assert(n <= 16384, "the header read buffer is never grown beyond 16 KiB"); if(c->ib_cap < n) c->ib_cap = n; }
static void ib_resize(struct hconn *c, size_t n) { __CPROVER_assert(n <= c->ib_cap || n <= 16384, "resize within the reserved capacity"); c->ib_n = n; if(c->ib_cap < n) c->ib_cap = n; }
static size_t read_some_rec(struct hconn *c, bool *e) { size_t n; __CPROVER_assume(n <= c->ib_n); int f; *e = f != 0; if(*e) n = 0; return n; }
static int parser_step_rec(void) { int r; return r; }
static bool psh_rec(char const **name, char const **value) { int ok; if(!ok) return 0; *name = g_hname; *value = g_hvalue; return 1; }
static int name_is_rec(char const *name, char const *lit) { if(name != g_hname) g_hc_bad = 1; int r; return r; }
static long long atoll_rec(char const *v) { if(v != g_hvalue) g_hc_bad = 1; long long r; return r; }
static void env_add2_rec(char const *n, char const *v) { if(v != g_hvalue) g_hc_bad = 1; }
static size_t name_strlen(char const *n) { if(n != g_hname) g_hc_bad = 1; return g_hname_len; }
char g_al_block[4];
static char *pool_alloc_n(size_t n) { g_al_p = g_al_block; g_al_n = n; g_al_used = 0; return g_al_block; }   /* the block is tracked by its logical size */
/* strcpy(dst, literal) / strcat(dst, name): the destination is the block just allocated and must hold literal ++ name ++ NUL */
static void strcpy_lit_rec(char *dst, char const *lit)
{
  size_t l = lit[0] == 0 ? 0 : lit[1] == 0 ? 1 : lit[2] == 0 ? 2 : lit[3] == 0 ? 3 : lit[4] == 0 ? 4 : lit[5] == 0 ? 5 : lit[6] == 0 ? 6 : lit[7] == 0 ? 7 : 8;
  __CPROVER_assert(dst == g_al_p && l < 8 && l + 1 <= g_al_n, "strcpy of the prefix fits the block just allocated");
  g_al_used = l;
}
static void strcat_rec(char *dst, char const *src)
{
  if(src != g_hname) g_hc_bad = 1;
  __CPROVER_assert(dst == g_al_p && g_al_used <= g_al_n && g_hname_len < g_al_n - g_al_used, "strcat of the header name fits the block just allocated (prefix + name + NUL)");
  g_al_used += g_hname_len;
}
/* light, allocation-free versions of the request-line recorders (their values are decided in job http_request_line) */
char g_slot_a[4], g_slot_b[4], g_slot_c[4];
static char *hc_pool_add_range(char const *b, char const *e) { __CPROVER_assert(SAME(b, e) && OFF(b) <= OFF(e), "pool_.add(begin,end) is given an ordered range of one object"); int w; return w ? g_slot_a : g_slot_b; }
static char *hc_pool_add_str(char const *p) { return g_slot_c; }
static void hc_env_add(int key, char const *v) { }
static int hc_strcmp(char const *p, char const *l) { int r; return r; }
#define HC_IB_EMPTY(c) ((c)->ib_n == 0 || (c)->input_body_ptr_ == (c)->ib_n)
'''
functions = [
    dict(cname='http_parser_step', file=H, locate=r'int step\(\)', sig='int http_parser_step(struct hparser *self)', members=['state_', 'bracket_counter_'],
         rename={'getc': 'p_getc', 'ungetc': 'p_ungetc'},
         rewrites=[(r'header_\.clear\(\);', 'hdr_clear();', 2), (r'header_\.resize\(header_\.size\(\)\s*-\s*(\w)\);', r'hdr_resize(g_hdr_len - \1);', 2), (r'header_\+=char\(c\);', 'hdr_put((char)c);', 1)],
         loops={0: '''__CPROVER_assigns(self->state_, self->bracket_counter_, g_in_pos, g_ungot, g_ungot_c, g_getc_calls, g_hdr_len, g_hdr_last, g_hdr_prev)
__CPROVER_loop_invariant(HP_INV(self) && g_in_pos <= g_in_n && !g_hdr_underflow && g_in_pos >= g_p0 && (g_ungot ==> (g_u0 == 1 && g_in_pos == g_p0 && self->state_ == idle)) &&
      g_hdr_len + (g_ungot ? 1 : 0) <= g_h0 + (g_in_pos - g_p0) + g_u0)
__CPROVER_decreases(g_in_n - g_in_pos + (g_ungot ? 1 : 0))'''},
         body_ghost='g_h0 = g_hdr_len; g_p0 = g_in_pos; g_c0 = g_getc_calls; g_u0 = g_ungot ? 1 : 0;',
         contract=r'''
__CPROVER_requires(__CPROVER_rw_ok(self, sizeof(*self)) && HP_INV(self) && g_in_n <= BUF_CAP && __CPROVER_r_ok(g_in, g_in_n) && g_in_pos <= g_in_n && g_hdr_len <= BUF_CAP && !g_hdr_underflow && g_getc_calls <= BUF_CAP &&
                   (g_ungot ==> self->state_ == idle))
__CPROVER_assigns(self->state_, self->bracket_counter_, g_in_pos, g_ungot, g_ungot_c, g_getc_calls, g_hdr_len, g_hdr_last, g_hdr_prev, g_h0, g_p0, g_c0, g_u0)
/* C02: for ANY bytes the header string never underflows, the bracket counter never wraps, the cursor stays inside the input */
__CPROVER_ensures(!g_hdr_underflow && g_in_pos <= g_in_n)
__CPROVER_ensures(__CPROVER_return_value >= more_data && __CPROVER_return_value <= error_observerd)
/* C01 (segmentation independence): "need more data" is returned exactly at the end of the available input with a well-formed carried state
   (state_, bracket_counter_, header_): the transition function reads nothing else, so cutting the stream anywhere gives the same sequence of results */
__CPROVER_ensures(__CPROVER_return_value == more_data ==> (g_in_pos == g_in_n && !g_ungot && HP_INV(self)))
__CPROVER_ensures(__CPROVER_return_value == got_header ==> (self->state_ == idle && self->bracket_counter_ == 0))
'''),
    dict(cname='proto_separator', file=HP, locate=lit('inline bool separator(char c)'), sig='bool proto_separator(char c)',
         contract='__CPROVER_assigns()\n/* RFC 2616 2.2 separators */\n__CPROVER_ensures(__CPROVER_return_value == (IS_SEP(c) ? 1 : 0))'),
    dict(cname='proto_tocken', file=HP, locate=lit('It tocken(It begin,It end)'), sig='char const *proto_tocken(char const *begin, char const *end)', rename={'separator': 'proto_separator'},
         loops={0: '__CPROVER_assigns(begin, c)\n__CPROVER_loop_invariant(IN_RANGE(begin, __CPROVER_loop_entry(begin), end) && (g_pk < OFF(begin) - OFF(__CPROVER_loop_entry(begin)) ==> IS_TOKCH((__CPROVER_loop_entry(begin))[g_pk])))\n__CPROVER_decreases(OFF(end) - OFF(begin))'},
         contract='__CPROVER_requires(VALID_RANGE(begin, end) && OFF(end) - OFF(begin) <= BUF_CAP)\n__CPROVER_assigns()\n'
                  '/* the longest prefix of token characters */\n'
                  '__CPROVER_ensures(IN_RANGE(__CPROVER_return_value, begin, end) && (g_pk < OFF(__CPROVER_return_value) - OFF(begin) ==> IS_TOKCH(begin[g_pk])) && (__CPROVER_return_value == end || !IS_TOKCH(*__CPROVER_return_value)))'),
    dict(cname='proto_skip_ws', file=HP, locate=lit('It skip_ws(It p,It end)'), sig='char const *proto_skip_ws(char const *p, char const *end)',
         loops={0: '__CPROVER_assigns(p)\n__CPROVER_loop_invariant(IN_RANGE(p, __CPROVER_loop_entry(p), end) && (g_pk < OFF(p) - OFF(__CPROVER_loop_entry(p)) ==> ((__CPROVER_loop_entry(p))[g_pk] == 0x20 || (__CPROVER_loop_entry(p))[g_pk] == 0x09 || (__CPROVER_loop_entry(p))[g_pk] == 0x0d || (__CPROVER_loop_entry(p))[g_pk] == 0x0a)))\n__CPROVER_decreases(OFF(end) - OFF(p))'},
         contract='/* callers pass ranges inside NUL-terminated strings: one more byte is addressable after `end`, so `p+2` in the LWS test never goes beyond one-past-the-end (observation: without that byte the comparison would be undefined) */\n__CPROVER_requires(VALID_RANGE(p, end) && OFF(end) - OFF(p) <= BUF_CAP && __CPROVER_r_ok(p, OFF(end) - OFF(p) + 1))\n__CPROVER_assigns()\n'
                  '/* skips SP, HT and line continuations (CR LF followed by SP/HT) only, and stops at the first byte that is none of these */\n'
                  '__CPROVER_ensures(IN_RANGE(__CPROVER_return_value, p, end) && (g_pk < OFF(__CPROVER_return_value) - OFF(p) ==> (p[g_pk] == 0x20 || p[g_pk] == 0x09 || p[g_pk] == 0x0d || p[g_pk] == 0x0a)) && '
                  '(__CPROVER_return_value == end || (*__CPROVER_return_value != 0x20 && *__CPROVER_return_value != 0x09)))'),
    dict(cname='http_header_name_step', file=HA, locate=lit('virtual bool parse_single_header(std::string const &header,char const *&o_name,char const *&o_value)'),
         sig='void http_header_name_step(char *name, unsigned i)', slice=dict(loop=0, after=r'\A', tail=''),
         contract='/* one step of the name normalisation loop of parse_single_header (the loop body, extracted as it stands) */\n'
                  '__CPROVER_requires(__CPROVER_rw_ok(name + i, 1))\n__CPROVER_assigns(name[i])\n'
                  '/* CGI convention: \'-\' becomes \'_\', EVERY lower-case letter a..z becomes upper case, everything else is kept */\n'
                  '__CPROVER_ensures(name[i] == CGI_NORM(__CPROVER_old(name[i])))'),
    dict(cname='http_parse_single_header', file=HA, locate=lit('virtual bool parse_single_header(std::string const &header,char const *&o_name,char const *&o_value)'),
         sig='bool http_parse_single_header(char const *header_p, size_t header_n, char const **o_name, char const **o_value)', refs=['o_name', 'o_value'],
         rewrites=[(r'header\.c_str\(\)', 'header_p', 1), (r'header\.size\(\)', 'header_n', 1), (r'cppcms::http::protocol::skip_ws\(', 'proto_skip_ws(', 3), (r'cppcms::http::protocol::tocken\(', 'proto_tocken(', 1),
                   (r'pool_\.alloc\(', 'pool_alloc(', 2), (r'\*std::copy\(', '*copy_range(', 2)],
         loops={0: '''__CPROVER_assigns(i, __CPROVER_object_whole(name))
__CPROVER_loop_invariant(i <= name_size && name_size >= 1 && name_size <= BUF_CAP && name[name_size] == 0 && (g_pk < name_size ==> name[g_pk] == (g_pk < i ? CGI_NORM(g_cp_src[0][g_pk]) : g_cp_src[0][g_pk])))
__CPROVER_decreases(name_size - i)'''},
         contract=r'''
__CPROVER_requires(header_n <= BUF_CAP && __CPROVER_r_ok(header_p, header_n + 1) && header_p[header_n] == 0 && __CPROVER_w_ok(o_name, sizeof(*o_name)) && __CPROVER_w_ok(o_value, sizeof(*o_value)) && g_cp_calls == 0)
__CPROVER_assigns(*o_name, *o_value, g_cp_calls, __CPROVER_object_whole(g_cp_src), __CPROVER_object_whole(g_cp_dst), __CPROVER_object_whole(g_cp_n), g_alloc_n, g_alloc_p)
/* C01: "Name: value" -> the CGI variable name is the header's token, upper-cased with '-' -> '_', nothing more and nothing less; the value is the rest of the line after the colon and
   leading white space, verbatim up to the end of the header; both are NUL-terminated copies (C02: every copy fits its allocation - asserted in the copy model) */
__CPROVER_ensures(__CPROVER_return_value ==> (g_cp_calls == 2 && *o_name == g_cp_dst[0] && *o_value == g_cp_dst[1] && g_cp_n[0] >= 1 &&
                  SAME(g_cp_src[0], header_p) && SAME(g_cp_src[1], header_p) && OFF(g_cp_src[0]) >= OFF(header_p) && OFF(g_cp_src[0]) + g_cp_n[0] < OFF(g_cp_src[1]) &&
                  OFF(g_cp_src[1]) + g_cp_n[1] == OFF(header_p) + header_n))
__CPROVER_ensures(__CPROVER_return_value ==> ((*o_name)[g_cp_n[0]] == 0 && (*o_value)[g_cp_n[1]] == 0 && (g_pk < g_cp_n[0] ==> (IS_TOKCH(g_cp_src[0][g_pk]) && (*o_name)[g_pk] == CGI_NORM(g_cp_src[0][g_pk]))) &&
                  (g_pk < g_cp_n[1] ==> (*o_value)[g_pk] == g_cp_src[1][g_pk])))
'''),
    dict(stub=True, cname='find_ch', sig='char const *find_ch(char const *b, char const *e, char c)',
         contract='/* std::find on a char range: the first position holding c, or e; each of the (two) calls is observed at its own arbitrary ghost index and records where it stopped */\n__CPROVER_requires(VALID_RANGE(b, e) && g_fc >= 0 && g_fc < 100)\n__CPROVER_assigns(g_fc, g_f_off0, g_f_off1)\n'
                  '__CPROVER_ensures(IN_RANGE(__CPROVER_return_value, b, e) && ((__CPROVER_old(g_fc) == 0 ? g_ga : g_gr) < OFF(__CPROVER_return_value) - OFF(b) ==> b[__CPROVER_old(g_fc) == 0 ? g_ga : g_gr] != c) && (__CPROVER_return_value == e || *__CPROVER_return_value == c))\n'
                  '__CPROVER_ensures(g_fc == __CPROVER_old(g_fc) + 1 && g_f_off0 == (__CPROVER_old(g_fc) == 0 ? OFF(__CPROVER_return_value) : __CPROVER_old(g_f_off0)) && g_f_off1 == (__CPROVER_old(g_fc) == 1 ? OFF(__CPROVER_return_value) : __CPROVER_old(g_f_off1)))'),
    dict(cname='http_request_line', file=HA, locate=lit('virtual void some_headers_data_read(booster::system::error_code const &er,handler const &h)'),
         sig='void http_request_line(struct hreq *self, char const *hdr_p, size_t hdr_n)', members=['request_method_', 'request_uri_', 'is_http_11_', 'first_header_observerd_'],
         slice=dict(between=(r'first_header_observerd_=true;\s*char const \*header_begin', r'BOOSTER_INFO\("cppcms_http"\)[^;]*;\s*\}\s*else \{[^}]*\}'), tail=''),
         rewrites=[(r'input_parser_\.header_\.c_str\(\)', 'hdr_p', 1), (r'input_parser_\.header_\.size\(\)', 'hdr_n', 1), (r'std::find\(', 'find_ch(', 1),
                   (r'pool_\.add\(([^,()]+),([^,()]+)\)', r'pool_add_range(\1, \2)', 0), (r'pool_\.add\((\w+)\)', r'pool_add_str(\1)', 0), (r'env_\.add\("(\w+)",', r'env_add_rec(K_\1,', 0),
                   (r'strcmp\((\w+),("[^"]*")\)', r'strcmp_rec(\1, \2)', 0), (r'BOOSTER_INFO\("cppcms_http"\)[^;]*;', '', 1),
                   (r'h\(booster::system::error_code\(errc::protocol_violation,cppcms_category\)\);', 'h_protocol_violation();', 0)],
         contract=r'''
__CPROVER_requires(__CPROVER_rw_ok(self, sizeof(*self)) && hdr_n <= BUF_CAP && __CPROVER_r_ok(hdr_p, hdr_n + 1) && hdr_p[hdr_n] == 0 && g_pa_calls == 0 && g_ps_calls == 0 && g_env_calls == 0 && g_err_calls == 0 && g_sc_calls == 0 && g_fc == 0)
__CPROVER_assigns(g_fc, g_f_off0, g_f_off1, self->request_method_, self->request_uri_, self->is_http_11_, self->first_header_observerd_, g_pa_calls, __CPROVER_object_whole(g_pa_src), __CPROVER_object_whole(g_pa_n), __CPROVER_object_whole(g_pa_ret),
                  g_ps_calls, g_ps_src, g_ps_ret, g_env_calls, g_env_key, g_env_val, g_err_calls, g_sc_calls, g_sc_arg, g_sc_eq)
/* C01: either the request line is split at its first two spaces -- method = the bytes before the first, URI = the bytes between the first and the second (both without any space),
   protocol = everything after the second, HTTP/1.1 recognised by an exact comparison -- */
__CPROVER_ensures(g_err_calls == 0 ==> (g_pa_calls == 2 && g_pa_src[0] == hdr_p && g_pa_n[0] < hdr_n && hdr_p[g_pa_n[0]] == ' ' && (g_ga < g_pa_n[0] ==> hdr_p[g_ga] != ' ') &&
                  g_pa_src[1] == hdr_p + g_pa_n[0] + 1 && g_pa_n[0] + 1 + g_pa_n[1] < hdr_n && hdr_p[g_pa_n[0] + 1 + g_pa_n[1]] == ' ' && (g_gr < g_pa_n[1] ==> hdr_p[g_pa_n[0] + 1 + g_gr] != ' ') &&
                  self->request_method_ == g_pa_ret[0] && self->request_uri_ == g_pa_ret[1] &&
                  g_ps_calls == 1 && g_ps_src == hdr_p + g_pa_n[0] + g_pa_n[1] + 2 && g_env_calls == 1 && g_env_key == K_SERVER_PROTOCOL && g_env_val == g_ps_ret &&
                  g_sc_calls == 1 && g_sc_arg == g_ps_src && self->is_http_11_ == g_sc_eq && self->first_header_observerd_))
/* ... or it is refused as a protocol violation, which happens only when the line has fewer than two spaces (none before position s1 = OFF0 and none after it, observed at two arbitrary positions), and then nothing is recorded */
__CPROVER_ensures(g_err_calls != 0 ==> (g_err_calls == 1 && g_pa_calls == 0 && g_ps_calls == 0 && g_env_calls == 0 && g_f_off0 >= OFF(hdr_p) && g_f_off0 - OFF(hdr_p) <= hdr_n &&
                  (g_ga < g_f_off0 - OFF(hdr_p) ==> hdr_p[g_ga] != ' ') && (g_f_off0 - OFF(hdr_p) < hdr_n ==> (g_gr < hdr_n - (g_f_off0 - OFF(hdr_p)) - 1 ==> hdr_p[g_f_off0 - OFF(hdr_p) + 1 + g_gr] != ' '))))
'''),
    dict(stub=True, cname='verif_strchr', sig='char *verif_strchr(char *p, int c)',
         contract='/* C strchr on the request URI: the first position holding c before the NUL, or NULL (arbitrary ghost index) */\n__CPROVER_requires(p == g_U && c != 0)\n__CPROVER_assigns()\n'
                  '__CPROVER_ensures(__CPROVER_return_value == NULL ? (g_ga < g_Un ==> p[g_ga] != c) : (SAME(__CPROVER_return_value, p) && UOFF(__CPROVER_return_value) < g_Un && *__CPROVER_return_value == c && (g_ga < UOFF(__CPROVER_return_value) ==> p[g_ga] != c)))'),
    dict(stub=True, cname='verif_memcmp2', sig='int verif_memcmp2(char const *a, char const *b, size_t n)',
         contract='/* C11 memcmp: 0 only if the n bytes are equal (arbitrary ghost index) */\n__CPROVER_requires(n <= BUF_CAP && __CPROVER_r_ok(a, n) && __CPROVER_r_ok(b, n))\n__CPROVER_assigns()\n'
                  '__CPROVER_ensures(__CPROVER_return_value == 0 ==> (g_pk < n ==> a[g_pk] == b[g_pk]))'),
    dict(cname='http_uri_split', file=HA, locate=lit('virtual void process_request(handler const &h)'),
         sig='void http_uri_split(struct hreq2 *self)', members=['request_uri_', 'env_query_string_', 'env_script_name_', 'env_path_info_'],
         slice=dict(between=(r"if\(request_uri_\[0\]", r'env_\.add\("PATH_INFO",env_path_info_\);'), tail=''),
         rename={'strchr': 'verif_strchr', 'memcmp': 'verif_memcmp2', 'strlen': 'path_strlen'},
         rewrites=[(r'error_response\("[^"]*",h\);', 'error_response_rec();', 0), (r'non_const_empty_string', 'nce_string', 1),
                   (r'pool_\.add\(request_uri_,([^;]+)\);', r'pool_add_len(request_uri_, \1);', 0), (r'env_\.add\("(\w+)",', r'env_add_rec2(K_\1,', 0),
                   (r'std::vector<std::string> const &script_names =\s*service\(\)\.cached_settings\(\)\.http\.script_names;', '', 1), (r'script_names\.size\(\)', 'g_sn_n', 1),
                   (r'std::string const &name=script_names\[(\w+)\];', r'size_t name = \1;', 1), (r'name\.size\(\)', 'sn_size(name)', 1), (r'name\.c_str\(\)', 'sn_ptr(name)', 1),
                   (r'pool_\.add\(name\)', 'pool_add_name(name)', 0), (r'pool_\.add\(util::urldecode\((\w+),([^;]+)\)\);', r'pool_add_decoded(\1, \2);', 0)],
         loops={0: r'''
__CPROVER_assigns(i, path, self->env_script_name_, g_seen_sk, g_sn_calls, g_sn_chosen, g_sn_ret, g_envs_calls, g_envs_val, g_envx_calls)
__CPROVER_loop_invariant(i <= g_sn_n && path == g_U && g_sn_calls == 0 && g_envs_calls == 0 && g_envx_calls == 0 && ((g_sk < i && g_sk < g_sn_n) ==> g_seen_sk))
__CPROVER_decreases(g_sn_n - i)'''},
         contract=r'''
__CPROVER_requires(__CPROVER_rw_ok(self, sizeof(*self)) && self->request_uri_ == g_U && g_Un <= BUF_CAP && __CPROVER_rw_ok(g_U, g_Un + 1) && g_U[g_Un] == 0 && g_end_off == OFF(g_U) + g_Un && g_sn_n <= 200 &&
                   __CPROVER_r_ok(g_names, (size_t)g_sn_n * SNMAX) && __CPROVER_r_ok(g_name_len, (size_t)g_sn_n * sizeof(size_t)) &&
                   g_400 == 0 && g_envq_calls == 0 && g_envs_calls == 0 && g_envp_calls == 0 && g_envx_calls == 0 && g_sn_calls == 0 && g_ud_calls == 0 && g_cp_len_calls == 0 && !g_seen_sk)
__CPROVER_assigns(self->env_query_string_, self->env_script_name_, self->env_path_info_, g_end_off, g_cp_len_calls, g_cp_len_n, g_cp_len_src, g_400, g_envq_calls, g_envs_calls, g_envp_calls, g_envx_calls, g_envq_val, g_envs_val, g_envp_val,
                  g_sn_calls, g_sn_chosen, g_sn_ret, g_ud_calls, g_ud_b, g_ud_e, g_ud_ret, g_seen_sk)
/* C01: a URI that does not start with '/' is refused and nothing is published */
__CPROVER_ensures((g_400 != 0) == (g_U[0] != '/'))
__CPROVER_ensures(g_400 != 0 ==> (g_envq_calls == 0 && g_envs_calls == 0 && g_envp_calls == 0 && g_envx_calls == 0))
/* QUERY_STRING is exactly what follows the FIRST '?' (absent when there is none); the path is what precedes it */
__CPROVER_ensures(g_400 == 0 ==> (g_envx_calls == 0 && g_envp_calls == 1 && g_ud_calls == 1 && g_envp_val == g_ud_ret && self->env_path_info_ == g_ud_ret && SAME(g_ud_b, g_U) && SAME(g_ud_e, g_U) && OFF(g_ud_e) == g_end_off &&
                  (g_envq_calls == 0 ? (g_end_off == OFF(g_U) + g_Un && (g_ga < g_Un ==> g_U[g_ga] != '?'))
                                     : (g_envq_calls == 1 && g_end_off < OFF(g_U) + g_Un && g_U[g_end_off - OFF(g_U)] == '?' && (g_ga < g_end_off - OFF(g_U) ==> g_U[g_ga] != '?') &&
                                        g_envq_val == g_U + (g_end_off - OFF(g_U)) + 1 && self->env_query_string_ == g_envq_val))))
/* SCRIPT_NAME is a configured name that is a byte prefix of the path ending on a segment boundary, and PATH_INFO is the percent-decoded REST of the path;
   without such a name (every configured name was tried) PATH_INFO is the whole decoded path */
__CPROVER_ensures((g_400 == 0 && g_sn_calls != 0) ==> (g_sn_calls == 1 && g_envs_calls == 1 && g_envs_val == g_sn_ret && self->env_script_name_ == g_sn_ret && g_sn_chosen < g_sn_n &&
                  UOFF(g_ud_b) == g_name_len[g_sn_chosen] % SNMAX && OFF(g_ud_b) <= g_end_off && (g_pk < UOFF(g_ud_b) ==> g_U[g_pk] == g_names[g_sn_chosen * SNMAX + g_pk]) &&
                  (OFF(g_ud_b) == g_end_off || *g_ud_b == '/')))
__CPROVER_ensures((g_400 == 0 && g_sn_calls == 0) ==> (g_envs_calls == 0 && g_ud_b == g_U && (g_sk < g_sn_n ==> g_seen_sk)))
'''),
    dict(cname='http_async_read_some', file=HA, locate=lit('virtual void async_read_some(void *p,size_t s,io_handler const &h)'),
         sig='void http_async_read_some(struct hbody *self, void *p, size_t s)', members=['input_body_ptr_'], rename={'memcpy': 'copy_obs'},
         rewrites=[(r'update_time\(\);', 'update_time_rec();', 0), (r'input_body_\.size\(\)', 'self->ib_n', 1), (r'input_body_\.clear\(\)', 'self->ib_n = 0', 0), (r'!input_body_\.empty\(\)', '(self->ib_n != 0)', 0),
                   (r'&input_body_\[([\w>-]+)\]', r'(self->ib_p + \1)', 0), (r'socket_\.get_io_service\(\)\.post\(h,booster::system::error_code\(\),(\w+)\);', r'post_rec(\1);', 0),
                   (r'(?s)if\(input_body_\.capacity\(\)[^{]*\{[^}]*\}', 'ib_release_rec();', 0), (r'socket_\.async_read_some\(io::buffer\((\w+),(\w+)\),h\);', r'sock_async_read_rec(\1, \2);', 0)],
         contract=r'''
__CPROVER_requires(__CPROVER_rw_ok(self, sizeof(*self)) && self->ib_n <= BUF_CAP && self->input_body_ptr_ <= self->ib_n && __CPROVER_r_ok(self->ib_p, self->ib_n) && s <= BUF_CAP && __CPROVER_w_ok(p, s) &&
                   g_post_calls == 0 && g_sock_calls == 0 && g_cpy_calls == 0 && self->ib_n == g_n0 && self->input_body_ptr_ == g_pt0 && self->ib_p == g_ibp)
__CPROVER_assigns(self->ib_n, self->input_body_ptr_, g_post_calls, g_post_n, g_sock_calls, g_sock_p, g_sock_n, g_cpy_calls, g_cpy_src, g_cpy_dst, g_cpy_n, g_rel_calls; g_pk < s: ((char *)p)[g_pk])
/* C01: while buffered input is left, exactly the NEXT min(left, s) buffered bytes are delivered, in order, the cursor advances by that amount (the buffer is dropped when it is used up),
   and the socket is not touched; only with nothing buffered the read goes to the socket, for the caller's buffer and size */
__CPROVER_ensures((g_n0 - g_pt0) != 0 ==> (g_sock_calls == 0 && g_post_calls == 1 &&
                  g_post_n == ((g_n0 - g_pt0) < s ? (g_n0 - g_pt0) : s) &&
                  (g_post_n != 0 ==> (g_cpy_calls == 1 && g_cpy_dst == p && g_cpy_n == g_post_n && g_cpy_src == g_ibp + g_pt0)) &&
                  (g_pt0 + g_post_n == g_n0 ? (self->ib_n == 0 && self->input_body_ptr_ == 0)
                                                                                                : (self->ib_n == g_n0 && self->input_body_ptr_ == g_pt0 + g_post_n))))
__CPROVER_ensures((g_n0 - g_pt0) == 0 ==> (g_post_calls == 0 && g_cpy_calls == 0 && g_sock_calls == 1 && g_sock_p == p && g_sock_n == s && self->ib_n == 0 && self->input_body_ptr_ == 0))
'''),
    dict(stub=True, cname='find_ch2', sig='char const *find_ch2(char const *b, char const *e, char c)',
         contract='/* std::find: some position of the range (what it finds is decided in job http_request_line) */\n__CPROVER_requires(VALID_RANGE(b, e))\n__CPROVER_assigns()\n__CPROVER_ensures(IN_RANGE(__CPROVER_return_value, b, e))'),
    dict(cname='http_headers_read', file=HA, locate=lit('virtual void some_headers_data_read(booster::system::error_code const &er,handler const &h)'),
         sig='void http_headers_read(struct hconn *self, bool er)', members=['first_header_observerd_', 'total_read_', 'input_body_ptr_', 'request_method_', 'request_uri_', 'is_http_11_', 'env_content_length_', 'env_content_type_'],
         rewrites=[(r'h\(er\)', 'hc_h_rec(1)', 1), (r'h\(e\)', 'hc_h_rec(1)', 0), (r'h\(booster::system::error_code\((?:[^()]|\([^()]*\))*\)\);', 'hc_h_rec(2);', 0),
                   (r'input_buffer_empty\(\)', 'HC_IB_EMPTY(self)', 1), (r'booster::system::error_code e;', 'bool e = 0;', 0), (r'socket_\.bytes_readable\(e\)', 'bytes_readable_rec(&e)', 0),
                   (r'input_body_\.capacity\(\)', 'self->ib_cap', 0), (r'input_body_\.reserve\(', 'ib_reserve(self, ', 0), (r'input_body_\.resize\(([^;,]+),\w\);', r'ib_resize(self, \1);', 0), (r'input_body_\.resize\(([^;,]+)\);', r'ib_resize(self, \1);', 0),
                   (r'socket_\.read_some\(booster::aio::buffer\(input_body_\),e\)', 'read_some_rec(self, &e)', 0), (r'input_body_\.size\(\)', 'self->ib_n', 0),
                   (r'using ::cppcms::http::impl::parser;', '', 1), (r'parser::(\w+)', r'P_\1', 4), (r'input_parser_\.step\(\)', 'parser_step_rec()', 1),
                   (r'async_read_some_headers\(h\)', 'hc_again_rec(self)', 0), (r'process_request\(h\)', 'hc_process_request_rec()', 0),
                   # request line block: the same vocabulary as the slice job http_request_line
                   (r'input_parser_\.header_\.c_str\(\)', 'g_line_p', 0), (r'input_parser_\.header_\.size\(\)', 'g_line_n', 0), (r'std::find\(', 'find_ch2(', 0),
                   (r'pool_\.add\(([^,()]+),([^,()]+)\)', r'hc_pool_add_range(\1, \2)', 0), (r'pool_\.add\((\w+)\)', r'hc_pool_add_str(\1)', 0), (r'env_\.add\("(\w+)",', r'hc_env_add(K_\1,', 0),
                   (r'strcmp\(name,("[^"]*")\)', r'name_is_rec(name, \1)', 0), (r'strcmp\((\w+),("[^"]*")\)', r'hc_strcmp(\1, \2)', 0), (r'BOOSTER_INFO\("cppcms_http"\)[^;]*;', '', 0),
                   # other headers
                   (r'parse_single_header\(input_parser_\.header_,name,value\)', 'psh_rec(&name, &value)', 0), (r'env_\.add\((\w+),(\w+)\)', r'env_add2_rec(\1, \2)', 0), (r'\batoll\(', 'atoll_rec(', 0),
                   (r'pool_\.alloc\(', 'pool_alloc_n(', 0), (r'strlen\(name\)', 'name_strlen(name)', 0), (r'strcpy\((\w+),("[^"]*")\)', r'strcpy_lit_rec(\1, \2)', 0), (r'strcat\((\w+),(\w+)\)', r'strcat_rec(\1, \2)', 0)],
         loops={0: r'''
__CPROVER_assigns(self->first_header_observerd_, self->request_method_, self->request_uri_, self->is_http_11_, self->env_content_length_, self->env_content_type_, g_hc_h, g_hc_h_kind, g_hc_again, g_again_total, g_hc_pr, g_hc_bad, g_al_p, g_al_n, g_al_used)
__CPROVER_loop_invariant(g_hc_h == 0 && g_hc_again == 0 && g_hc_pr == 0 && g_hc_bad == 0)
'''},
         contract=r'''
__CPROVER_requires(__CPROVER_rw_ok(self, sizeof(*self)) && g_hc_h == 0 && g_hc_again == 0 && g_hc_pr == 0 && g_hc_bad == 0 &&
                   self->ib_n <= 16384 && self->ib_cap >= self->ib_n && self->ib_cap <= 16384 && self->input_body_ptr_ <= self->ib_n && self->total_read_ <= 40000 &&
                   g_line_n <= BUF_CAP && __CPROVER_r_ok(g_line_p, g_line_n + 1) && g_line_p[g_line_n] == 0 && g_hname_len <= BUF_CAP && __CPROVER_r_ok(g_hname, g_hname_len + 1) && __CPROVER_r_ok(g_hvalue, 1))
__CPROVER_assigns(self->first_header_observerd_, self->total_read_, self->input_body_ptr_, self->ib_n, self->ib_cap, self->request_method_, self->request_uri_, self->is_http_11_, self->env_content_length_, self->env_content_type_,
                  g_hc_h, g_hc_h_kind, g_hc_again, g_again_total, g_hc_pr, g_hc_bad, g_al_p, g_al_n, g_al_used)
/* C02: exactly one continuation per invocation, whatever arrived */
__CPROVER_ensures(g_hc_h + g_hc_again + g_hc_pr == 1 && g_hc_bad == 0)
/* a failed read is reported and nothing else happens */
__CPROVER_ensures(er ==> (g_hc_h == 1 && g_hc_h_kind == 1))
/* more header bytes are requested only while at most 16 KiB were read for this request: the header memory a peer can make the server hold is bounded */
__CPROVER_ensures(g_hc_again == 1 ==> g_again_total <= 16384)
'''),
]
PRE += 'size_t g_h0, g_p0, g_c0, g_u0;\n'

REPLAYH = dict(replay='c01http:requests', replay_link=['-fno-access-control', '-L{BUILD}', '-lcppcms', '-L{BUILD}/booster', '-lbooster', '-lpthread'], replay_exhaustive='1500 generated requests (6 methods, configured / unconfigured script prefixes, percent-escaped path segments, query strings with a second ?, HTTP/1.0 and 1.1, mixed-case header names, blank runs after the colon, folded, quoted and commented values, bodies of 0..300 bytes with CR LF / NUL) x segmentations (one piece, byte by byte, every two-way split of the head, 6 random multi-splits): the REAL class http reads them from a loopback TCP connection; CGI environment and body compared with what was encoded')
jobs = [
    dict(name='http_parser_step', props=P, **REPLAYH, enforce='http_parser_step', harness=r'''
    SYM_BUF(char, in, n, BUF_CAP); size_t pos, hl, gc; __CPROVER_assume(pos <= n && hl <= BUF_CAP && gc <= BUF_CAP);
    g_in = in; g_in_n = n; g_in_pos = pos; g_hdr_len = hl; g_getc_calls = gc; g_hdr_underflow = 0;
    char a, b; g_hdr_last = a; g_hdr_prev = b; bool u; int uc; g_ungot = u; g_ungot_c = uc;
    struct hparser p;
    http_parser_step(&p); VERIF_REACH;'''),
    dict(name='proto_separator', props=P, **REPLAYH, enforce='proto_separator', harness='char c; proto_separator(c); VERIF_REACH;'),
    dict(name='proto_tocken', props=P, **REPLAYH, enforce='proto_tocken', replace=['proto_separator'], harness='SYM_BUF(char, b, n, BUF_CAP); size_t k; g_pk = k; proto_tocken(b, b + n); VERIF_REACH;'),
    dict(name='proto_skip_ws', props=P, **REPLAYH, enforce='proto_skip_ws', harness='size_t n, k; __CPROVER_assume(n <= BUF_CAP); char *b = malloc(n + 1); __CPROVER_assume(b != NULL); g_pk = k; proto_skip_ws(b, b + n); VERIF_REACH;'),
    dict(name='http_header_name_step', props=P, **REPLAYH, enforce='http_header_name_step', harness='char nm[8]; unsigned i; __CPROVER_assume(i < 8); http_header_name_step(nm, i); VERIF_REACH;'),
    dict(name='http_parse_single_header', props=P, tier='thorough', **REPLAYH, enforce='http_parse_single_header', replace=['proto_tocken', 'proto_skip_ws'], per_property=r'.', pp_chunk=10, pp_workers=14, timeout=600, harness=r'''
    size_t n, k; __CPROVER_assume(n <= BUF_CAP); char *b = malloc(n + 1); __CPROVER_assume(b != NULL && b[n] == 0); g_pk = k; g_cp_calls = 0; char const *on, *ov;
    http_parse_single_header(b, n, &on, &ov); VERIF_REACH;'''),
    dict(name='http_request_line', props=P, **REPLAYH, enforce='http_request_line', replace=['find_ch'], harness=r'''
    size_t n, k, a, b2; __CPROVER_assume(n <= BUF_CAP); char *b = malloc(n + 1); __CPROVER_assume(b != NULL && b[n] == 0); g_pk = k; g_ga = a; g_gr = b2; g_fc = 0;
    g_pa_calls = 0; g_ps_calls = 0; g_env_calls = 0; g_err_calls = 0; g_sc_calls = 0; struct hreq r;
    http_request_line(&r, b, n); VERIF_REACH;'''),
    dict(name='http_uri_split', props=P, **REPLAYH, enforce='http_uri_split', replace=['verif_strchr', 'verif_memcmp2'], harness=r'''
    size_t n, k, a, sk; unsigned sn; __CPROVER_assume(n <= BUF_CAP && sn <= 200); char *u = malloc(n + 1); __CPROVER_assume(u != NULL && u[n] == 0); g_pk = k; g_ga = a; g_sk = sk;
    g_U = u; g_Un = n; g_end_off = OFF(u) + n; g_sn_n = sn; g_names = malloc((size_t)sn * SNMAX); g_name_len = malloc((size_t)sn * sizeof(size_t)); __CPROVER_assume(g_names != NULL && g_name_len != NULL);
    g_400 = 0; g_envq_calls = 0; g_envs_calls = 0; g_envp_calls = 0; g_envx_calls = 0; g_sn_calls = 0; g_ud_calls = 0; g_cp_len_calls = 0; g_seen_sk = 0;
    struct hreq2 r; r.request_uri_ = u; r.env_query_string_ = nce_string; r.env_script_name_ = nce_string; r.env_path_info_ = nce_string;
    http_uri_split(&r); VERIF_REACH;'''),
    dict(name='http_async_read_some', props=P, **REPLAYH, enforce='http_async_read_some', harness=r'''
    struct hbody b; size_t n, sz, k; __CPROVER_assume(n <= BUF_CAP && sz <= BUF_CAP); b.ib_p = malloc(n); b.ib_n = n; char *dst = malloc(sz); __CPROVER_assume(b.ib_p != NULL && dst != NULL); g_pk = k;
    g_post_calls = 0; g_sock_calls = 0; g_cpy_calls = 0; g_rel_calls = 0; g_n0 = n; g_pt0 = b.input_body_ptr_; g_ibp = b.ib_p;
    http_async_read_some(&b, dst, sz); VERIF_REACH;'''),
    dict(name='http_headers_read', props=P, **REPLAYH, enforce='http_headers_read', replace=['find_ch2'], timeout=600, harness=r'''
    struct hconn c; c.first_header_observerd_ = 0; size_t ln, nl, a, b2; __CPROVER_assume(ln <= BUF_CAP && nl <= BUF_CAP); char *line = malloc(ln + 1); char *nm = malloc(nl + 1); char *val = malloc(1);
    __CPROVER_assume(line != NULL && nm != NULL && val != NULL && line[ln] == 0); g_line_p = line; g_line_n = ln; g_hname = nm; g_hname_len = nl; g_hvalue = val; g_ga = a; g_gr = b2;
    g_hc_h = 0; g_hc_again = 0; g_hc_pr = 0; g_hc_bad = 0; int er;
    http_headers_read(&c, er != 0); VERIF_REACH;'''),
]

UNIT = dict(
    name='httpparser', pre=PRE, functions=functions, jobs=jobs,
    regions=[dict(name='states', file=H, start=r'enum \{\s*idle,', end=r'\}\s*state_;', rewrites=[(r'\}\s*state_;', '} states_t;', 1), (r'^enum', 'typedef enum', 1)]),
             dict(name='results', file=H, start=r'enum \{ more_data,', end=r'\};')],
    trusted=['httpparser: getc()/ungetc() (input cursor with one byte of push-back: std::stack<char> ungot_ and the two buffer modes) and std::string header_ (length + last two bytes) are stubs (R8/R10)'],
    not_covered={'C01': ['http_api.cpp: REMOTE_ADDR / proxy variables, rewrite rules, body hand-over; that a configured script name that DOES match is chosen (only soundness of the chosen name is under contract)'], 'C02': ['http_api.cpp: error_response / timeouts / watchdog, the write side']},
)
