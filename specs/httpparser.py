# Unit "httpparser" -- header tokeniser state machine of the embedded HTTP server (private/http_parser.h parser::step).  Serves C01, C02.
import sys, os
sys.path.insert(0, os.path.join(os.path.dirname(os.path.abspath(__file__)), '..', 'tools'))
from cxx2c import lit

H = 'private/http_parser.h'
P = ['C01', 'C02']

PRE = r'''
@@REGION:states@@
@@REGION:results@@
struct hparser { states_t state_; unsigned bracket_counter_; };
/* the input (whatever getc() reads from: request buffer or body vector) is a ghost byte string with a cursor; ungetc may push back ONE byte */
char const *g_in; size_t g_in_n, g_in_pos; bool g_ungot; int g_ungot_c; size_t g_getc_calls;
/* header_ (std::string) is a checked sink: length + last two bytes */
size_t g_hdr_len; char g_hdr_last, g_hdr_prev; bool g_hdr_underflow;
static int p_getc(void) { if(g_ungot) { g_ungot = 0; return (unsigned char)g_ungot_c; } if(g_in_pos < g_in_n) return (unsigned char)g_in[g_in_pos++]; return -1; }
static void p_ungetc(int c) { __CPROVER_assert(!g_ungot, "at most one byte is pushed back"); if(g_in_pos > 0) g_in_pos--; else { g_ungot = 1; g_ungot_c = c; } }
static void hdr_clear(void) { g_hdr_len = 0; }
static void hdr_put(char c) { g_hdr_prev = g_hdr_last; g_hdr_last = c; g_hdr_len++; }
/* header_.resize(n): shrinking only; header_.size()-2 must not wrap around */
static void hdr_resize(size_t n) { __CPROVER_assert(n <= g_hdr_len, "header_.resize(size-2) never underflows (the header ends with the CR LF being removed)"); if(n > g_hdr_len) g_hdr_underflow = 1; g_hdr_len = n; }
/* representation invariant of the parser between calls */
#define HP_INV(s) ((s)->state_ >= idle && (s)->state_ <= pass_closing_bracket_expected && g_hdr_len <= BUF_CAP + BUF_CAP + 2 && \
    ((s)->state_ == lf_exptected ==> (g_hdr_len >= 1 && g_hdr_last == '\r')) && \
    ((s)->state_ == space_or_other_exptected ==> (g_hdr_len >= 2 && g_hdr_prev == '\r' && g_hdr_last == '\n')) && \
    (((s)->state_ == closing_bracket_expected || (s)->state_ == pass_closing_bracket_expected) ==> (s)->bracket_counter_ >= 1) && \
    (((s)->state_ != closing_bracket_expected && (s)->state_ != pass_closing_bracket_expected) ==> (s)->bracket_counter_ == 0))
'''

functions = [
    dict(cname='http_parser_step', file=H, locate=r'int step\(\)', sig='int http_parser_step(struct hparser *self)', members=['state_', 'bracket_counter_'],
         rename={'getc': 'p_getc', 'ungetc': 'p_ungetc'},
         rewrites=[(r'header_\.clear\(\);', 'hdr_clear();', 2), (r'header_\.resize\(header_\.size\(\)\s*-\s*(\w)\);', r'hdr_resize(g_hdr_len - \1);', 2), (r'header_\+=char\(c\);', 'hdr_put((char)c);', 1)],
         loops={0: '''__CPROVER_assigns(self->state_, self->bracket_counter_, g_in_pos, g_ungot, g_ungot_c, g_getc_calls, g_hdr_len, g_hdr_last, g_hdr_prev)
__CPROVER_loop_invariant(HP_INV(self) && g_in_pos <= g_in_n && !g_hdr_underflow && g_in_pos >= g_p0 && (g_ungot ==> (g_u0 == 1 && g_in_pos == g_p0 && self->state_ == idle)) &&
      g_hdr_len + (g_ungot ? 1 : 0) <= g_h0 + (g_in_pos - g_p0) + g_u0)
__CPROVER_decreases(g_in_n - g_in_pos + (g_ungot ? 1 : 0))'''},
         body_ghost='g_h0 = g_hdr_len; g_p0 = g_in_pos; g_c0 = g_getc_calls; g_u0 = g_ungot ? 1 : 0;',
         contract=r'''
__CPROVER_requires(__CPROVER_rw_ok(self, sizeof(*self)) && HP_INV(self) && g_in_n <= BUF_CAP && __CPROVER_r_ok(g_in, g_in_n) && g_in_pos <= g_in_n && g_hdr_len <= BUF_CAP && !g_hdr_underflow && g_getc_calls <= BUF_CAP &&
                   (g_ungot ==> self->state_ == idle))
__CPROVER_assigns(self->state_, self->bracket_counter_, g_in_pos, g_ungot, g_ungot_c, g_getc_calls, g_hdr_len, g_hdr_last, g_hdr_prev, g_h0, g_p0, g_c0, g_u0)
/* C02: for ANY bytes the header string never underflows, the bracket counter never wraps, the cursor stays inside the input */
__CPROVER_ensures(!g_hdr_underflow && g_in_pos <= g_in_n)
__CPROVER_ensures(__CPROVER_return_value >= more_data && __CPROVER_return_value <= error_observerd)
/* C01 (segmentation independence): "need more data" is returned exactly at the end of the available input with a well-formed carried state
   (state_, bracket_counter_, header_): the transition function reads nothing else, so cutting the stream anywhere gives the same sequence of results */
__CPROVER_ensures(__CPROVER_return_value == more_data ==> (g_in_pos == g_in_n && !g_ungot && HP_INV(self)))
__CPROVER_ensures(__CPROVER_return_value == got_header ==> (self->state_ == idle && self->bracket_counter_ == 0))
'''),
]
PRE += 'size_t g_h0, g_p0, g_c0, g_u0;\n'

jobs = [
    dict(name='http_parser_step', props=P, enforce='http_parser_step', harness=r'''
    SYM_BUF(char, in, n, BUF_CAP); size_t pos, hl, gc; __CPROVER_assume(pos <= n && hl <= BUF_CAP && gc <= BUF_CAP);
    g_in = in; g_in_n = n; g_in_pos = pos; g_hdr_len = hl; g_getc_calls = gc; g_hdr_underflow = 0;
    char a, b; g_hdr_last = a; g_hdr_prev = b; bool u; int uc; g_ungot = u; g_ungot_c = uc;
    struct hparser p;
    http_parser_step(&p); VERIF_REACH;'''),
]

UNIT = dict(
    name='httpparser', pre=PRE, functions=functions, jobs=jobs,
    regions=[dict(name='states', file=H, start=r'enum \{\s*idle,', end=r'\}\s*state_;', rewrites=[(r'\}\s*state_;', '} states_t;', 1), (r'^enum', 'typedef enum', 1)]),
             dict(name='results', file=H, start=r'enum \{ more_data,', end=r'\};')],
    trusted=['httpparser: getc()/ungetc() (input cursor with one byte of push-back: std::stack<char> ungot_ and the two buffer modes) and std::string header_ (length + last two bytes) are stubs (R8/R10)'],
    not_covered={'C01': ['parse_single_header, request line split, SCRIPT_NAME/PATH_INFO split in http_api.cpp'], 'C02': ['http_api.cpp callbacks (error responses, timeouts)']},
)
