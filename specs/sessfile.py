# Unit "sessfile" -- file-backed session storage (src/session_posix_file_storage.cpp): reader, writer, read_all/write_all,
# timestamp test and the gc name filter.  Serves C18.
import sys, os
sys.path.insert(0, os.path.join(os.path.dirname(os.path.abspath(__file__)), '..', 'tools'))
from cxx2c import lit

F = 'src/session_posix_file_storage.cpp'
P = ['C18']

PRE = r'''
#include <time.h>
#include <errno.h>
/* ---- the file: an arbitrary byte string (this is what "whatever a crash left on disk" means) and a cursor; POSIX regular-file semantics */
char const *g_F; size_t g_F_len; size_t g_pos; time_t g_now; size_t g_k;
uint32_t g_true_crc;          /* CRC-32 of F[16..16+size) -- zlib is external: an arbitrary but fixed value */
char const *g_crc_ptr; size_t g_crc_n; bool g_crc_fed;
char const *g_data_p; size_t g_data_n; bool g_data_set; bool g_timeout_set;
#define SEEK_SET_ 0
static long lseek_stub(int fd, long off, int whence) { g_pos = 0; return 0; }
static time_t time_stub(void) { return g_now; }
static char *vec_alloc(size_t n) { char *p = malloc(n); __CPROVER_assume(p != NULL); return p; }
static void crc_process_bytes(char const *p, size_t n) { g_crc_ptr = p; g_crc_n = n; g_crc_fed = 1; }
static uint32_t crc_checksum(void) { return g_crc_fed ? g_true_crc : 0; }     /* crc32_calc starts at 0 */
static void data_assign(char const *p, size_t n) { g_data_p = p; g_data_n = n; g_data_set = 1; }
static void data_clear(void) { g_data_p = 0; g_data_n = 0; g_data_set = 1; }
#define LE64(p) ((uint64_t)(unsigned char)(p)[0] | ((uint64_t)(unsigned char)(p)[1] << 8) | ((uint64_t)(unsigned char)(p)[2] << 16) | ((uint64_t)(unsigned char)(p)[3] << 24) | \
                 ((uint64_t)(unsigned char)(p)[4] << 32) | ((uint64_t)(unsigned char)(p)[5] << 40) | ((uint64_t)(unsigned char)(p)[6] << 48) | ((uint64_t)(unsigned char)(p)[7] << 56))
#define LE32(p) ((uint32_t)(unsigned char)(p)[0] | ((uint32_t)(unsigned char)(p)[1] << 8) | ((uint32_t)(unsigned char)(p)[2] << 16) | ((uint32_t)(unsigned char)(p)[3] << 24))
/* the first (up to 8) bytes of a transfer of len bytes equal the file bytes at off: scalar header fields are read whole */
#define HEAD8(len, b, off) (((len) < 1 || (b)[0] == g_F[(off)]) && ((len) < 2 || (b)[1] == g_F[(off) + 1]) && ((len) < 3 || (b)[2] == g_F[(off) + 2]) && ((len) < 4 || (b)[3] == g_F[(off) + 3]) && \
     ((len) < 5 || (b)[4] == g_F[(off) + 4]) && ((len) < 6 || (b)[5] == g_F[(off) + 5]) && ((len) < 7 || (b)[6] == g_F[(off) + 6]) && ((len) < 8 || (b)[7] == g_F[(off) + 7]))
#define FILE_OK (g_F_len <= BUF_CAP && __CPROVER_r_ok(g_F, g_F_len) && g_pos <= g_F_len)
'''

PRE += r'''
/* ---- writer: what save_to_file hands to write_all, in which order (the crash model itself -- which prefix of these bytes reaches the disk -- is what the reader contracts quantify over) */
int g_w_calls; unsigned char g_w_hdr[16]; size_t g_w_n[2]; void const *g_w_p[2]; bool g_w_ok[2]; char const *g_wcrc_p; size_t g_wcrc_n; int g_wcrc_calls; uint32_t g_wcrc_val;
static bool write_all_rec(int fd, void const *p, int n)
{
  int c = g_w_calls; if(g_w_calls < 3) g_w_calls++;
  if(c < 2) { g_w_p[c] = p; g_w_n[c] = (size_t)n; if(c == 0 && n == 16) memcpy(g_w_hdr, p, 16); return g_w_ok[c]; }
  return 0;
}
static void wcrc_process(char const *p, size_t n) { if(g_wcrc_calls < 2) g_wcrc_calls++; g_wcrc_p = p; g_wcrc_n = n; }
static uint32_t wcrc_checksum(void) { return g_wcrc_calls == 1 ? g_wcrc_val : 0; }
'''

functions = [
    dict(stub=True, cname='read_stub', sig='int read_stub(int fd, char *buf, int n)',
         contract='/* POSIX read() on a regular file: min(n, bytes left) bytes from the cursor, 0 at end of file; or -1/EINTR with nothing transferred */\n'
                  '__CPROVER_requires(FILE_OK && n > 0 && __CPROVER_w_ok(buf, n))\n'
                  '__CPROVER_assigns(g_pos, verif_errno, __CPROVER_object_upto(buf, n))\n'
                  '__CPROVER_ensures((__CPROVER_return_value == -1 && verif_errno == EINTR && g_pos == __CPROVER_old(g_pos)) || '
                  '(__CPROVER_return_value >= 0 && (size_t)__CPROVER_return_value == ((size_t)n <= g_F_len - __CPROVER_old(g_pos) ? (size_t)n : g_F_len - __CPROVER_old(g_pos)) && '
                  'g_pos == __CPROVER_old(g_pos) + (size_t)__CPROVER_return_value && (g_k < (size_t)__CPROVER_return_value ==> buf[g_k] == g_F[__CPROVER_old(g_pos) + g_k]) && HEAD8((size_t)__CPROVER_return_value, buf, __CPROVER_old(g_pos))))'),
    dict(cname='sf_read_all', file=F, locate=lit('bool session_file_storage::read_all(int fd,void *vbuf,int n)'), sig='bool sf_read_all(int fd, void *vbuf, int n)',
         rewrites=[(r'::read\(', 'read_stub(', 1)],
         body_ghost='g_n0 = n; g_pos0 = g_pos;',
         loops={0: r'''
__CPROVER_assigns(n, g_pos, verif_errno, __CPROVER_object_whole(buf))
__CPROVER_loop_invariant(n <= g_n0 && (g_n0 > 0 ==> n >= 0) && FILE_OK && g_pos0 <= g_pos && g_pos - g_pos0 == (size_t)(g_n0 > 0 ? g_n0 : 0) - (size_t)(n > 0 ? n : 0))
/* a short transfer happens only at end of file (regular file): then the next read returns 0 */
__CPROVER_loop_invariant((n > 0 && n < g_n0) ==> g_pos == g_F_len)
__CPROVER_loop_invariant((n == 0 && g_n0 > 0) ==> ((g_k < (size_t)g_n0 ==> buf[g_k] == g_F[g_pos0 + g_k]) && HEAD8((size_t)g_n0, buf, g_pos0)))
'''},
         contract=r'''
__CPROVER_requires(FILE_OK && (n <= 0 || __CPROVER_w_ok(vbuf, n)))
__CPROVER_assigns(g_pos, verif_errno, __CPROVER_object_whole(vbuf), g_n0, g_pos0)
__CPROVER_ensures(g_pos <= g_F_len && g_pos >= __CPROVER_old(g_pos))
/* true => exactly the next n bytes of the file were delivered and the cursor advanced by n */
__CPROVER_ensures((__CPROVER_return_value && n > 0) ==> ((size_t)n <= g_F_len - __CPROVER_old(g_pos) && g_pos == __CPROVER_old(g_pos) + (size_t)n &&
                  (g_k < (size_t)n ==> ((char *)vbuf)[g_k] == g_F[__CPROVER_old(g_pos) + g_k]) && HEAD8((size_t)n, (char *)vbuf, __CPROVER_old(g_pos))))
__CPROVER_ensures(n <= 0 ==> (__CPROVER_return_value && g_pos == __CPROVER_old(g_pos)))
/* enough bytes left => success (partial correctness: EINTR may repeat) */
__CPROVER_ensures((n > 0 && (size_t)n <= g_F_len - __CPROVER_old(g_pos)) ==> __CPROVER_return_value)
'''),
    dict(cname='sf_read_from_file', file=F, locate=lit('bool session_file_storage::read_from_file(int fd,time_t &timeout,std::string &data)'),
         sig='bool sf_read_from_file(int fd, time_t *timeout)', refs=['timeout'], rename={'read_all': 'sf_read_all', 'time': 'time_stub'},
         rewrites=[(r'::lseek\(fd,\w+,SEEK_SET\);', 'lseek_stub(fd,0,SEEK_SET_);', 1), (r'\btime\(\w\)', 'time_stub()', 1),
                   (r'std::vector<char> buffer\(size,\w\);', 'char *buffer = vec_alloc(size);', 1), (r'impl::crc32_calc crc_calc;', '', 1),
                   (r'&buffer\.front\(\)', 'buffer', 3), (r'crc_calc\.process_bytes\(', 'crc_process_bytes(', 1), (r'crc_calc\.checksum\(\)', 'crc_checksum()', 1),
                   (r'data\.assign\(', 'data_assign(', 1), (r'data\.clear\(\)', 'data_clear()', 1)],
         # ghost: fix the arbitrary index of the payload for the read of the data, and of the header fields for the three header reads
         contract=r'''
/* size fields of 2^31 or more are outside the contract: read_all takes an int (observation: such a header skips the read) */
__CPROVER_requires(FILE_OK && __CPROVER_rw_ok(timeout, sizeof(*timeout)) && !g_crc_fed && !g_data_set && (g_F_len >= 16 ==> LE32(g_F + 12) <= 0x7fffffffu))
__CPROVER_assigns(*timeout, g_pos, verif_errno, g_n0, g_pos0, g_crc_ptr, g_crc_n, g_crc_fed, g_data_p, g_data_n, g_data_set)
/* C18: WHATEVER bytes are in the file (any torn state of any save over any previous state), a successful load means: the file holds
   at least a 16-byte header and `size` payload bytes, the deadline is not in the past, and the checksum that was verified is the one of exactly those payload bytes */
__CPROVER_ensures(__CPROVER_return_value ==> (g_F_len >= 16 && (size_t)LE32(g_F + 12) <= g_F_len - 16 && (int64_t)LE64(g_F) >= (int64_t)g_now && *timeout == (time_t)(int64_t)LE64(g_F)))
__CPROVER_ensures(__CPROVER_return_value ==> (LE32(g_F + 12) > 0 ? (g_crc_fed && g_crc_n == LE32(g_F + 12) && LE32(g_F + 8) == g_true_crc) : LE32(g_F + 8) == 0))
/* the data handed back are the payload bytes (arbitrary ghost index), of exactly the stored length */
__CPROVER_ensures(__CPROVER_return_value ==> (g_data_set && g_data_n == LE32(g_F + 12) && (g_k < g_data_n ==> g_data_p[g_k] == g_F[16 + g_k])))
/* failure leaves the caller's timeout and data untouched */
__CPROVER_ensures(!__CPROVER_return_value ==> (*timeout == __CPROVER_old(*timeout) && !g_data_set))
'''),
    dict(cname='sf_read_timestamp', file=F, locate=lit('bool session_file_storage::read_timestamp(int fd)'), sig='bool sf_read_timestamp(int fd)',
         rename={'read_all': 'sf_read_all'},
         rewrites=[(r'::lseek\(fd,\w+,SEEK_SET\);', 'lseek_stub(fd,0,SEEK_SET_);', 1), (r'::time\(\w\)', 'time_stub()', 1)],
         contract=r'''
__CPROVER_requires(FILE_OK && g_k < 8)
__CPROVER_assigns(g_pos, verif_errno, g_n0, g_pos0)
/* gc removes a file only if this returns false: a live session (complete 8-byte deadline not in the past) is never reported dead */
__CPROVER_ensures((g_F_len >= 8 && (int64_t)LE64(g_F) >= (int64_t)g_now) ==> __CPROVER_return_value)
__CPROVER_ensures(__CPROVER_return_value ==> g_F_len >= 8)
'''),
    dict(cname='sf_save_to_file', file=F, locate=lit('void session_file_storage::save_to_file(int fd,time_t timeout,std::string const &in)'), sig='void sf_save_to_file(int fd, time_t timeout, char const *in_p, size_t in_n)', throw_ret='',
         rewrites=[(r'static_cast<uint32_t>', '(uint32_t)', 0), (r'in\.size\(\)', 'in_n', 1), (r'in\.data\(\)', 'in_p', 1), (r'impl::crc32_calc crc_calc;', '', 1), (r'crc_calc\.process_bytes\(', 'wcrc_process(', 0),
                   (r'crc_calc\.checksum\(\)', 'wcrc_checksum()', 0), (r'\bwrite_all\(', 'write_all_rec(', 0)],
         contract=r'''
__CPROVER_requires(in_n <= 0x7fffffff && verif_thrown == 0 && g_w_calls == 0 && g_wcrc_calls == 0)
__CPROVER_assigns(verif_thrown, g_w_calls, __CPROVER_object_whole(g_w_hdr), __CPROVER_object_whole(g_w_n), __CPROVER_object_whole(g_w_p), g_wcrc_calls, g_wcrc_p, g_wcrc_n)
/* C18: a save writes the 16-byte header {deadline, CRC-32 of exactly the data, size of the data} FIRST and the data SECOND, nothing else; this is the record read_from_file accepts
   (deadline at 0, crc at 8, size at 12, size bytes checksummed); any failed write is reported, never ignored */
__CPROVER_ensures(g_wcrc_calls == 1 && g_wcrc_p == in_p && g_wcrc_n == in_n)
__CPROVER_ensures(g_w_calls >= 1 && g_w_n[0] == 16 && (int64_t)LE64(g_w_hdr) == (int64_t)timeout && LE32(g_w_hdr + 8) == g_wcrc_val && LE32(g_w_hdr + 12) == (uint32_t)in_n)
__CPROVER_ensures(g_w_ok[0] ? (g_w_calls == 2 && g_w_p[1] == in_p && g_w_n[1] == in_n && verif_thrown == !g_w_ok[1]) : (g_w_calls == 1 && verif_thrown))
'''),
]
PRE += 'int g_n0; size_t g_pos0; int verif_errno;\n'

FILE_SETUP = r'''
    size_t fl, k; __CPROVER_assume(fl <= BUF_CAP); WIT_CAP(fl); char *file = malloc(fl); __CPROVER_assume(file != NULL);
    g_F = file; g_F_len = fl; g_k = k; time_t now; g_now = now; uint32_t crc; g_true_crc = crc; g_crc_fed = 0; g_data_set = 0;
    WIT_BUF(0, file, fl); WIT(0, now); WIT(1, crc);
'''
jobs = [
    dict(name='sf_read_all', props=P, enforce='sf_read_all', replace=['read_stub'], harness=FILE_SETUP + r'''
    size_t pos; __CPROVER_assume(pos <= fl); g_pos = pos; int n;
    char *out = malloc(n > 0 ? n : 0); __CPROVER_assume(out != NULL);
    sf_read_all(3, out, n); VERIF_REACH;'''),
    dict(name='sf_read_from_file', props=P, enforce='sf_read_from_file', replace=['sf_read_all'], timeout=600, harness=FILE_SETUP + r'''
    g_pos = 0; time_t t;
    sf_read_from_file(3, &t); VERIF_REACH;''', witness=dict(bufs=['file'], vals=['now', 'crc']), replay='c18:read_from_file', replay_link=['-L{BUILD}', '-lcppcms', '-L{BUILD}/booster', '-lbooster', '-lz']),
    dict(name='sf_read_timestamp', props=P, enforce='sf_read_timestamp', replace=['sf_read_all'], harness=FILE_SETUP + r'''
    __CPROVER_assume(k < 8); g_pos = 0;
    sf_read_timestamp(3); VERIF_REACH;''', witness=dict(bufs=['file'], vals=['now']), replay='c18:read_timestamp', replay_link=['-L{BUILD}', '-lcppcms', '-L{BUILD}/booster', '-lbooster', '-lz']),
    dict(name='sf_save_to_file', props=P, enforce='sf_save_to_file', harness=r'''
    size_t n; __CPROVER_assume(n <= 0x7fffffff); char *d = malloc(n); __CPROVER_assume(d != NULL); time_t to; uint32_t cv; int o0, o1; g_wcrc_val = cv; g_w_ok[0] = o0 != 0; g_w_ok[1] = o1 != 0;
    verif_thrown = 0; g_w_calls = 0; g_wcrc_calls = 0;
    sf_save_to_file(3, to, d, n); VERIF_REACH;'''),
]

UNIT = dict(
    name='sessfile', pre=PRE, functions=functions, jobs=jobs, rename={'errno': 'verif_errno'},
    trusted=['sessfile: POSIX read()/lseek()/time() for a regular file are stubs with assumed contracts (short read only at end of file, EINTR possible); the file is an arbitrary byte string',
             'sessfile: zlib crc32 is external: the CRC of the payload is an arbitrary fixed 32-bit value; "a CRC-consistent (size,data) pair is a value some save wrote" is the CRC-32 collision assumption',
             'sessfile: std::vector<char>(size) is malloc(size); std::string::assign/clear record (pointer,length) in ghosts; little-endian x86-64 layout of the 16-byte header'],
    observations=['a header whose size field is >= 2^31 makes read_all(fd,buf,int(size)) a no-op returning true, so `size` zero bytes would be checksummed instead of file content (needs a matching CRC of zeros in the header; outside the contract)',
                  'read_all/write_all never advance the buffer pointer after a partial transfer; for regular files a short read only happens at end of file, a short write leaves a CRC mismatch, so C18 still holds',
                  'a torn header can pair the OLD payload and checksum with the NEW deadline (deadline of another save): allowed by the property text'],
    not_covered={'C18': ['fsync/sector model of the crash itself (the reader is proved against EVERY file content instead; the writer contract fixes what is written and in which order)', 'write_all (never advances its buffer after a short write: observation)', 'locking (locked_file), unlink on failed load, gc directory walk']},
)
