# Unit "routing" -- whole-string regex matching wrapper (booster/lib/regex/src/pcre_regex.cpp) and the first-match scan of
# url_dispatcher (src/url_dispatcher.cpp).  Serves C20.
import sys, os
sys.path.insert(0, os.path.join(os.path.dirname(os.path.abspath(__file__)), '..', 'tools'))
from cxx2c import lit

R = 'booster/lib/regex/src/pcre_regex.cpp'
D = 'src/url_dispatcher.cpp'
P = ['C20']

PRE = r'''
#define PCRE_ANCHORED 0x00000010
struct regex_data { void *re; void *are; int match_size; };
struct marks { int *first; int *second; size_t n; };
int g_k; bool g_exec_called; void const *g_exec_code; int g_exec_opts; int g_exec_len; int g_exec_rc; int *g_ovec; int g_ovec_n;
/* pcre_exec (PCRE 8.x API contract, assumed): on rc >= 0 the pairs ovec[0 .. 2*min(rc, ovecsize/3)) are offsets 0 <= start <= end <= length;
   with PCRE_ANCHORED the match starts at offset 0; nothing outside ovec[0..ovecsize) is written */
static int pcre_exec_stub(void const *code, void const *extra, char const *subject, int length, int start, int options, int *ovector, int ovecsize)
{
  __CPROVER_assert(code != 0 && length >= 0 && start == 0 && (ovecsize == 0 || (ovecsize % 3 == 0 && __CPROVER_w_ok(ovector, sizeof(int) * (size_t)ovecsize))), "pcre_exec arguments: compiled pattern, non-negative length, ovector of a multiple of 3 ints");
  g_exec_called = 1; g_exec_code = code; g_exec_opts = options; g_exec_len = length; g_ovec = ovector; g_ovec_n = ovecsize;
  int rc; __CPROVER_assume(rc >= -30 && rc <= 1 + ovecsize / 3 && (ovecsize == 0 || rc != 0));   /* 0 only means "ovector too small", which 3*(captures+1) never is */
  if(rc >= 0 && ovecsize > 0) {
    int a, b; __CPROVER_assume(0 <= a && a <= b && b <= length && ((options & PCRE_ANCHORED) == 0 || a == 0));
    ovector[0] = a; ovector[1] = b;
    if(g_k >= 1 && g_k < rc && 3 * g_k < ovecsize) { int c, d; __CPROVER_assume(-1 <= c && c <= d && d <= length); ovector[2 * g_k] = c; ovector[2 * g_k + 1] = d; }
  }
  g_exec_rc = rc; return rc;
}
static int *ovec_alloc(size_t n) { int *p = malloc(n * sizeof(int)); __CPROVER_assume(p != NULL); return p; }
static void marks_resize(struct marks *m, size_t n) { m->first = malloc(n * sizeof(int)); m->second = malloc(n * sizeof(int)); __CPROVER_assume(m->first != NULL && m->second != NULL); m->n = n; }
static int *marks_first(struct marks *m, size_t i) { __CPROVER_assert(i < m->n, "marks[i] within the vector"); return m->first + i; }
static int *marks_second(struct marks *m, size_t i) { __CPROVER_assert(i < m->n, "marks[i] within the vector"); return m->second + i; }
/* ---- regex::assign: the pattern used by match() must be compiled from  "(?:" + pattern + ")\\z"  (R7: anchored is a checked sink) */
int g_anch_state; bool g_anch_bad; bool g_are_compiled_from_anchored; bool g_are_set;
static void anch_lit(char const *s)
{
  if(g_anch_state == 0 && s[0] == '(' && s[1] == '?' && s[2] == ':' && s[3] == 0) g_anch_state = 1;           /* non-capturing group opened first */
  else if(g_anch_state == 2 && s[0] == ')' && s[1] == '\\' && s[2] == 'z' && s[3] == 0) g_anch_state = 3;    /* group closed, then end-of-subject assertion */
  else g_anch_bad = 1;
}
static void anch_pattern(void) { if(g_anch_state == 1) g_anch_state = 2; else g_anch_bad = 1; }
static void *pcre_compile_anch(void) { g_are_compiled_from_anchored = (g_anch_state == 3 && !g_anch_bad); bool ok; return ok ? (void *)&g_anch_state : 0; }
static int fullinfo_stub(void) { int r; return r; }
/* ---- dispatcher: option i matches iff g_opt_match[i]; ghosts record which options were tried */
#define MAX_OPTS 16
bool g_opt_match[MAX_OPTS]; unsigned g_opt_n; unsigned g_tried_upto; bool g_tried_after_hit; bool g_hit; unsigned g_hit_at;
static bool option_dispatch(unsigned i)
{
  __CPROVER_assert(i < g_opt_n, "option index inside options vector");
  if(g_hit) g_tried_after_hit = 1;
  g_tried_upto = i + 1;
  if(g_opt_match[i]) { g_hit = 1; g_hit_at = i; return 1; }
  return 0;
}
'''

PRE += r'''
/* ---- url_dispatcher option::matches: the method filter and the path test.  booster::regex_match(s, re) is whole-string matching (jobs regex_match*), booster::regex_search is not:
 *      which of the two the code calls on which expression is recorded */
struct ropt { int match_method_; };
enum { RX_PATH, RX_METHOD };
int g_rx_match_calls[2], g_rx_search_calls; bool g_rx_res[2]; char const *g_rx_subject[2]; bool g_method_eq; int g_method_cmp_calls;
static bool rx_match(int which, char const *subject) { g_rx_match_calls[which]++; g_rx_subject[which] = subject; return g_rx_res[which]; }
static bool rx_search(int which, char const *subject) { g_rx_search_calls++; int r; return r != 0; }
/* `method_ != method` (std::string against char const *): method_ is rendered as a C string that is the request method itself when the two are equal (oracle g_method_eq) and a different object otherwise */
char g_other_word[4];
static char const *method_word(char const *method) { g_method_cmp_calls++; return g_method_eq ? method : g_other_word; }
'''

MP = 'src/mount_point.cpp'
PRE += r'''
/* ---- mount_point::match: the three patterns are oracles (whole-string match proved for regex::match above); the sub-path handed to the application is recorded as
 *      (subject, group): group -1 = the whole string, otherwise capture number `group` of the match of that subject */
typedef enum { match_path_info, match_script_name } selection_type;      /* as in cppcms/mount_point.h (order checked by the region test below) */
#define RX_host_ 0
#define RX_script_name_ 1
#define RX_path_info_ 2
struct mpoint { bool host_empty, script_name_empty, path_info_empty; int group_; selection_type selection_; };
struct msel { char const *subj; int grp; int which; };
struct mres { bool first; struct msel second; };
struct cm { char const *subj; int which; };
int g_mp_calls[3], g_mp_search; bool g_mp_ok[3]; char const *g_mp_subj[3];
static bool rxm(int which, char const *subject) { if(g_mp_calls[which] < 2) g_mp_calls[which]++; g_mp_subj[which] = subject; return g_mp_ok[which]; }
static bool rxm_m(int which, char const *subject, struct cm *m) { bool r = rxm(which, subject); if(r) { m->subj = subject; m->which = which; } return r; }
static bool rxs(int which, char const *subject) { g_mp_search = 1; int r; return r != 0; }
static struct msel whole_of(char const *s) { struct msel r; r.subj = s; r.grp = -1; r.which = -1; return r; }
static struct msel group_of(struct cm m, int g) { struct msel r; r.subj = m.subj; r.grp = g; r.which = m.which; return r; }
#define MP_PATTERN_OK(w, subj_) (g_mp_calls[w] == 1 && g_mp_ok[w] && g_mp_subj[w] == (subj_))
'''
functions = [
    dict(cname='regex_match_marks', file=R, locate=r'bool regex::match\(char const \*begin,char const \*end,std::vector<std::pair<int,int> > &marks,int\s*\) const',
         sig='bool regex_match_marks(struct regex_data *d, char const *begin, char const *end, struct marks *marks)', throw_ret='0',
         rewrites=[(r'marks\.clear\(\);', '', 1), (r'mark_count\(\)', 'd->match_size', 2), (r'marks\.resize\(pat_size,std::pair<int,int>\(-\w,-\w\)\);', 'marks_resize(marks, pat_size);', 1),
                   (r'std::vector<int> ovec\(\((\w+->\w+)\+(\w)\)\*(\w),\w\);', r'size_t ovec_n = (\1+\2)*\3; int *ovec = ovec_alloc(ovec_n);', 1),
                   (r'pcre_exec\(', 'pcre_exec_stub(', 1), (r'&ovec\.front\(\)', 'ovec', 1), (r'ovec\.size\(\)', 'ovec_n', 1),
                   (r'marks\[i\]\.first', '(*marks_first(marks, i))', 1), (r'marks\[i\]\.second', '(*marks_second(marks, i))', 1)],
         loops={0: '''__CPROVER_assigns(i, __CPROVER_object_whole(marks->first), __CPROVER_object_whole(marks->second))
__CPROVER_loop_invariant(0 <= i && i <= pat_size && (i > 0 ==> (marks->first[0] == ovec[0] && marks->second[0] == ovec[1])) &&
      ((g_k >= 1 && g_k < i) ==> (marks->first[g_k] == ovec[2 * g_k] && marks->second[g_k] == ovec[2 * g_k + 1])))
__CPROVER_decreases(pat_size - i)'''},
         contract=r'''
__CPROVER_requires(__CPROVER_r_ok(d, sizeof(*d)) && d->match_size >= 0 && d->match_size <= 64 && VALID_RANGE(begin, end) && OFF(end) - OFF(begin) <= BUF_CAP && __CPROVER_rw_ok(marks, sizeof(*marks)) && !verif_thrown && !g_exec_called)
__CPROVER_assigns(verif_thrown, *marks, g_exec_called, g_exec_code, g_exec_opts, g_exec_len, g_exec_rc, g_ovec, g_ovec_n)
/* a match is reported only if the ANCHORED pattern (compiled from "(?:p)\z") matched from offset 0 to exactly the end of the subject: whole string, never a prefix or substring */
__CPROVER_ensures(__CPROVER_return_value ==> (g_exec_called && g_exec_code == d->are && (g_exec_opts & PCRE_ANCHORED) != 0 && g_exec_len == OFF(end) - OFF(begin) && g_exec_rc >= 0 &&
                  g_ovec[0] == 0 && g_ovec[1] == g_exec_len && g_ovec_n == 3 * (d->match_size + 1)))
/* the captured groups handed on are exactly the offsets pcre reported (arbitrary group index g_k) */
__CPROVER_ensures(__CPROVER_return_value ==> (marks->n == (size_t)d->match_size + 1 && marks->first[0] == 0 && marks->second[0] == g_exec_len &&
                  ((g_k >= 1 && g_k < g_exec_rc && g_k <= d->match_size) ==> (marks->first[g_k] == g_ovec[2 * g_k] && marks->second[g_k] == g_ovec[2 * g_k + 1]))))
__CPROVER_ensures(d->are == 0 ==> verif_thrown)
'''),
    dict(cname='regex_match', file=R, locate=r'bool regex::match\(char const \*begin,char const \*end,int\s*\) const',
         sig='bool regex_match(struct regex_data *d, char const *begin, char const *end)', throw_ret='0',
         rewrites=[(r'pcre_exec\(', 'pcre_exec_stub(', 1)],
         contract=r'''
__CPROVER_requires(__CPROVER_r_ok(d, sizeof(*d)) && VALID_RANGE(begin, end) && OFF(end) - OFF(begin) <= BUF_CAP && !verif_thrown && !g_exec_called)
__CPROVER_assigns(verif_thrown, g_exec_called, g_exec_code, g_exec_opts, g_exec_len, g_exec_rc, g_ovec, g_ovec_n)
/* the boolean overload reports exactly the verdict of the anchored, \z-terminated pattern on the whole subject */
__CPROVER_ensures(__CPROVER_return_value ==> (g_exec_called && g_exec_code == d->are && (g_exec_opts & PCRE_ANCHORED) != 0 && g_exec_len == OFF(end) - OFF(begin) && g_exec_rc >= 0))
__CPROVER_ensures((d->are != 0 && !__CPROVER_return_value) ==> (g_exec_called && g_exec_rc < 0))
'''),
    dict(cname='regex_assign_anchored', file=R, locate=lit('void regex::assign(std::string const &pattern,int flags)'), sig='void regex_assign_anchored(void)', throw_ret='',
         rewrites=[(r'(?s)d\.reset\(new data\(\)\);.*?std::string anchored;', '', 1), (r'anchored\.reserve\([^;]*\);', '', 1),
                   (r'anchored\s*\+=\s*("(?:[^"\\\\]|\\\\.)*");', r'anch_lit(\1);', 1), (r'anchored\s*\+=\s*pattern;', 'anch_pattern();', 1),
                   (r'p=pcre_compile\(anchored\.c_str\(\),[^;]*\);', 'void *p = pcre_compile_anch();', 1), (r'd->are = p;', 'g_are_set = 1;', 1),
                   (r'pcre_fullinfo\(d->are,[^)]*\)', 'fullinfo_stub()', 1)],
         contract=r'''
__CPROVER_requires(g_anch_state == 0 && !g_anch_bad && !g_are_set && !verif_thrown)
__CPROVER_assigns(g_anch_state, g_anch_bad, g_are_compiled_from_anchored, g_are_set, verif_thrown)
/* whole-string matching rests on the pattern that match() executes being  (?:pattern)\\z : the group makes \\z apply to EVERY top-level alternative */
__CPROVER_ensures(g_are_set ==> g_are_compiled_from_anchored)
'''),
    dict(cname='dispatcher_dispatch', file=D, locate=lit('bool url_dispatcher::dispatch(std::string url)'), sig='bool dispatcher_dispatch(void)',
         rewrites=[(r'std::string method;\s*char const \*cmethod = \w;\s*application \*app = d->app;\s*if\(app && app->has_context\(\)\) \{[^}]*\}\s*else \{[^}]*\}', '', 1),
                   (r'd->options\.size\(\)', 'g_opt_n', 1), (r'd->options\[i\]->dispatch\(url,cmethod,app\)', 'option_dispatch(i)', 1)],
         loops={0: '''__CPROVER_assigns(i, g_tried_upto, g_tried_after_hit, g_hit, g_hit_at)
__CPROVER_loop_invariant(i <= g_opt_n && !g_hit && !g_tried_after_hit && g_tried_upto == i && ((unsigned)g_k < i ==> !g_opt_match[g_k]))
__CPROVER_decreases(g_opt_n - i)'''},
         contract=r'''
__CPROVER_requires(g_opt_n <= MAX_OPTS && !g_hit && !g_tried_after_hit && g_tried_upto == 0 && g_k >= 0)
__CPROVER_assigns(g_tried_upto, g_tried_after_hit, g_hit, g_hit_at)
/* the FIRST handler in registration order whose patterns match is executed, no later one is tried, and false means none matched */
__CPROVER_ensures(__CPROVER_return_value ==> (g_hit && g_hit_at < g_opt_n && g_opt_match[g_hit_at] && g_tried_upto == g_hit_at + 1 && !g_tried_after_hit && ((unsigned)g_k < g_hit_at ==> !g_opt_match[g_k])))
__CPROVER_ensures(!__CPROVER_return_value ==> (!g_hit && ((unsigned)g_k < g_opt_n ==> !g_opt_match[g_k])))
'''),
    dict(cname='option_matches', file=D, locate=lit('bool matches(std::string const &path,char const *method)'), sig='bool option_matches(struct ropt *self, char const *path, char const *method)', members=['match_method_'],
         rewrites=[(r'\bmethod_\b', 'method_word(method)', 1), (r'booster::regex_match\(method,mexpr_\)', 'rx_match(RX_METHOD, method)', 0), (r'booster::regex_search\(method,mexpr_\)', 'rx_search(RX_METHOD, method)', 0),
                   (r'booster::regex_match\(path\.c_str\(\),match_,expr_\)', 'rx_match(RX_PATH, path)', 0), (r'booster::regex_search\(path\.c_str\(\),match_,expr_\)', 'rx_search(RX_PATH, path)', 0)],
         contract=r'''
__CPROVER_requires(__CPROVER_r_ok(self, sizeof(*self)) && g_rx_match_calls[0] == 0 && g_rx_match_calls[1] == 0 && g_rx_search_calls == 0 && g_method_cmp_calls == 0)
__CPROVER_assigns(__CPROVER_object_whole(g_rx_match_calls), g_rx_search_calls, __CPROVER_object_whole(g_rx_subject), g_method_cmp_calls)
/* a handler is selected only if the WHOLE path matched its pattern, and - when it has a method filter - the whole request method is equal to the
   filter word (plain upper-case filters) or matched by the filter expression as a whole (never by a substring search) */
__CPROVER_ensures(g_rx_search_calls == 0)
__CPROVER_ensures(__CPROVER_return_value ==> (g_rx_match_calls[RX_PATH] == 1 && g_rx_res[RX_PATH] && g_rx_subject[RX_PATH] == path))
__CPROVER_ensures((__CPROVER_return_value && self->match_method_ == 1) ==> (method != 0 && g_method_cmp_calls == 1 && g_method_eq))
__CPROVER_ensures((__CPROVER_return_value && self->match_method_ == 2) ==> (method != 0 && g_rx_match_calls[RX_METHOD] == 1 && g_rx_res[RX_METHOD] && g_rx_subject[RX_METHOD] == method))
/* and nothing that matches is turned away */
__CPROVER_ensures(!__CPROVER_return_value ==> ((self->match_method_ == 1 && (method == 0 || !g_method_eq)) || (self->match_method_ == 2 && (method == 0 || !g_rx_res[RX_METHOD])) || !g_rx_res[RX_PATH]))
'''),
    dict(cname='mp_match', file=MP, locate=lit('std::pair<bool,std::string> mount_point::match(char const *h,char const *s,char const *p) const'),
         sig='void mp_match(struct mpoint *self, char const *h, char const *s, char const *p, struct mres *out)', members=['group_', 'selection_'],
         rewrites=[(r'std::pair<bool,std::string> res;', 'struct mres res = {0, {0, 0, 0}};', 1), (r'return res;', '{ *out = res; return; }', 1), (r'(\w+_)\.empty\(\)', r'self->\1empty', 1),
                   (r'booster::regex_match\((\w),(\w+_)\)', r'rxm(RX_\2, \1)', 0), (r'booster::regex_match\((\w),m,(\w+_)\)', r'rxm_m(RX_\2, \1, &m)', 0),
                   (r'booster::regex_search\((\w),(?:m,)?(\w+_)\)', r'rxs(RX_\2, \1)', 0), (r'booster::cmatch m;', 'struct cm m = {0, 0};', 0),
                   (r'res\.second\s*=\s*(\w);', r'res.second = whole_of(\1);', 0), (r'res\.second\s*=\s*m\[([\w>-]+)\];', r'res.second = group_of(m, \1);', 0)],
         contract=r'''
__CPROVER_requires(__CPROVER_r_ok(self, sizeof(*self)) && __CPROVER_w_ok(out, sizeof(*out)) && g_mp_calls[0] == 0 && g_mp_calls[1] == 0 && g_mp_calls[2] == 0 && g_mp_search == 0 &&
                   (self->selection_ == match_path_info || self->selection_ == match_script_name))
__CPROVER_assigns(*out, __CPROVER_object_whole(g_mp_calls), __CPROVER_object_whole(g_mp_subj), g_mp_search)
/* C20: a mount point is selected only if EVERY configured pattern matched the ENTIRE respective string (host against the host, script name against SCRIPT_NAME, path against PATH_INFO; never a search) ... */
__CPROVER_ensures(g_mp_search == 0)
__CPROVER_ensures(out->first ==> ((self->host_empty || MP_PATTERN_OK(RX_host_, h)) && (self->script_name_empty || MP_PATTERN_OK(RX_script_name_, s)) && (self->path_info_empty || MP_PATTERN_OK(RX_path_info_, p))))
/* ... the sub-path handed on is the selected part: whole when its pattern is empty or group 0 is configured, otherwise exactly capture `group_` of the match of the selected part against its own pattern */
__CPROVER_ensures((out->first && self->selection_ == match_path_info) ==> (out->second.subj == p && ((self->path_info_empty || self->group_ == 0) ? out->second.grp == -1 : (out->second.grp == self->group_ && out->second.which == RX_path_info_))))
__CPROVER_ensures((out->first && self->selection_ == match_script_name) ==> (out->second.subj == s && ((self->script_name_empty || self->group_ == 0) ? out->second.grp == -1 : (out->second.grp == self->group_ && out->second.which == RX_script_name_))))
/* ... and a request that matches every configured pattern is not turned away */
__CPROVER_ensures(!out->first ==> ((!self->host_empty && !g_mp_ok[RX_host_]) || (!self->script_name_empty && !g_mp_ok[RX_script_name_]) || (!self->path_info_empty && !g_mp_ok[RX_path_info_])))
'''),
]

REPLAY20 = dict(replay='c20:routing', replay_link=['-fno-access-control', '-L{BUILD}', '-lcppcms', '-L{BUILD}/booster', '-lbooster', '-lpthread', '-lpcre'], replay_exhaustive='the real booster::regex, mount_point::match and url_dispatcher against std::regex whole-string matching: 360 mount-point configurations (host / script / path patterns, group 0..2, both selections) x 540 request triples, and a dispatcher with 8 handlers (method filters: none, word, expression) x 12 methods x 17 paths (prefix / suffix / substring look-alikes of every pattern and method): selected iff everything matches as a whole, first in registration order, captured group as argument')
jobs = [
    dict(name='regex_match_marks', props=P, **REPLAY20, enforce='regex_match_marks', harness=r'''
    struct regex_data d; SYM_BUF(char, s, n, BUF_CAP); struct marks m; int k; g_k = k; g_exec_called = 0; verif_thrown = 0;
    regex_match_marks(&d, s, s + n, &m); VERIF_REACH;'''),
    dict(name='regex_match', props=P, **REPLAY20, enforce='regex_match', harness=r'''
    struct regex_data d; SYM_BUF(char, s, n, BUF_CAP); g_exec_called = 0; verif_thrown = 0;
    regex_match(&d, s, s + n); VERIF_REACH;'''),
    dict(name='regex_assign_anchored', props=P, **REPLAY20, enforce='regex_assign_anchored', harness='g_anch_state = 0; g_anch_bad = 0; g_are_set = 0; verif_thrown = 0; regex_assign_anchored(); VERIF_REACH;'),
    dict(name='dispatcher_dispatch', props=P, **REPLAY20, enforce='dispatcher_dispatch', harness=r'''
    bool m[MAX_OPTS]; __CPROVER_array_copy(g_opt_match, m); unsigned n; __CPROVER_assume(n <= MAX_OPTS); g_opt_n = n; int k; __CPROVER_assume(k >= 0); g_k = k;
    g_hit = 0; g_tried_after_hit = 0; g_tried_upto = 0;
    dispatcher_dispatch(); VERIF_REACH;'''),
    dict(name='option_matches', props=P, **REPLAY20, enforce='option_matches', harness=r'''
    struct ropt o; int r0, r1, me, nm; g_rx_res[0] = r0 != 0; g_rx_res[1] = r1 != 0; g_method_eq = me != 0; g_rx_match_calls[0] = 0; g_rx_match_calls[1] = 0; g_rx_search_calls = 0; g_method_cmp_calls = 0;
    char pth[4], mth[4]; char const *mp = mth; if(!nm) mp = 0; option_matches(&o, pth, mp); VERIF_REACH;'''),
    dict(name='mp_match', props=P, **REPLAY20, enforce='mp_match', harness=r'''
    struct mpoint m; int r0, r1, r2; g_mp_ok[0] = r0 != 0; g_mp_ok[1] = r1 != 0; g_mp_ok[2] = r2 != 0; g_mp_calls[0] = 0; g_mp_calls[1] = 0; g_mp_calls[2] = 0; g_mp_search = 0;
    int sel; m.selection_ = sel ? match_script_name : match_path_info; char hb[4], sb[4], pb[4]; struct mres out;
    mp_match(&m, hb, sb, pb, &out); VERIF_REACH;'''),
]

UNIT = dict(
    name='routing', pre=PRE, functions=functions, jobs=jobs,
    trusted=['routing: pcre_exec is a stub with the PCRE 8 API contract (rc>=0 => offsets inside the subject, ANCHORED => starts at 0); that the pattern "(?:p)\\z" can only match up to the end of the subject is PCRE semantics (assumed)',
             'routing: std::vector<int> ovec and the marks vector are mallocs of exactly the requested number of ints (R8); options[i]->dispatch(...) is an oracle array with at most 16 options (R10)'],
    not_covered={'C20': ['PCRE itself; the first (un-anchored) compile in regex::assign; option::matches method filter; mount points, applications_pool, url_mapper and the mapper<->dispatcher round trip over application trees',
                         'dispatcher with more than 16 options (oracle array bound)']},
)
