# Unit "sessintf" -- the save policy of session_interface (src/session_interface.cpp): when a session is written back, with which deadline, and when it is dropped.  Serves C06.
import sys, os
sys.path.insert(0, os.path.join(os.path.dirname(os.path.abspath(__file__)), '..', 'tools'))
from cxx2c import lit

SI = 'src/session_interface.cpp'
P = ['C06']

PRE = r'''
#include <time.h>
@@REGION:how@@
/* data_ / data_copy_ (std::map) are abstract: emptiness and equality are oracles fixed by the harness; the serialised form, the cookie and the storage are recorders */
struct sintf2 { bool has_storage; int loaded_, saved_; bool new_session_, reset_; int how_, timeout_val_; time_t timeout_in_; int on_server_; };
time_t g_now; bool g_data_empty, g_copy_empty, g_data_eq, g_cookie_nonempty, g_csrf_enable, g_csrf_exposed;
int g_check_calls, g_sclear_calls, g_upd_calls, g_upd_force, g_ssave_calls, g_setck_calls, g_sd_calls, g_csrf_sets, g_order_bad;
size_t g_sd_id, g_ssave_ar; time_t g_ssave_age; bool g_ssave_new; int g_ssave_onserver; long long g_setck_age;
static void check_rec(void) { if(g_check_calls < 2) g_check_calls++; }
static bool data_empty_rec(void) { return g_data_empty; }
static bool copy_empty_rec(void) { return g_copy_empty; }
unsigned g_data_tok, g_copy_tok;
static size_t cookie_len_rec(void) { size_t n; __CPROVER_assume((n != 0) == g_cookie_nonempty); return n; }
static void storage_clear_rec(void) { if(g_sclear_calls < 2) g_sclear_calls++; }
static void update_exposed_rec(bool force) { if(g_upd_calls < 2) g_upd_calls++; g_upd_force = force; }
static void csrf_set_rec(void) { if(g_csrf_sets < 2) g_csrf_sets++; g_data_tok = g_copy_tok ^ 1u; }      /* adding "_csrf" changes the data */
static void csrf_expose_rec(void) { }
static size_t save_data_rec(void) { if(g_sd_calls < 2) g_sd_calls++; return g_sd_id; }
static void storage_save_rec(size_t ar, time_t age, bool is_new, int on_server) { if(g_ssave_calls < 2) g_ssave_calls++; g_ssave_ar = ar; g_ssave_age = age; g_ssave_new = is_new; g_ssave_onserver = on_server; if(!g_sd_calls) g_order_bad = 1; }
static void set_cookie_rec(long long age) { if(g_setck_calls < 2) g_setck_calls++; g_setck_age = age; if(!g_ssave_calls) g_order_bad = 1; }
static time_t time_rec(void) { return g_now; }
#define CLOCK_OK (g_now >= 0 && g_now <= (1ll << 40))
#define SI_OK(s) ((s)->timeout_val_ >= 0 && (s)->timeout_in_ >= 0 && (s)->timeout_in_ <= (1ll << 41) && ((s)->how_ == fixed || (s)->how_ == renew || (s)->how_ == browser))
/* the deadline a save must carry under each expiration mode */
#define AGE_SPEC(s) (((s)->how_ == browser || (s)->how_ == renew || ((s)->how_ == fixed && (s)->new_session_)) ? (time_t)(s)->timeout_val_ + g_now : (s)->timeout_in_)
'''

functions = [
    dict(cname='si_cookie_age', file=SI, locate=lit('int session_interface::cookie_age()'), sig='int si_cookie_age(struct sintf2 *self)', self_arg='self', members=['how_', 'new_session_', 'timeout_val_', 'timeout_in_'],
         rewrites=[(r'\btime\(NULL\)', 'time_rec()', 0)],
         contract=r'''
__CPROVER_requires(__CPROVER_r_ok(self, sizeof(*self)) && SI_OK(self) && CLOCK_OK)
__CPROVER_assigns()
/* C06: the browser keeps the session cookie for the session only (browser), for the full period (renew, or a fixed session just created), or until the deadline it was created with (fixed) */
__CPROVER_ensures(self->how_ == browser ==> __CPROVER_return_value == 0)
__CPROVER_ensures((self->how_ == renew || (self->how_ == fixed && self->new_session_)) ==> __CPROVER_return_value == self->timeout_val_)
__CPROVER_ensures((self->how_ == fixed && !self->new_session_) ==> __CPROVER_return_value == (int)(self->timeout_in_ - g_now))
'''),
    dict(cname='si_session_age', file=SI, locate=lit('time_t session_interface::session_age()'), sig='time_t si_session_age(struct sintf2 *self)', self_arg='self', members=['how_', 'new_session_', 'timeout_val_', 'timeout_in_'],
         rewrites=[(r'\btime\(NULL\)', 'time_rec()', 0)],
         contract=r'''
__CPROVER_requires(__CPROVER_r_ok(self, sizeof(*self)) && SI_OK(self) && CLOCK_OK)
__CPROVER_assigns()
/* C06: the deadline stored with the session: a FIXED session keeps the deadline it was created with (it is never extended by later requests); renew / browser sessions and new ones expire one period from now */
__CPROVER_ensures(__CPROVER_return_value == AGE_SPEC(self))
'''),
    dict(cname='si_save', file=SI, locate=lit('void session_interface::save()'), sig='void si_save(struct sintf2 *self)', rename={'session_age': 'si_session_age', 'cookie_age': 'si_cookie_age'}, self_arg='self',
         members=['loaded_', 'saved_', 'new_session_', 'reset_', 'how_', 'timeout_val_', 'timeout_in_', 'on_server_'],
         rewrites=[(r'storage_\.get\(\)', '(self->has_storage ? (void *)self : NULL)', 1), (r'\bcheck\(\);', 'check_rec();', 0), (r'data_copy_\.empty\(\)', 'copy_empty_rec()', 0), (r'data_\.empty\(\)', 'data_empty_rec()', 0),
                   (r'get_session_cookie\(\)(\W\W)""', r'cookie_len_rec() \1 0', 0), (r'storage_->clear\(\*this\)', 'storage_clear_rec()', 0), (r'update_exposed\(', 'update_exposed_rec(', 0),
                   (r'cached_settings\(\)\.security\.csrf\.enable', 'g_csrf_enable', 0), (r'cached_settings\(\)\.security\.csrf\.exposed', 'g_csrf_exposed', 0),
                   (r'set\("_csrf",generate_csrf_token\(\)\);', 'csrf_set_rec();', 0), (r'expose\("_csrf"\);', 'csrf_expose_rec();', 0), (r'\btime\(NULL\)', 'time_rec()', 0),
                   (r'std::string ar;\s*save_data\(data_,ar\);', 'size_t ar = save_data_rec();', 0), (r'temp_cookie_\.clear\(\);', '', 0),
                   (r'storage_->save\(\*this,ar,', 'storage_save_rec(ar,', 0), (r'set_session_cookie\(([^,;]+),temp_cookie_\);', r'set_cookie_rec(\1);', 0),
                   # the two maps are compared as a whole: tokens that are equal exactly when the harness says the data is unchanged (the comparison operator stays the source's)
                   (r'\bdata_copy_\b', 'g_copy_tok', 0), (r'\bdata_\b', 'g_data_tok', 0)],
         contract=r'''
__CPROVER_requires(__CPROVER_rw_ok(self, sizeof(*self)) && SI_OK(self) && CLOCK_OK && g_check_calls == 0 && g_sclear_calls == 0 && g_upd_calls == 0 && g_ssave_calls == 0 && g_setck_calls == 0 && g_sd_calls == 0 && g_csrf_sets == 0 && g_order_bad == 0 && (g_data_tok == g_copy_tok) == g_data_eq)
__CPROVER_assigns(self->saved_, self->new_session_, g_check_calls, g_sclear_calls, g_upd_calls, g_upd_force, g_ssave_calls, g_ssave_ar, g_ssave_age, g_ssave_new, g_ssave_onserver, g_setck_calls, g_setck_age, g_sd_calls, g_csrf_sets, g_order_bad, g_data_tok)
/* nothing happens without a storage, before load() or after an earlier save() of this request */
__CPROVER_ensures((!self->has_storage || !self->loaded_ || __CPROVER_old(self->saved_)) ==> (g_ssave_calls == 0 && g_sclear_calls == 0 && g_upd_calls == 0))
/* C06: an EMPTY session is never written: the stored copy is dropped (if the browser still presents a cookie) and every exposed value is withdrawn */
__CPROVER_ensures((self->has_storage && self->loaded_ && !__CPROVER_old(self->saved_) && g_data_empty) ==> (g_ssave_calls == 0 && g_sclear_calls == (g_cookie_nonempty ? 1 : 0) && g_upd_calls == 1 && g_upd_force))
/* a session that changed, is new or was reset IS written, exactly once, with the serialised CURRENT data, the deadline of its expiration mode, and the new / on-server flags; the cookie is set after the storage took it */
__CPROVER_ensures((self->has_storage && self->loaded_ && !__CPROVER_old(self->saved_) && !g_data_empty && (!g_data_eq || g_csrf_sets != 0 || self->new_session_)) ==>
                  (g_ssave_calls == 1 && g_sd_calls == 1 && g_ssave_ar == g_sd_id && g_ssave_age == AGE_SPEC(self) && g_ssave_new == self->new_session_ && g_ssave_onserver == self->on_server_ &&
                   g_setck_calls == 1 && g_order_bad == 0 && g_upd_calls == 1 && self->saved_))
__CPROVER_ensures((self->has_storage && self->loaded_ && !__CPROVER_old(self->saved_)) ==> self->new_session_ == ((g_copy_empty && !g_data_empty) || self->reset_))
/* an unchanged FIXED session is left alone (its deadline must not move); an unchanged renew / browser session when it is re-written it gets a fresh deadline; it may be left alone only while its stored deadline is still ahead, and must be renewed at the latest when 90% of the period is used up (the source renews from 10% on: any threshold in between keeps an active user's session alive) */
__CPROVER_ensures((self->has_storage && self->loaded_ && !__CPROVER_old(self->saved_) && !g_data_empty && g_data_eq && g_csrf_sets == 0 && !self->new_session_ && self->how_ == fixed) ==> (g_ssave_calls == 0 && g_setck_calls == 0))
__CPROVER_ensures((self->has_storage && self->loaded_ && !__CPROVER_old(self->saved_) && !g_data_empty && g_data_eq && g_csrf_sets == 0 && !self->new_session_ && self->how_ != fixed) ==>
                  ((g_ssave_calls == 0 ==> (g_setck_calls == 0 && (self->timeout_val_ > 0 ==> self->timeout_in_ > g_now))) && (g_ssave_calls != 0 ==> (g_ssave_calls == 1 && g_ssave_age == (time_t)self->timeout_val_ + g_now && g_upd_force)) &&
                   /* the source's own threshold (a tenth of the period) is one admissible choice; a session with at least 90% of its period left need not be touched */
                   (((double)(g_now + self->timeout_val_ - self->timeout_in_) >= self->timeout_val_ * 0.9) ==> g_ssave_calls == 1)))
'''),
]

SETUP = r'''
    struct sintf2 s; time_t nw; g_now = nw; int b1, b2, b3, b4, b5, b6; g_data_empty = b1 != 0; g_copy_empty = b2 != 0; g_data_eq = b3 != 0; g_cookie_nonempty = b4 != 0; g_csrf_enable = b5 != 0; g_csrf_exposed = b6 != 0; size_t sd; g_sd_id = sd; unsigned t1, t2; g_copy_tok = t1; g_data_tok = g_data_eq ? t1 : t2; __CPROVER_assume(g_data_eq || t1 != t2);
    g_check_calls = 0; g_sclear_calls = 0; g_upd_calls = 0; g_ssave_calls = 0; g_setck_calls = 0; g_sd_calls = 0; g_csrf_sets = 0; g_order_bad = 0;
'''
jobs = [
    dict(name='si_cookie_age', props=P, enforce='si_cookie_age', harness=SETUP + 'si_cookie_age(&s); VERIF_REACH;'),
    dict(name='si_session_age', props=P, enforce='si_session_age', harness=SETUP + 'si_session_age(&s); VERIF_REACH;'),
    dict(name='si_save', props=P, enforce='si_save', replace=['si_session_age', 'si_cookie_age'], harness=SETUP + 'si_save(&s); VERIF_REACH;'),
]

UNIT = dict(
    name='sessintf', pre=PRE, functions=functions, jobs=jobs,
    regions=[dict(name='how', file='cppcms/session_interface.h', start=r'enum \{\s*fixed,', end=r'\};')],
    trusted=['sessintf: data_ / data_copy_ (std::map of entries) are abstract: emptiness and equality are oracle values, save_data() returns an opaque id of the serialised current data; storage back end, cookie and update_exposed are recorders',
             'sessintf: the 10% renewal threshold is the C double expression of the source, evaluated by cbmc\'s IEEE-754 model'],
    not_covered={'C06': ['update_exposed (cookie reconciliation of exposed values), set/get/expose accessors, load_data/save_data packing, histories across requests (a composition of load, the accessors and save)']},
)
