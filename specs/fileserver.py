# Unit "fileserver" -- path handling of the embedded file server (src/internal_file_server.cpp).  Serves C13.
import sys, os
sys.path.insert(0, os.path.join(os.path.dirname(os.path.abspath(__file__)), '..', 'tools'))
from cxx2c import lit

F = 'src/internal_file_server.cpp'
P = ['C13']

PRE = r'''
size_t g_k;
/* ---- helpers standing for std::string / <algorithm> operations used by normalize_path (R8/R9) */
static void prepend_slash(char *p, size_t *n) { for(size_t i = *n; i > 0; i--) p[i] = p[i - 1]; p[0] = '/'; (*n)++; }
static char *find_ch_m(char *b, char *e, char c) { while(b != e && *b != c) b++; return b; }
static char *copy_fwd(char *b, char *e, char *o) { while(b != e) *o++ = *b++; return o; }
/* ---- reference normalisation, written from the property text: resolve "", "." and ".." components on a stack */
static size_t spec_normalize(char const *in, size_t n, char *out)
{
  size_t o = 0; size_t i = 0;
  out[o++] = '/';
  while(i < n) {
    size_t j = i; while(j < n && in[j] != '/') j++;
    size_t len = j - i;
    if(len == 0 || (len == 1 && in[i] == '.')) { }
    else if(len == 2 && in[i] == '.' && in[i + 1] == '.') {
      if(o > 1) { o--; while(o > 1 && out[o - 1] != '/') o--; }
    }
    else {
      if(o > 1 && out[o - 1] != '/') out[o++] = '/';
      for(size_t t = 0; t < len; t++) out[o++] = in[i + t];
      out[o++] = '/';
    }
    i = j + 1;
  }
  if(o > 1 && out[o - 1] == '/') o--;
  return o;
}
'''

PRE += r'''
/* ---- is_in_root: strings as ids; canonical() (realpath) and is_file_prefix (own job) are oracles whose arguments are recorded */
size_t g_join_root, g_join_path, g_joined_id, g_canon_arg, g_canon_res; bool g_canon_ok, g_prefix_ok; int g_canon_calls, g_prefix_calls; size_t g_prefix_a, g_prefix_b;
static size_t str_join_slash(size_t root, size_t path) { g_join_root = root; g_join_path = path; return g_joined_id; }
static bool canonical_rec(size_t normal, size_t *real) { g_canon_calls++; g_canon_arg = normal; if(!g_canon_ok) return 0; *real = g_canon_res; return 1; }
static bool prefix_rec(size_t a, size_t b) { g_prefix_calls++; g_prefix_a = a; g_prefix_b = b; return g_prefix_ok; }
'''
PRE += r'''
#include <sys/stat.h>
/* ---- file_server::main: strings are ids; a path may only be opened / listed / streamed if it is the `real` result of a successful check_in_document_root()
 *      (normalisation, alias mapping, symlink check).  Every id carries that provenance bit in a ghost table. */
#define IDCAP 64
bool g_id_checked[IDCAP]; size_t g_next_id; int g_served, g_listed, g_404, g_redirect; size_t g_served_id;
struct fsrv { bool list_directories_, allow_deflate_, async_; size_t index_file_; };
static size_t new_id(bool checked) { size_t id = g_next_id; __CPROVER_assert(id < IDCAP, "model: at most IDCAP strings are built"); g_id_checked[id] = checked; g_next_id++; return id; }
static bool check_in_document_root_rec(size_t name, size_t *real) { int ok; if(!ok) return 0; *real = new_id(1); return 1; }
static size_t str_cat_slash(size_t a, size_t b) { return new_id(0); }       /* a + "/" + b : a new, unchecked name */
static size_t str_cat_lit(size_t a) { return new_id(0); }                   /* a + "/" */
static int file_mode_rec(size_t path) { int m; return m; }
static void show404_rec(void) { g_404++; }
static void redirect_rec(size_t to) { g_redirect++; }
static char last_char(size_t name) { char c; return c; }
static bool str_is_empty(size_t name) { int b; return b != 0; }
static void list_dir_rec(size_t url, size_t path) { __CPROVER_assert(path < IDCAP && g_id_checked[path], "the directory that is listed was validated by check_in_document_root"); g_listed++; }
static void serve_rec(size_t path) { __CPROVER_assert(path < IDCAP && g_id_checked[path], "the file that is opened and streamed was validated by check_in_document_root (normalised, alias-mapped, symlink-checked)"); g_served++; g_served_id = path; }
static void content_type_rec(size_t path) { }
'''

PRE += r'''
/* ---- check_in_document_root: strings are opaque ids.  Label choice (ids are only ever handed to recorders): the i-th alias is (AL_BASE+2i, AL_BASE+2i+1).
 *      normalize_path, is_file_prefix, substr, empty(), [0], root+normal and is_in_root are recorders / oracles with ghost answers chosen by the harness. */
#define ID_SLASH 1
#define AL_BASE 1000
#define AL_FIRST(i) (AL_BASE + 2 * (size_t)(i))
#define AL_SECOND(i) (AL_BASE + 2 * (size_t)(i) + 1)
struct fsrv2 { size_t document_root_; unsigned alias_n; bool check_symlinks_; };
size_t g_in_id, g_norm_id, g_sub_id, g_cat_id, g_inroot_res;        /* fresh labels chosen by the harness */
int g_norm_calls, g_bad_arg, g_any_true, g_sub_calls, g_seen_k, g_cat_calls, g_inroot_calls, g_chop_calls;
size_t g_true_ref, g_sub_src, g_sub_ref, g_cat_a, g_cat_b, g_inroot_path, g_inroot_root, g_chop_id;
size_t g_cat_size; bool g_norm_empty, g_sub_empty, g_inroot_ok; char g_norm_c0, g_sub_c0, g_cat_last;
static void normalize_path_rec(size_t *p) { if(*p != g_in_id || g_norm_calls) g_bad_arg = 1; if(g_norm_calls < 2) g_norm_calls++; *p = g_norm_id; }
static bool prefix_rec2(size_t ref, size_t normal)
{
  int r; if(normal != g_norm_id) g_bad_arg = 1;
  if(g_k < 100000 && ref == AL_FIRST(g_k)) g_seen_k = 1;
  if(r) { g_any_true = 1; g_true_ref = ref; return 1; }
  return 0;
}
static size_t substr_rec(size_t src, size_t ref) { if(g_sub_calls < 2) g_sub_calls++; g_sub_src = src; g_sub_ref = ref; return g_sub_id; }
static bool empty_rec(size_t id) { if(id == ID_SLASH) return 0; if(id == g_norm_id) return g_norm_empty; if(id == g_sub_id) return g_sub_empty; g_bad_arg = 1; return 0; }
static char char_at_rec(size_t id, size_t at) { if(at != 0) g_bad_arg = 1; if(id == ID_SLASH) return '/'; if(id == g_norm_id) return g_norm_c0; if(id == g_sub_id) return g_sub_c0; g_bad_arg = 1; return 0; }
static bool is_in_root_rec(size_t path, size_t root, size_t *real) { if(g_inroot_calls < 2) g_inroot_calls++; g_inroot_path = path; g_inroot_root = root; if(!g_inroot_ok) return 0; *real = g_inroot_res; return 1; }
static size_t cat_rec(size_t a, size_t b) { if(g_cat_calls < 2) g_cat_calls++; g_cat_a = a; g_cat_b = b; return g_cat_id; }
static size_t size_rec(size_t id) { if(id != g_cat_id) g_bad_arg = 1; return g_cat_size; }
static char real_at_rec(size_t id, size_t at) { if(id != g_cat_id || at + 1 != g_cat_size) g_bad_arg = 1; return g_cat_last; }
static void resize_rec(size_t *id, size_t to) { if(to + 1 != g_cat_size) g_bad_arg = 1; if(g_chop_calls < 2) g_chop_calls++; g_chop_id = *id; }
/* the (root, path) pair the property allows for this request: the document root with the normalised path when no alias matches it,
   otherwise the target of AN alias whose name is a whole-component prefix of the normalised path, with that prefix stripped ("/" if nothing is left) */
#define PAIR_OK(R, Q) ( g_any_true ? ((R) == g_true_ref + 1 && g_sub_calls == 1 && g_sub_src == g_norm_id && g_sub_ref == g_true_ref && (Q) == (g_sub_empty ? (size_t)ID_SLASH : g_sub_id)) \
                                   : ((R) == self->document_root_ && (Q) == g_norm_id && g_sub_calls == 0 && (g_k < self->alias_n ==> g_seen_k)) )
#define Q_EMPTY(Q) ((Q) == ID_SLASH ? 0 : (Q) == g_norm_id ? g_norm_empty : g_sub_empty)
#define Q_C0(Q) ((Q) == ID_SLASH ? '/' : (Q) == g_norm_id ? g_norm_c0 : g_sub_c0)
'''
functions = [
    dict(stub=True, cname='verif_memcmp', sig='int verif_memcmp(char const *a, char const *b, size_t n)',
         contract='/* C11 memcmp: 0 iff the n bytes are equal (arbitrary ghost index) */\n__CPROVER_requires(n <= BUF_CAP && __CPROVER_r_ok(a, n) && __CPROVER_r_ok(b, n))\n__CPROVER_assigns()\n'
                  '__CPROVER_ensures(__CPROVER_return_value == 0 ==> (g_k < n ==> a[g_k] == b[g_k]))'),
    dict(cname='is_directory_separator', file=F, locate=lit('static bool is_directory_separator(char c)'), sig='bool is_directory_separator(char c)',
         contract="__CPROVER_assigns()\n__CPROVER_ensures(__CPROVER_return_value == (c == '/'))"),
    dict(cname='is_file_prefix', file=F, locate=lit('static bool is_file_prefix(std::string const &prefix,std::string const &full)'),
         sig='bool is_file_prefix(char const *prefix_p, size_t prefix_n, char const *full_p, size_t full_n)', rename={'memcmp': 'verif_memcmp'},
         rewrites=[(r'prefix\.size\(\)', 'prefix_n', 1), (r'full\.size\(\)', 'full_n', 2), (r'prefix\.c_str\(\)', 'prefix_p', 1), (r'full\.c_str\(\)', 'full_p', 1),
                   (r'prefix\[', 'prefix_p[', 1), (r'full\[', 'full_p[', 1)],
         contract=r'''
__CPROVER_requires(prefix_n <= BUF_CAP && full_n <= BUF_CAP && __CPROVER_r_ok(prefix_p, prefix_n + 1) && __CPROVER_r_ok(full_p, full_n + 1))
__CPROVER_assigns()
/* alias / document-root match on WHOLE path components: the prefix is a byte prefix and ends at a component boundary */
__CPROVER_ensures(__CPROVER_return_value ==> (prefix_n <= full_n && (g_k < prefix_n ==> prefix_p[g_k] == full_p[g_k]) &&
                  (prefix_n == 0 || prefix_p[prefix_n - 1] == '/' || full_n == prefix_n || full_p[prefix_n] == '/')))
'''),
    dict(cname='fs_normalize_path', file=F, locate=lit('void file_server::normalize_path(std::string &path)'), sig='void fs_normalize_path(char *path_p, size_t *path_n)',
         rewrites=[(r'path\.empty\(\)', '(*path_n == 0)', 1), (r'path\[(\w+)\]', r'path_p[\1]', 1), (r'path = "/" \+ path;', 'prepend_slash(path_p, path_n);', 1),
                   (r'std::string::iterator', 'char *', 4), (r'path\.begin\(\)', 'path_p', 5), (r'path\.end\(\)', '(path_p + *path_n)', 4),
                   (r'std::find\(', 'find_ch_m(', 1), (r'std::copy\(', 'copy_fwd(', 1), (r'path\.resize\(out - path_p\);', '*path_n = (size_t)(out - path_p);', 1)]),
    dict(cname='fs_is_in_root', file=F, locate=lit('bool file_server::is_in_root(std::string const &input_path,std::string const &root,std::string &real)'), sig='bool fs_is_in_root(size_t input_path, size_t root, size_t *real)', refs=['real'],
         rewrites=[(r'std::string normal=root \+ "/" \+ input_path;', 'size_t normal = str_join_slash(root, input_path);', 1), (r'canonical\(normal,real\)', 'canonical_rec(normal, &real)', 0), (r'is_file_prefix\((\w+),(\w+)\)', r'prefix_rec(\1, \2)', 0)],
         contract=r'''
__CPROVER_requires(__CPROVER_rw_ok(real, sizeof(*real)) && g_canon_calls == 0 && g_prefix_calls == 0)
__CPROVER_assigns(*real, g_join_root, g_join_path, g_canon_calls, g_canon_arg, g_prefix_calls, g_prefix_a, g_prefix_b)
/* with symlink checking on, a path is served only if root/path could be resolved AND the RESOLVED name still lies under the root (whole-component prefix test on the canonical name, not on the request) */
__CPROVER_ensures(__CPROVER_return_value ==> (g_canon_calls == 1 && g_canon_ok && g_canon_arg == g_joined_id && g_join_root == root && g_join_path == input_path &&
                  g_prefix_calls == 1 && g_prefix_ok && g_prefix_a == root && g_prefix_b == g_canon_res && *real == g_canon_res))
__CPROVER_ensures(!__CPROVER_return_value ==> (!g_canon_ok || !g_prefix_ok))
'''),
    dict(cname='fs_check_in_document_root', file=F, locate=lit('bool file_server::check_in_document_root(std::string normal,std::string &real)'), sig='bool fs_check_in_document_root(struct fsrv2 *self, size_t normal, size_t *real)',
         refs=['real'], members=['document_root_', 'check_symlinks_'],
         rewrites=[(r'normalize_path\((\w+)\)', r'normalize_path_rec(&\1)', 0), (r'std::string root\b', 'size_t root', 1), (r'alias_\.size\(\)', 'self->alias_n', 1),
                   (r'std::string const &ref=', r'size_t ref = ', 0), (r'alias_\[(\w+)\]\.first', r'AL_FIRST(\1)', 0), (r'is_file_prefix\(([^,()]+),(\w+)\)', r'prefix_rec2(\1, \2)', 1),
                   (r'alias_\[(\w+)\]\.second', r'AL_SECOND(\1)', 0), (r'(\w+)\.substr\((\w+)\.size\(\)\)', r'substr_rec(\1, \2)', 0), (r'normal\.empty\(\)', 'empty_rec(normal)', 0),
                   (r'normal="/"', 'normal = ID_SLASH', 0), (r'normal\[(\w+)\]', r'char_at_rec(normal, \1)', 0), (r'is_in_root\(([^,()]+),([^,()]+),real\)', r'is_in_root_rec(\1, \2, &real)', 0),
                   (r'real = ([\w>-]+) \+ ([\w>-]+);', r'real = cat_rec(\1, \2);', 0), (r'real\.size\(\)', 'size_rec(real)', 0), (r'real\[([^\]]+)\]', r'real_at_rec(real, \1)', 0),
                   (r'real\.resize\(([^;]+)\);', r'resize_rec(&real, \1);', 0)],
         loops={0: r'''
__CPROVER_assigns(i, root, normal, g_bad_arg, g_any_true, g_true_ref, g_seen_k, g_sub_calls, g_sub_src, g_sub_ref)
__CPROVER_loop_invariant(i <= self->alias_n && root == self->document_root_ && normal == g_norm_id && g_any_true == 0 && g_sub_calls == 0 && g_norm_calls == 1)
__CPROVER_loop_invariant(g_bad_arg == __CPROVER_loop_entry(g_bad_arg))
__CPROVER_loop_invariant((g_k < i && g_k < self->alias_n) ==> g_seen_k)
__CPROVER_decreases(self->alias_n - i)
'''},
         contract=r'''
__CPROVER_requires(__CPROVER_r_ok(self, sizeof(*self)) && __CPROVER_rw_ok(real, sizeof(*real)) && self->alias_n <= 100000)
__CPROVER_requires(g_norm_calls == 0 && g_bad_arg == 0 && g_any_true == 0 && g_sub_calls == 0 && g_seen_k == 0 && g_cat_calls == 0 && g_inroot_calls == 0 && g_chop_calls == 0 && normal == g_in_id)
__CPROVER_requires(g_in_id == 2 && g_norm_id == 3 && g_sub_id == 4 && g_cat_id == 5 && g_inroot_res == 6 && self->document_root_ == 7)
__CPROVER_assigns(*real, g_norm_calls, g_bad_arg, g_any_true, g_true_ref, g_seen_k, g_sub_calls, g_sub_src, g_sub_ref, g_cat_calls, g_cat_a, g_cat_b, g_inroot_calls, g_inroot_path, g_inroot_root, g_chop_calls, g_chop_id)
/* C13: a request is accepted only after the path was normalised ('.', '..', '//' resolved) exactly once, before any alias or root test; every string the tests look at is
   the normalised path or derived from it */
__CPROVER_ensures(__CPROVER_return_value ==> (g_norm_calls == 1 && g_bad_arg == 0))
/* ... with symlink checking, the name that is served is the RESOLVED name is_in_root() accepted for exactly the allowed (root, path) pair */
__CPROVER_ensures((__CPROVER_return_value && self->check_symlinks_) ==> (g_inroot_calls == 1 && g_inroot_ok && PAIR_OK(g_inroot_root, g_inroot_path) && *real == g_inroot_res && g_cat_calls == 0 &&
                  !Q_EMPTY(g_inroot_path) && Q_C0(g_inroot_path) == '/'))
/* ... without it, the name is root ++ path for exactly the allowed pair (the path is non-empty and absolute, so the concatenation stays below the root), at most one trailing '/' removed */
__CPROVER_ensures((__CPROVER_return_value && !self->check_symlinks_) ==> (g_inroot_calls == 0 && g_cat_calls == 1 && PAIR_OK(g_cat_a, g_cat_b) && *real == g_cat_id &&
                  !Q_EMPTY(g_cat_b) && Q_C0(g_cat_b) == '/' && g_chop_calls <= 1 && (g_chop_calls == 1 ==> (g_chop_id == g_cat_id && g_cat_last == '/'))))
'''),
    dict(cname='fs_main', file=F, locate=lit('void file_server::main(std::string file_name)'), sig='void fs_main(struct fsrv *self, size_t file_name)', members=['list_directories_', 'allow_deflate_', 'async_', 'index_file_'],
         rewrites=[(r'std::string (path\w*);', r'size_t \1 = 0;', 2), (r'check_in_document_root\(file_name\+"/" \+ index_file_ ,path2\)', 'check_in_document_root_rec(str_cat_slash(file_name, index_file_), &path2)', 0),
                   (r'check_in_document_root\(file_name,path\)', 'check_in_document_root_rec(file_name, &path)', 0), (r'check_in_document_root\((\w+),(\w+)\)', r'check_in_document_root_rec(\1, &\2)', 0),
                   (r'(\w+) \+ "/" \+ (\w+)', r'str_cat_slash(\1, \2)', 0), (r'file_mode\(', 'file_mode_rec(', 1), (r'show404\(\)', 'show404_rec()', 1),
                   (r'!file_name\.empty\(\)', '!str_is_empty(file_name)', 1), (r"file_name\[file_name\.size\(\)-\w\]", 'last_char(file_name)', 1),
                   (r'response\(\)\.set_redirect_header\(file_name \+ "/"\);\s*response\(\)\.out\(\)<<std::flush;', 'redirect_rec(str_cat_lit(file_name));', 1),
                   (r'list_dir\(file_name,path\)', 'list_dir_rec(file_name, path)', 0),
                   (r'(?s)std::string ext;.*?response\(\)\.io_mode\(http::response::nogzip\);\s*\}', 'content_type_rec(path);', 1),
                   (r'(?s)if\(async_\) \{.*\}\s*$', 'serve_rec(path); }', 1)],
         contract=r'''
__CPROVER_requires(__CPROVER_r_ok(self, sizeof(*self)) && g_next_id == 4 && g_served == 0 && g_listed == 0 && file_name < 4 && self->index_file_ < 4)
__CPROVER_assigns(__CPROVER_object_whole(g_id_checked), g_next_id, g_served, g_listed, g_404, g_redirect, g_served_id)
/* C13: whatever the request, at most one thing happens, and the only paths ever opened, streamed or listed are results of check_in_document_root (asserted in the recorders) --
   in particular the index file of a directory goes through the same validation as a file requested by name */
__CPROVER_ensures(g_served + g_listed <= 1)
'''),
]

REPLAY13 = dict(replay='c13:docroot', replay_link=['-fno-access-control', '-L{BUILD}', '-lcppcms', '-L{BUILD}/booster', '-lbooster', '-lpthread'], replay_exhaustive='every request path of 0..4 segments over {a.txt, sub, b.txt, ., .., empty, al, alx, link_out, link_in, secret.txt, c.txt, link_file, rootx, outside} x leading/trailing slash x check_symlink on/off x 0..2 aliases: the REAL check_in_document_root on an on-disk sandbox with symlinks leaving the root, against the root/alias/realpath oracle written from the property (1.3 million pairs)')
jobs = [
    dict(name='is_directory_separator', props=P, enforce='is_directory_separator', harness='char c; is_directory_separator(c); VERIF_REACH;'),
    dict(name='is_file_prefix', props=P, **REPLAY13, enforce='is_file_prefix', replace=['verif_memcmp', 'is_directory_separator'], harness=r'''
    size_t pn, fn, k; __CPROVER_assume(pn <= BUF_CAP && fn <= BUF_CAP); g_k = k;
    char *p = malloc(pn + 1); char *f = malloc(fn + 1); __CPROVER_assume(p != NULL && f != NULL);
    is_file_prefix(p, pn, f, fn); VERIF_REACH;'''),
    dict(name='fs_normalize_path_bounded', props=P, kind='plain', bounded=True, unwind=12, timeout=900, cost=15, object_bits=9,
         bound_note='every request path of length <= 8 bytes over all byte values, every loop fully unwound: the result equals the reference component-stack normalisation written from the property '
                    '(starts with "/", no "." / ".." / empty component, never climbs above "/")',
         harness=r'''
    size_t n; __CPROVER_assume(n <= 8);
    char in[9]; char path[11]; char ref[20];
    for(size_t i = 0; i < 9; i++) path[i] = in[i];
    size_t pn = n;
    WIT_BUF(0, in, n);
    fs_normalize_path(path, &pn);
    size_t rn = spec_normalize(in, n, ref);
    __CPROVER_assert(pn >= 1 && path[0] == '/', "normalised path starts with /");
    __CPROVER_assert(pn == rn, "normalised path has the length of the reference normalisation");
    size_t k; __CPROVER_assume(k < rn);
    __CPROVER_assert(pn != rn || path[k] == ref[k], "normalised path equals the reference normalisation ('.', '..', '//' resolved; never above the root)");
    VERIF_REACH;''', witness=dict(bufs=['path']), replay='c13:normalize_path', replay_link=['-L{BUILD}', '-lcppcms', '-L{BUILD}/booster', '-lbooster']),
    dict(name='fs_is_in_root', props=P, **REPLAY13, enforce='fs_is_in_root', harness='size_t a, b, r, j, cr; int c1, c2; g_joined_id = j; g_canon_res = cr; g_canon_ok = c1 != 0; g_prefix_ok = c2 != 0; g_canon_calls = 0; g_prefix_calls = 0; fs_is_in_root(a, b, &r); VERIF_REACH;'),
    dict(name='fs_check_in_document_root', props=P, **REPLAY13, enforce='fs_check_in_document_root', harness=r'''
    struct fsrv2 f; size_t r, k, cs; g_cat_size = cs; int b1, b2, b3; char c1, c2, c3;
    g_k = k; g_in_id = 2; g_norm_id = 3; g_sub_id = 4; g_cat_id = 5; g_inroot_res = 6; f.document_root_ = 7;
    g_norm_empty = b1 != 0; g_sub_empty = b2 != 0; g_inroot_ok = b3 != 0; g_norm_c0 = c1; g_sub_c0 = c2; g_cat_last = c3;
    g_norm_calls = 0; g_bad_arg = 0; g_any_true = 0; g_sub_calls = 0; g_seen_k = 0; g_cat_calls = 0; g_inroot_calls = 0; g_chop_calls = 0;
    fs_check_in_document_root(&f, 2, &r); VERIF_REACH;'''),
    dict(name='fs_main', props=P, enforce='fs_main', harness='struct fsrv f; size_t fn; g_next_id = 4; g_id_checked[0] = 0; g_id_checked[1] = 0; g_id_checked[2] = 0; g_id_checked[3] = 0; g_served = 0; g_listed = 0; g_404 = 0; g_redirect = 0; fs_main(&f, fn); VERIF_REACH;'),
]

UNIT = dict(
    name='fileserver', pre=PRE, functions=functions, jobs=jobs,
    trusted=['fileserver: std::string path is (pointer, length) in a buffer with room for the prepended "/"; std::find / std::copy / "/" + path are small C loops (R8/R9); memcmp is a stub with the C contract'],
    not_covered={'C13': ['std::string / realpath themselves (ids and oracles in the contracts), symlink resolution by the OS, percent-decoding order, directory listings, file-system behaviour',
                         'normalize_path for paths longer than 8 bytes (bounded stand-in only: two-pointer in-place compaction, DESIGN probe D)']},
)
