# Unit "request" -- body-length handling and urlencoded form splitting of src/http_request.cpp.  Serves C02, C12 (and C01).
import sys, os
sys.path.insert(0, os.path.join(os.path.dirname(os.path.abspath(__file__)), '..', 'tools'))
sys.path.insert(0, os.path.dirname(os.path.abspath(__file__)))
from cxx2c import lit

R = 'src/http_request.cpp'
P = ['C02', 'C12']

PRE = r'''
/* request::_data (the fields the extracted functions use) */
struct req { long long content_length; long long read_size; bool read_full; int buffer_size; size_t post_n;
             bool filter_is_raw_content_filter; bool is_multipart; long long mp_limit; size_t cl_limit; bool mp_parser; bool mp_ok; };
/* d->post_data.resize(n): C02 -- the size comes from a header supplied by the peer: it must be non-negative and within the configured limit.
   The parameter is long long so that the implicit conversion to size_t of a negative length is visible. */
static void post_data_resize(struct req *self, long long n)
{
  __CPROVER_assert(n >= 0, "post_data.resize(): size derived from Content-Length is not negative");
  __CPROVER_assert(n < 0 || (unsigned long long)n <= (self->cl_limit > (size_t)self->buffer_size ? self->cl_limit : (size_t)self->buffer_size), "post_data.resize(): size is within the configured content-length limit / buffer size");
  self->post_n = (size_t)n;
}
static bool mp_parser_setup(struct req *self) { self->mp_parser = 1; return self->mp_ok; }
size_t g_ins; size_t g_seg_b, g_seg_e, g_i; bool g_seen;
/* std::find(b,e,c) for char ranges (R9): first occurrence or e */
static char const *find_ch(char const *b, char const *e, char c)
{
  __CPROVER_assert(VALID_RANGE(b, e), "std::find range is a valid range");
  size_t k; __CPROVER_assume(k <= OFF(e) - OFF(b) && (k == OFF(e) - OFF(b) || b[k] == c));
  return b + k;
}
/* util::urldecode(b,e) as a std::string temporary: the range must be valid (contract of unit util) */
static int urldecode_tmp(char const *b, char const *e) { __CPROVER_assert(VALID_RANGE(b, e), "urldecode range is a valid range inside the input"); return 0; }
static void form_insert(int name, int value) { g_ins++; }
'''

PRE += r'''
#include <stdio.h>
/* std::istream over a part's temporary storage: content (p,n) and a get position; seekg / rdbuf()->sbumpc() as the C++ library defines them */
struct istrm { char const *p; size_t n; size_t pos; };
static void strm_seekg(struct istrm *s, size_t off) { __CPROVER_assert(off <= s->n, "seekg inside the stream"); s->pos = off; }
static int strm_sbumpc(struct istrm *s) { if(s->pos >= s->n) return EOF; return (unsigned char)s->p[s->pos++]; }
size_t g_rf_len, g_rf_k; bool g_rf_seen; char g_rf_val;
static void rf_reset(void) { g_rf_len = 0; g_rf_seen = 0; }
static void rf_put(char c) { if(g_rf_len == g_rf_k) { g_rf_seen = 1; g_rf_val = c; } g_rf_len++; }
'''
functions = [
    dict(cname='request_on_content_start', file=R, locate=lit('int request::on_content_start()'), sig='int request_on_content_start(struct req *self)',
         rewrites=[(r'd->content_length', 'self->content_length', 3), (r'd->limits\.multipart_form_data_limit\(\)', 'self->mp_limit', 1),
                   (r'd->limits\.content_length_limit\(\)', 'self->cl_limit', 1), (r'lazy_content_type\(\)\.is_multipart_form_data\(\)', 'self->is_multipart', 3),
                   (r'd->filter_is_raw_content_filter', 'self->filter_is_raw_content_filter', 2), (r'd->post_data\.resize\(', 'post_data_resize(self, ', 1),
                   (r'd->read_full', 'self->read_full', 1),
                   (r'd->multipart_parser\.reset\(new multipart_parser\(\s*d->limits\.uploads_path\(\),\s*d->limits\.file_in_memory_limit\(\)\)\);\s*if\(!d->multipart_parser->set_content_type\(lazy_content_type\(\)\)\)',
                    'if(!mp_parser_setup(self))', 1)],
         contract=r'''
__CPROVER_requires(__CPROVER_rw_ok(self, sizeof(*self)) && self->mp_limit >= 0 && self->cl_limit <= BUF_CAP && self->buffer_size >= 1 && self->read_size == 0 && !self->read_full)
__CPROVER_assigns(self->post_n, self->read_full, self->mp_parser)
/* C02/C12: the body announcement is either accepted (0) or refused with 400 / 413; whatever Content-Length the peer sent,
   no buffer is sized from a negative or over-limit length (asserted in the resize stub) */
__CPROVER_ensures(__CPROVER_return_value == 0 || __CPROVER_return_value == 400 || __CPROVER_return_value == 413)
__CPROVER_ensures((__CPROVER_return_value == 0 && self->content_length != 0) ==> self->content_length > 0)
'''),
    dict(cname='request_parse_form_urlencoded', file=R, locate=lit('bool request::parse_form_urlencoded(char const *begin,char const *end,form_type &out)'),
         sig='bool request_parse_form_urlencoded(char const *begin, char const *end)',
         rewrites=[(r'std::find\(', 'find_ch(', 2), (r'std::string name=util::urldecode\(', 'int name=urldecode_tmp(', 1), (r'std::string value=util::urldecode\(', 'int value=urldecode_tmp(', 1),
                   (r'out\.insert\(std::make_pair\(name,value\)\);', 'form_insert(name,value);', 1)],
         loops={0: r'''
__CPROVER_assigns(p, g_ins)
/* p is begin, or one past an '&' (so at most end+1); each iteration consumes one name=value segment */
__CPROVER_loop_invariant(SAME(p, begin) && OFF(p) >= OFF(begin) && OFF(p) <= OFF(end) + 1 && g_ins <= OFF(p) - OFF(begin))
__CPROVER_decreases(OFF(end) + 1 - OFF(p))
'''},
         contract=r'''
__CPROVER_requires(VALID_RANGE(begin, end) && OFF(end) - OFF(begin) <= BUF_CAP && g_ins == 0)
__CPROVER_assigns(g_ins)
/* every range given to std::find / urldecode lies inside [begin,end] (stub assertions); terminates */
__CPROVER_ensures(g_ins <= OFF(end) - OFF(begin) + 1)
'''),
    dict(cname='req_read_file', file=R, locate=lit('std::string read_file(size_t reserve,std::istream &in)'), sig='void req_read_file(size_t reserve, struct istrm *in)',
         rewrites=[(r'std::string res;\s*res\.reserve\(reserve\);', 'rf_reset();', 1), (r'in\.seekg\((\w+)\)', r'strm_seekg(in, \1)', 0), (r'std::streambuf \*buf = in\.rdbuf\(\);', 'struct istrm *buf = in;', 1),
                   (r'buf->sbumpc\(\)', 'strm_sbumpc(buf)', 1), (r'res\+=char\(c\);', 'rf_put((char)c);', 1), (r'return res;', 'return;', 1)],
         loops={0: r'''
__CPROVER_assigns(c, in->pos, g_rf_len, g_rf_seen, g_rf_val)
__CPROVER_loop_invariant(in->pos <= in->n && g_rf_len == in->pos && g_rf_seen == (g_rf_k < g_rf_len) && (g_rf_seen ==> g_rf_val == in->p[g_rf_k]))
__CPROVER_decreases(in->n - in->pos)'''},
         contract=r'''
__CPROVER_requires(__CPROVER_rw_ok(in, sizeof(*in)) && in->n <= BUF_CAP && __CPROVER_r_ok(in->p, in->n) && in->pos <= in->n)
__CPROVER_assigns(in->pos, g_rf_len, g_rf_seen, g_rf_val)
/* C12: the value of a form field is the WHOLE content of its part, from the first byte, wherever the stream's get position was left (a filter may have read it) */
__CPROVER_ensures(g_rf_len == in->n && (g_rf_k < in->n ==> (g_rf_seen && g_rf_val == in->p[g_rf_k])))
'''),
]

jobs = [
    dict(name='request_on_content_start', props=P, enforce='request_on_content_start', harness=r'''
    struct req r; r.read_size = 0; r.read_full = 0; r.mp_parser = 0;
    WIT(0, r.content_length); WIT(1, r.is_multipart); WIT(2, r.cl_limit); WIT(3, r.mp_limit); WIT(4, r.filter_is_raw_content_filter);
    request_on_content_start(&r); VERIF_REACH;''',
         witness=dict(vals=['content_length', 'is_multipart', 'cl_limit', 'mp_limit', 'raw_filter']), replay='c02req:on_content_start',
         replay_link=['-L{BUILD}', '-lcppcms', '-L{BUILD}/booster', '-lbooster']),
    dict(name='request_parse_form_urlencoded', props=P + ['C01'], enforce='request_parse_form_urlencoded', harness=r'''
    /* callers pass NUL-terminated storage (query string; std::string): one byte follows `end` */
    size_t n; __CPROVER_assume(n <= BUF_CAP); WIT_CAP(n); char *buf = malloc(n + 1); __CPROVER_assume(buf != NULL); g_ins = 0; WIT_BUF(0, buf, n);
    request_parse_form_urlencoded(buf, buf + n); VERIF_REACH;''', witness=dict(bufs=['in'])),
    dict(name='req_read_file', props=['C12'], enforce='req_read_file', harness=r'''
    struct istrm st; SYM_BUF(char, b, n, BUF_CAP); st.p = b; st.n = n; size_t pos, k, rs; st.pos = pos; g_rf_k = k;
    req_read_file(rs, &st); VERIF_REACH;'''),
]

UNIT = dict(
    name='request', pre=PRE, functions=functions, jobs=jobs,
    trusted=['request: request::_data fields are a C struct; content_limits accessors and lazy_content_type() are fields of that struct (R10)',
             'request: std::vector<char>::resize is a stub asserting 0 <= n <= limit; std::find, util::urldecode (proved in unit util), form insert are stubs asserting their ranges'],
    not_covered={'C12': ['multipart parser (separate unit), temp files, content filters, on_content_progress state machine'],
                 'C02': ['exception translation in on_content_progress']},
)
