# Unit "request" -- body-length handling and urlencoded form splitting of src/http_request.cpp.  Serves C02, C12 (and C01).
import sys, os
sys.path.insert(0, os.path.join(os.path.dirname(os.path.abspath(__file__)), '..', 'tools'))
sys.path.insert(0, os.path.dirname(os.path.abspath(__file__)))
from cxx2c import lit

R = 'src/http_request.cpp'
P = ['C02', 'C12']

PRE = r'''
/* request::_data (the fields the extracted functions use) */
struct req { long long content_length; long long read_size; bool read_full; int buffer_size; size_t post_n;
             bool filter_is_raw_content_filter; bool is_multipart; long long mp_limit; size_t cl_limit; bool mp_parser; bool mp_ok; };
/* d->post_data.resize(n): C02 -- the size comes from a header supplied by the peer: it must be non-negative and within the configured limit.
   The parameter is long long so that the implicit conversion to size_t of a negative length is visible. */
static void post_data_resize(struct req *self, long long n)
{
  __CPROVER_assert(n >= 0, "post_data.resize(): size derived from Content-Length is not negative");
  __CPROVER_assert(n < 0 || (unsigned long long)n <= (self->cl_limit > (size_t)self->buffer_size ? self->cl_limit : (size_t)self->buffer_size), "post_data.resize(): size is within the configured content-length limit / buffer size");
  self->post_n = (size_t)n;
}
static bool mp_parser_setup(struct req *self) { self->mp_parser = 1; return self->mp_ok; }
size_t g_ins; size_t g_seg_b, g_seg_e, g_i; bool g_seen;
/* std::find(b,e,c) for char ranges (R9): first occurrence or e */
static char const *find_ch(char const *b, char const *e, char c)
{
  __CPROVER_assert(VALID_RANGE(b, e), "std::find range is a valid range");
  size_t k; __CPROVER_assume(k <= OFF(e) - OFF(b) && (k == OFF(e) - OFF(b) || b[k] == c));
  return b + k;
}
/* util::urldecode(b,e) as a std::string temporary: the range must be valid (contract of unit util) */
static int urldecode_tmp(char const *b, char const *e) { __CPROVER_assert(VALID_RANGE(b, e), "urldecode range is a valid range inside the input"); return 0; }
static void form_insert(int name, int value) { g_ins++; }
'''

PRE += r'''
#include <stdio.h>
/* std::istream over a part's temporary storage: content (p,n) and a get position; seekg / rdbuf()->sbumpc() as the C++ library defines them */
struct istrm { char const *p; size_t n; size_t pos; };
static void strm_seekg(struct istrm *s, size_t off) { __CPROVER_assert(off <= s->n, "seekg inside the stream"); s->pos = off; }
static int strm_sbumpc(struct istrm *s) { if(s->pos >= s->n) return EOF; return (unsigned char)s->p[s->pos++]; }
size_t g_rf_len, g_rf_k; bool g_rf_seen; char g_rf_val;
static void rf_reset(void) { g_rf_len = 0; g_rf_seen = 0; }
static void rf_put(char c) { if(g_rf_len == g_rf_k) { g_rf_seen = 1; g_rf_val = c; } g_rf_len++; }
'''

PRE += 'size_t g_b0;\n'
PRE += r'''
/* ---- multipart part of request::on_content_progress: consume() is an oracle (its own contract: unit multipart) that eats some input and reports an event; the loop must forward every
 *      event exactly once (limit check, filter call-backs), stop with 413 / 400 on the first violation and demand that the parser's eof coincides with the declared length */
#define MP_continue_input 1
#define MP_meta_ready 2
#define MP_content_partial 3
#define MP_content_ready 4
#define MP_no_room_left 5
#define MP_eof 6
#define MP_parsing_error 7
struct req2 { long long content_length, read_size; size_t cl_limit; bool filter_is_multipart_filter; };
int g_last_r; bool g_mpf; int g_pend_size, g_pend_cb, g_pend_seek, g_evbad; bool g_last_sizeok, g_size_failed; int g_cur_file; long long g_size_limit_seen;
static int consume_rec(char const **b, char const *e)
{
  __CPROVER_assert(SAME(*b, e) && OFF(*b) < OFF(e), "consume() is called with input left");
  size_t adv; __CPROVER_assume(adv <= OFF(e) - OFF(*b)); *b += adv;
  int r; g_last_r = r;
  if(r == MP_meta_ready) { g_pend_cb = g_mpf ? MP_meta_ready : 0; }
  if(r == MP_content_partial) { g_pend_size = 1; g_pend_cb = g_mpf ? MP_content_partial : 0; }
  if(r == MP_content_ready) { g_pend_size = 1; g_pend_seek = 1; g_pend_cb = g_mpf ? MP_content_ready : 0; }
  return r;
}
static int get_file_rec(void) { if(g_last_r != MP_meta_ready && g_last_r != MP_content_partial) g_evbad = 1; return g_cur_file; }
static int last_file_rec(void) { if(g_last_r != MP_content_ready) g_evbad = 1; return g_cur_file; }
static void file_seek0_rec(int f) { if(f != g_cur_file || !g_pend_seek) g_evbad = 1; g_pend_seek = 0; }
static bool size_ok_rec(int f, long long allowed) { if(f != g_cur_file || !g_pend_size) g_evbad = 1; g_pend_size = 0; g_size_limit_seen = allowed; int ok; g_last_sizeok = ok != 0; if(!g_last_sizeok) g_size_failed = 1; return g_last_sizeok; }
static void mpf_cb(int kind, int f) { if(f != g_cur_file || g_pend_cb != kind || g_pend_size) g_evbad = 1; g_pend_cb = 0; }
static void mpf_on_new_file_rec(int f) { mpf_cb(MP_meta_ready, f); }
static void mpf_on_upload_progress_rec(int f) { mpf_cb(MP_content_partial, f); }
static void mpf_on_data_ready_rec(int f) { if(g_pend_seek) g_evbad = 1; mpf_cb(MP_content_ready, f); }
/* size_ok: form fields (no MIME type) are limited, files are not */
bool g_has_mime; long long g_fsize; int g_notice;
#define LIM_content_length_limit 1
#define LIM_multipart_form_data_limit 2
#define LIM_file_in_memory_limit 3
size_t g_cl_limit; long long g_other_limit;
static long long limit_rec(int k) { return k == LIM_content_length_limit ? (long long)g_cl_limit : g_other_limit; }
static bool f_has_mime(void) { return g_has_mime; }
static long long f_size(void) { return g_fsize; }
static void notice_rec(void) { g_notice = 1; }
'''
functions = [
    dict(cname='request_on_content_start', file=R, locate=lit('int request::on_content_start()'), sig='int request_on_content_start(struct req *self)',
         rewrites=[(r'd->content_length', 'self->content_length', 3), (r'd->limits\.multipart_form_data_limit\(\)', 'self->mp_limit', 1),
                   (r'd->limits\.content_length_limit\(\)', 'self->cl_limit', 1), (r'lazy_content_type\(\)\.is_multipart_form_data\(\)', 'self->is_multipart', 3),
                   (r'd->filter_is_raw_content_filter', 'self->filter_is_raw_content_filter', 2), (r'd->post_data\.resize\(', 'post_data_resize(self, ', 1),
                   (r'd->read_full', 'self->read_full', 1),
                   (r'd->multipart_parser\.reset\(new multipart_parser\(\s*d->limits\.uploads_path\(\),\s*d->limits\.file_in_memory_limit\(\)\)\);\s*if\(!d->multipart_parser->set_content_type\(lazy_content_type\(\)\)\)',
                    'if(!mp_parser_setup(self))', 1)],
         contract=r'''
__CPROVER_requires(__CPROVER_rw_ok(self, sizeof(*self)) && self->mp_limit >= 0 && self->cl_limit <= BUF_CAP && self->buffer_size >= 1 && self->read_size == 0 && !self->read_full)
__CPROVER_assigns(self->post_n, self->read_full, self->mp_parser)
/* C02/C12: the body announcement is either accepted (0) or refused with 400 / 413; whatever Content-Length the peer sent,
   no buffer is sized from a negative or over-limit length (asserted in the resize stub) */
__CPROVER_ensures(__CPROVER_return_value == 0 || __CPROVER_return_value == 400 || __CPROVER_return_value == 413)
__CPROVER_ensures((__CPROVER_return_value == 0 && self->content_length != 0) ==> self->content_length > 0)
'''),
    dict(cname='request_parse_form_urlencoded', file=R, locate=lit('bool request::parse_form_urlencoded(char const *begin,char const *end,form_type &out)'),
         sig='bool request_parse_form_urlencoded(char const *begin, char const *end)',
         rewrites=[(r'std::find\(', 'find_ch(', 2), (r'std::string name=util::urldecode\(', 'int name=urldecode_tmp(', 1), (r'std::string value=util::urldecode\(', 'int value=urldecode_tmp(', 1),
                   (r'out\.insert\(std::make_pair\(name,value\)\);', 'form_insert(name,value);', 1)],
         loops={0: r'''
__CPROVER_assigns(p, g_ins)
/* p is begin, or one past an '&' (so at most end+1); each iteration consumes one name=value segment */
__CPROVER_loop_invariant(SAME(p, begin) && OFF(p) >= OFF(begin) && OFF(p) <= OFF(end) + 1 && g_ins <= OFF(p) - OFF(begin))
__CPROVER_decreases(OFF(end) + 1 - OFF(p))
'''},
         contract=r'''
__CPROVER_requires(VALID_RANGE(begin, end) && OFF(end) - OFF(begin) <= BUF_CAP && g_ins == 0)
__CPROVER_assigns(g_ins)
/* every range given to std::find / urldecode lies inside [begin,end] (stub assertions); terminates */
__CPROVER_ensures(g_ins <= OFF(end) - OFF(begin) + 1)
'''),
    dict(cname='req_read_file', file=R, locate=lit('std::string read_file(size_t reserve,std::istream &in)'), sig='void req_read_file(size_t reserve, struct istrm *in)',
         rewrites=[(r'std::string res;\s*res\.reserve\(reserve\);', 'rf_reset();', 1), (r'in\.seekg\((\w+)\)', r'strm_seekg(in, \1)', 0), (r'std::streambuf \*buf = in\.rdbuf\(\);', 'struct istrm *buf = in;', 1),
                   (r'buf->sbumpc\(\)', 'strm_sbumpc(buf)', 1), (r'res\+=char\(c\);', 'rf_put((char)c);', 1), (r'return res;', 'return;', 1)],
         loops={0: r'''
__CPROVER_assigns(c, in->pos, g_rf_len, g_rf_seen, g_rf_val)
__CPROVER_loop_invariant(in->pos <= in->n && g_rf_len == in->pos && g_rf_seen == (g_rf_k < g_rf_len) && (g_rf_seen ==> g_rf_val == in->p[g_rf_k]))
__CPROVER_decreases(in->n - in->pos)'''},
         contract=r'''
__CPROVER_requires(__CPROVER_rw_ok(in, sizeof(*in)) && in->n <= BUF_CAP && __CPROVER_r_ok(in->p, in->n) && in->pos <= in->n)
__CPROVER_assigns(in->pos, g_rf_len, g_rf_seen, g_rf_val)
/* C12: the value of a form field is the WHOLE content of its part, from the first byte, wherever the stream's get position was left (a filter may have read it) */
__CPROVER_ensures(g_rf_len == in->n && (g_rf_k < in->n ==> (g_rf_seen && g_rf_val == in->p[g_rf_k])))
'''),
    dict(cname='req_size_ok', file=R, locate=lit('bool request::size_ok(file &f,long long size)'), sig='bool req_size_ok(long long size)',
         rewrites=[(r'f\.has_mime\(\)', 'f_has_mime()', 1), (r'f\.size\(\)', 'f_size()', 1), (r'(?s)BOOSTER_NOTICE\("cppcms"\).*?;', 'notice_rec();', 0)],
         contract='__CPROVER_assigns(g_notice)\n/* C12: a form FIELD (a part without a MIME type) larger than the content-length limit is refused; files are limited elsewhere (multipart limit, spill to disk) */\n'
                  '__CPROVER_ensures(__CPROVER_return_value == (g_has_mime || !(g_fsize > size)))'),
    dict(cname='req_mp_loop', file=R, locate=lit('int request::on_content_progress(size_t n)'), sig='int req_mp_loop(struct req2 *self, char const *begin, char const *end)',
         slice=dict(between=(r'multipart_parser::parsing_result_type r = multipart_parser::continue_input;', r'if\(begin==end &&[^{]*\{\s*return \w+;\s*\}'), tail=' return 0;'),
         rewrites=[(r'multipart_parser::parsing_result_type', 'int', 1), (r'multipart_parser::(\w+)', r'MP_\1', 7), (r'd->limits\.(\w+)\(\)', r'limit_rec(LIM_\1)', 1),
                   (r'd->multipart_parser->consume\(begin,end\)', 'consume_rec(&begin, end)', 1), (r'file &f=d->multipart_parser->get_file\(\);', 'int f = get_file_rec();', 0),
                   (r'file &f=d->multipart_parser->last_file\(\);', 'int f = last_file_rec();', 0), (r'f\.data\(\)\.seekg\(\w\);', 'file_seek0_rec(f);', 0), (r'size_ok\(f,allowed\)', 'size_ok_rec(f, allowed)', 0),
                   (r'static_cast<multipart_filter \*>\(d->filter\)->(\w+)\(f\)', r'mpf_\1_rec(f)', 0), (r'd->filter_is_multipart_filter', 'self->filter_is_multipart_filter', 0),
                   (r'd->read_size', 'self->read_size', 2), (r'd->content_length', 'self->content_length', 2)],
         loops={0: r'''
__CPROVER_assigns(begin, r, g_last_r, g_pend_size, g_pend_cb, g_pend_seek, g_evbad, g_last_sizeok, g_size_failed, g_size_limit_seen)
__CPROVER_loop_invariant(SAME(begin, end) && OFF(begin) <= OFF(end) && OFF(begin) >= g_b0 && g_pend_size == 0 && g_pend_cb == 0 && g_pend_seek == 0 && g_evbad == 0 && !g_size_failed)
__CPROVER_loop_invariant(r == g_last_r)
__CPROVER_loop_invariant(r == MP_continue_input || r == MP_meta_ready || r == MP_content_partial || r == MP_content_ready || r == MP_eof)
__CPROVER_loop_invariant((r == MP_eof && g_last_r == MP_eof) ==> (begin == end && self->read_size == self->content_length))
'''},
         contract=r'''
__CPROVER_requires(__CPROVER_r_ok(self, sizeof(*self)) && SAME(begin, end) && OFF(begin) <= OFF(end) && OFF(begin) == g_b0 && self->cl_limit <= BUF_CAP && g_cl_limit == self->cl_limit && g_mpf == self->filter_is_multipart_filter &&
                   g_pend_size == 0 && g_pend_cb == 0 && g_pend_seek == 0 && g_evbad == 0 && !g_size_failed && g_last_r == MP_continue_input)
__CPROVER_assigns(g_last_r, g_pend_size, g_pend_cb, g_pend_seek, g_evbad, g_last_sizeok, g_size_failed, g_size_limit_seen)
/* C12: the chunk is either consumed completely with every parser event forwarded exactly once, in order (seek before the size check of a finished part, size check before the filter call-back) ... */
__CPROVER_ensures(__CPROVER_return_value == 0 || __CPROVER_return_value == 400 || __CPROVER_return_value == 413)
__CPROVER_ensures(g_evbad == 0)
__CPROVER_ensures(__CPROVER_return_value == 0 ==> (g_pend_size == 0 && g_pend_cb == 0 && g_pend_seek == 0 && !g_size_failed &&
                  (g_last_r == MP_continue_input || g_last_r == MP_meta_ready || g_last_r == MP_content_partial || g_last_r == MP_content_ready || g_last_r == MP_eof) &&
                  /* the parser's end coincides with the declared length, in both directions */
                  (g_last_r == MP_eof ==> self->read_size == self->content_length) && (self->read_size == self->content_length ==> g_last_r == MP_eof)))
/* ... or refused: 413 exactly for "no room left" and for a form field over the limit (checked against the configured content-length limit), 400 for everything malformed, early or late */
__CPROVER_ensures(__CPROVER_return_value == 413 ==> (g_last_r == MP_no_room_left || g_size_failed))
__CPROVER_ensures(g_size_failed ==> (__CPROVER_return_value == 413 && g_size_limit_seen == (long long)self->cl_limit))
__CPROVER_ensures(g_last_r == MP_no_room_left ==> __CPROVER_return_value == 413)
__CPROVER_ensures((g_last_r == MP_parsing_error || g_last_r < MP_continue_input || g_last_r > MP_parsing_error) ==> __CPROVER_return_value == 400)
'''),
]

REPLAY12 = dict(replay='c12req:limits', replay_link=['-fno-access-control', '-L{BUILD}', '-lcppcms', '-L{BUILD}/booster', '-lbooster', '-lpthread'], replay_exhaustive='the real http::request fed multipart bodies through prepare / on_content_start / get_buffer / on_content_progress: one field or file of 0..5000 bytes (with a boundary look-alike inside), with and without a preceding field, x 12 read-buffer sizes (1 .. 65536) with content_length_limit 100: over-limit form fields must give 413 for EVERY chunking, everything else must be delivered byte for byte; bodies with bytes after the final boundary, cut short, unterminated or without any boundary must give 400 (432 runs)')
jobs = [
    dict(name='request_on_content_start', props=P, enforce='request_on_content_start', harness=r'''
    struct req r; r.read_size = 0; r.read_full = 0; r.mp_parser = 0;
    WIT(0, r.content_length); WIT(1, r.is_multipart); WIT(2, r.cl_limit); WIT(3, r.mp_limit); WIT(4, r.filter_is_raw_content_filter);
    request_on_content_start(&r); VERIF_REACH;''',
         witness=dict(vals=['content_length', 'is_multipart', 'cl_limit', 'mp_limit', 'raw_filter']), replay='c02req:on_content_start',
         replay_link=['-L{BUILD}', '-lcppcms', '-L{BUILD}/booster', '-lbooster']),
    dict(name='request_parse_form_urlencoded', props=P + ['C01'], enforce='request_parse_form_urlencoded', harness=r'''
    /* callers pass NUL-terminated storage (query string; std::string): one byte follows `end` */
    size_t n; __CPROVER_assume(n <= BUF_CAP); WIT_CAP(n); char *buf = malloc(n + 1); __CPROVER_assume(buf != NULL); g_ins = 0; WIT_BUF(0, buf, n);
    request_parse_form_urlencoded(buf, buf + n); VERIF_REACH;''', witness=dict(bufs=['in'])),
    dict(name='req_read_file', props=['C12'], **REPLAY12, enforce='req_read_file', harness=r'''
    struct istrm st; SYM_BUF(char, b, n, BUF_CAP); st.p = b; st.n = n; size_t pos, k, rs; st.pos = pos; g_rf_k = k;
    req_read_file(rs, &st); VERIF_REACH;'''),
    dict(name='req_size_ok', props=['C12'], **REPLAY12, enforce='req_size_ok', harness='int hm; long long fs, sz; g_has_mime = hm != 0; g_fsize = fs; g_notice = 0; req_size_ok(sz); VERIF_REACH;'),
    dict(name='req_mp_loop', props=['C12', 'C02'], **REPLAY12, enforce='req_mp_loop', harness=r'''
    struct req2 r; SYM_BUF(char, b, n, BUF_CAP); int mf, cf; r.filter_is_multipart_filter = mf != 0; g_mpf = r.filter_is_multipart_filter; g_cur_file = cf; __CPROVER_assume(r.cl_limit <= BUF_CAP); g_cl_limit = r.cl_limit; long long ol; g_other_limit = ol;
    g_pend_size = 0; g_pend_cb = 0; g_pend_seek = 0; g_evbad = 0; g_size_failed = 0; g_last_r = MP_continue_input; g_b0 = OFF(b);
    req_mp_loop(&r, b, b + n); VERIF_REACH;'''),
]

UNIT = dict(
    name='request', pre=PRE, functions=functions, jobs=jobs,
    trusted=['request: request::_data fields are a C struct; content_limits accessors and lazy_content_type() are fields of that struct (R10)',
             'request: std::vector<char>::resize is a stub asserting 0 <= n <= limit; std::find, util::urldecode (proved in unit util), form insert are stubs asserting their ranges'],
    not_covered={'C12': ['multipart parser (separate unit), temp files, the tail of on_content_progress (hand-over of the finished parts to post()/files(), raw content filter, exception translation)'],
                 'C02': ['exception translation in on_content_progress']},
)
