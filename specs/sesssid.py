# Unit "sesssid" -- server-side session identifiers (src/session_sid.cpp, private/tohex.h).  Serves C06.
import sys, os
sys.path.insert(0, os.path.join(os.path.dirname(os.path.abspath(__file__)), '..', 'tools'))
from cxx2c import lit

S = 'src/session_sid.cpp'
T = 'private/tohex.h'
P = ['C06']

PRE = r'''
#include <time.h>
#define LOWHEX(c) (('0' <= (c) && (c) <= '9') || ('a' <= (c) && (c) <= 'f'))
size_t g_k; char const *g_cookie; size_t g_cookie_n; bool g_id_set; size_t g_id_off, g_id_n;
static void id_assign(char const *p, size_t off, size_t n)
{
  __CPROVER_assert(off <= g_cookie_n && n <= g_cookie_n - off, "substr range lies inside the cookie");
  g_id_set = 1; g_id_off = off; g_id_n = n;
}
/* ---- protocol skeleton of session_sid::save/load/clear: an id is a tag: 0 none, 1 taken from a cookie that passed valid_sid, 2 freshly generated */
bool g_cookie_valid; time_t g_now, g_loaded_timeout; bool g_storage_has;
int g_removed, g_saved, g_loaded, g_cookie_set_to; bool g_cookie_cleared; int g_new_sids;
static bool valid_sid_tag(int *id) { if(g_cookie_valid) { *id = 1; return 1; } return 0; }
static int new_sid_tag(void) { g_new_sids++; return 2; }
static void storage_remove(int id) { __CPROVER_assert(id == 1 || id == 2, "storage is addressed only with an identifier of the issued form"); g_removed = id; }
static void storage_save(int id) { __CPROVER_assert(id == 1 || id == 2, "storage is addressed only with an identifier of the issued form"); g_saved = id; }
static bool storage_load(int id, time_t *timeout) { __CPROVER_assert(id == 1 || id == 2, "storage is addressed only with an identifier of the issued form"); g_loaded = id; if(g_storage_has) { *timeout = g_loaded_timeout; return 1; } return 0; }
static void set_cookie_tag(int id) { g_cookie_set_to = id; }
static void clear_cookie(void) { g_cookie_cleared = 1; }
static time_t time_stub(void) { return g_now; }
static void rnd_generate(char *p, size_t n) { __CPROVER_assert(__CPROVER_w_ok(p, n), "random bytes fit the buffer"); }
'''

functions = [
    dict(cname='sid_valid_sid', file=S, locate=lit('bool session_sid::valid_sid(std::string const &cookie,std::string &id)'), sig='bool sid_valid_sid(char const *cookie_p, size_t cookie_n)',
         rewrites=[(r'cookie\.size\(\)', 'cookie_n', 1), (r'cookie\[', 'cookie_p[', 2), (r'id=cookie\.substr\((\w+),(\w+)\);', r'id_assign(cookie_p, \1, \2);', 1)],
         loops={0: '__CPROVER_assigns(i)\n__CPROVER_loop_invariant(1 <= i && i <= 33 && ((1 <= g_k && g_k < (size_t)i) ==> LOWHEX(cookie_p[g_k])))\n__CPROVER_decreases(33 - i)'},
         contract=r'''
__CPROVER_requires(cookie_n <= BUF_CAP && __CPROVER_r_ok(cookie_p, cookie_n + 1) && g_cookie == cookie_p && g_cookie_n == cookie_n && !g_id_set)
__CPROVER_assigns(g_id_set, g_id_off, g_id_n)
/* exact language  I[0-9a-f]{32}  (arbitrary ghost index for the digits); the id handed on is exactly the 32 digits */
__CPROVER_ensures(__CPROVER_return_value ==> (cookie_n == 33 && cookie_p[0] == 'I' && ((1 <= g_k && g_k < 33) ==> LOWHEX(cookie_p[g_k])) && g_id_set && g_id_off == 1 && g_id_n == 32))
__CPROVER_ensures((cookie_n != 33 || cookie_p[0] != 'I' || (1 <= g_k && g_k < 33 && !LOWHEX(cookie_p[g_k]))) ==> !__CPROVER_return_value)
__CPROVER_ensures(!__CPROVER_return_value ==> !g_id_set)
'''),
    dict(cname='impl_tohex', file=T, locate=lit('inline void tohex(void const *vptr,size_t len,char *out)'), sig='void impl_tohex(void const *vptr, size_t len, char *out)',
         hoist=[r'static char const table\[\w+\]="[^"]*";'],
         contract=r'''
/* all call sites pass 16 bytes (session id, md5hex): proved for every len <= 16 by full unwinding */
__CPROVER_requires(len <= 16 && __CPROVER_r_ok(vptr, len) && __CPROVER_w_ok(out, 2 * len + 1))
__CPROVER_assigns(__CPROVER_object_upto(out, 2 * len + 1))
/* 2*len lower-case hex digits, most significant nibble first, NUL terminated: nothing outside the 2*len+1 bytes is written */
__CPROVER_ensures(out[2 * len] == 0)
__CPROVER_ensures(g_k < len ==> (out[2 * g_k] == "0123456789abcdef"[((unsigned char const *)vptr)[g_k] >> 4] && out[2 * g_k + 1] == "0123456789abcdef"[((unsigned char const *)vptr)[g_k] & 15]))
'''),
    dict(cname='sid_get_new_sid', file=S, locate=lit('std::string session_sid::get_new_sid()'), sig='void sid_get_new_sid(char *res_out)',
         rewrites=[(r'urandom_device rnd;', '', 1), (r'rnd\.generate\(', 'rnd_generate(', 1), (r'cppcms::impl::tohex\(', 'impl_tohex(', 1), (r'return res;', 'memcpy(res_out, res, sizeof(res)); return;', 1)],
         contract=r'''
__CPROVER_requires(__CPROVER_w_ok(res_out, 33))
__CPROVER_assigns(__CPROVER_object_upto(res_out, 33))
/* a new identifier is 32 lower-case hex digits (so that "I"+id passes valid_sid) */
__CPROVER_ensures(res_out[32] == 0 && (g_k < 16 ==> (LOWHEX(res_out[2 * g_k]) && LOWHEX(res_out[2 * g_k + 1]))))
'''),
    dict(cname='sid_save', file=S, locate=r'void session_sid::save\(session_interface &session,std::string const &data,time_t timeout,bool new_data,bool\s*\)',
         sig='void sid_save(bool new_data)',
         rewrites=[(r'std::string id;', 'int id = 0;', 1), (r'valid_sid\(session\.get_session_cookie\(\),id\)', 'valid_sid_tag(&id)', 1), (r'storage_->remove\(id\);', 'storage_remove(id);', 1),
                   (r'get_new_sid\(\)', 'new_sid_tag()', 2), (r'storage_->save\(id,timeout,data\);', 'storage_save(id);', 1), (r'session\.set_session_cookie\("I"\+id\);', 'set_cookie_tag(id);', 1)],
         contract=r'''
__CPROVER_requires(g_removed == 0 && g_saved == 0 && g_new_sids == 0 && g_cookie_set_to == 0)
__CPROVER_assigns(g_removed, g_saved, g_new_sids, g_cookie_set_to)
/* data is stored under the browser's validated id, or under a fresh one; a reset (new_data) makes the old id unusable and issues a fresh one */
__CPROVER_ensures(g_saved == g_cookie_set_to && (g_saved == 1 || g_saved == 2))
__CPROVER_ensures((g_cookie_valid && new_data) ==> (g_removed == 1 && g_saved == 2 && g_new_sids == 1))
__CPROVER_ensures((g_cookie_valid && !new_data) ==> (g_removed == 0 && g_saved == 1 && g_new_sids == 0))
__CPROVER_ensures(!g_cookie_valid ==> (g_removed == 0 && g_saved == 2 && g_new_sids == 1))
'''),
    dict(cname='sid_load', file=S, locate=lit('bool session_sid::load(session_interface &session,std::string &data,time_t &timeout)'), sig='bool sid_load(time_t *timeout)', refs=['timeout'],
         rewrites=[(r'std::string id;', 'int id = 0;', 1), (r'valid_sid\(session\.get_session_cookie\(\),id\)', 'valid_sid_tag(&id)', 1), (r'std::string tmp_data;', '', 1),
                   (r'storage_->load\(id,timeout,data\)', 'storage_load(id,timeout)', 1), (r'\btime\(\w\)', 'time_stub()', 1), (r'storage_->remove\(id\);', 'storage_remove(id);', 1)],
         post_rewrites=[(r'storage_load\(id,\(\*timeout\)\)', 'storage_load(id,timeout)', 1)],
         contract=r'''
__CPROVER_requires(__CPROVER_rw_ok(timeout, sizeof(*timeout)) && g_removed == 0 && g_loaded == 0)
__CPROVER_assigns(*timeout, g_removed, g_loaded)
/* a session is returned only for a validated id, only if storage has it, and never after its deadline (then it is removed) */
__CPROVER_ensures(__CPROVER_return_value ==> (g_cookie_valid && g_storage_has && g_loaded == 1 && *timeout == g_loaded_timeout && g_now <= g_loaded_timeout && g_removed == 0))
__CPROVER_ensures((g_cookie_valid && g_storage_has && g_now > g_loaded_timeout) ==> (!__CPROVER_return_value && g_removed == 1))
__CPROVER_ensures(!g_cookie_valid ==> (!__CPROVER_return_value && g_loaded == 0 && g_removed == 0))
'''),
    dict(cname='sid_clear', file=S, locate=lit('void session_sid::clear(session_interface &session)'), sig='void sid_clear(void)',
         rewrites=[(r'std::string id;', 'int id = 0;', 1), (r'valid_sid\(session\.get_session_cookie\(\),id\)', 'valid_sid_tag(&id)', 1), (r'storage_->remove\(id\);', 'storage_remove(id);', 1),
                   (r'session\.clear_session_cookie\(\);', 'clear_cookie();', 1)],
         contract='__CPROVER_requires(g_removed == 0 && !g_cookie_cleared)\n__CPROVER_assigns(g_removed, g_cookie_cleared)\n'
                  '/* clearing removes the stored session of a validated id (old identifier unusable) and always clears the cookie */\n'
                  '__CPROVER_ensures(g_cookie_cleared && (g_cookie_valid ? g_removed == 1 : g_removed == 0))'),
]

GH = 'g_removed = 0; g_saved = 0; g_loaded = 0; g_new_sids = 0; g_cookie_set_to = 0; g_cookie_cleared = 0; bool cv, sh; g_cookie_valid = cv; g_storage_has = sh; time_t nw, lt; g_now = nw; g_loaded_timeout = lt; '
jobs = [
    dict(name='sid_valid_sid', props=P, enforce='sid_valid_sid', harness=r'''
    size_t n, k; __CPROVER_assume(n <= BUF_CAP); WIT_CAP(n); char *c = malloc(n + 1); __CPROVER_assume(c != NULL); g_k = k; g_cookie = c; g_cookie_n = n; g_id_set = 0;
    WIT_BUF(0, c, n); sid_valid_sid(c, n); VERIF_REACH;''', witness=dict(bufs=['cookie']), replay='c06:valid_sid', replay_link=['-L{BUILD}', '-lcppcms', '-L{BUILD}/booster', '-lbooster']),
    dict(name='impl_tohex', props=P + ['C15'], enforce='impl_tohex', pre_unwind=17, complete_note='loop bound = len <= 16 (all call sites pass 16), fully unwound with unwinding assertion',
         harness=r'''
    size_t len, k; __CPROVER_assume(len <= 16); g_k = k; unsigned char *in = malloc(len); char *out = malloc(2 * len + 1); __CPROVER_assume(in != NULL && out != NULL);
    impl_tohex(in, len, out); VERIF_REACH;'''),
    dict(name='sid_get_new_sid', props=P, enforce='sid_get_new_sid', replace=['impl_tohex'], harness='size_t k; g_k = k; char out[33]; sid_get_new_sid(out); VERIF_REACH;'),
    dict(name='sid_save', props=P, enforce='sid_save', harness=GH + 'bool nd; sid_save(nd); VERIF_REACH;'),
    dict(name='sid_load', props=P, enforce='sid_load', harness=GH + 'time_t t; sid_load(&t); VERIF_REACH;'),
    dict(name='sid_clear', props=P, enforce='sid_clear', harness=GH + 'sid_clear(); VERIF_REACH;'),
]

UNIT = dict(
    name='sesssid', pre=PRE, functions=functions, jobs=jobs,
    trusted=['sesssid: session identifiers in save/load/clear are abstracted to a tag (from validated cookie / freshly generated / none); session_storage, session_interface cookie accessors, time() and the random device are stubs (R10)',
             'sesssid: call-site fact (grep): impl::tohex is only called with 16-byte inputs'],
    not_covered={'C06': ['session_interface (values, exposed flags, age, expiration modes), session_dual, memory/tcp storages, unpredictability of the random device, histories over browsers/clock']},
)
