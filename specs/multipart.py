# Unit "multipart" -- the multipart/form-data state machine multipart_parser::consume (private/multipart_parser.h)
# and the RFC 2616 token helpers of private/http_protocol.h.  Serves C12 (and C02).
import sys, os
sys.path.insert(0, os.path.join(os.path.dirname(os.path.abspath(__file__)), '..', 'tools'))
from cxx2c import lit

MP = 'private/multipart_parser.h'
HP = 'private/http_protocol.h'
P = ['C12', 'C02']

PRE = r'''
#include <stdio.h>
@@REGION:mp_results@@
@@REGION:mp_states@@
struct mparser { states_type state_; size_t position_; bool file_is_ready_; char const *boundary_p; size_t boundary_n; char const *crlfcrlf_p; size_t crlfcrlf_n; };
/* what set_content_type() establishes: boundary_ = "\r\n--" + parameter (parameter non-empty), crlfcrlf_ = "\r\n\r\n" */
#define MP_INV(s) (__CPROVER_rw_ok(s, sizeof(*(s))) && (s)->boundary_n >= 5 && (s)->boundary_n <= 1024 && __CPROVER_r_ok((s)->boundary_p, (s)->boundary_n + 1) && \
     (s)->crlfcrlf_n == 4 && __CPROVER_r_ok((s)->crlfcrlf_p, 5) && (s)->crlfcrlf_p[0] == '\r' && (s)->crlfcrlf_p[1] == '\n' && (s)->crlfcrlf_p[2] == '\r' && (s)->crlfcrlf_p[3] == '\n' && \
     (s)->state_ >= expecting_first_boundary && (s)->state_ <= expecting_separator_boundary && \
     ((s)->state_ == expecting_first_boundary ==> (s)->position_ < (s)->boundary_n) && ((s)->state_ == expecting_crlfcrlf ==> (s)->position_ < 4) && \
     ((s)->state_ == expecting_separator_boundary ==> (s)->position_ < (s)->boundary_n) && \
     (((s)->state_ >= expecting_one_crlf_or_eof && (s)->state_ <= expecting_lf) ==> (s)->position_ == 0))
/* file body sink: streambuf with an arbitrary byte budget (memory limit / disk full) */
size_t snk_len, snk_budget; bool snk_failed, snk_put_after_fail;
size_t g_hdr_len; size_t g_files;
static long snk_write(struct mparser *self, char const *s, long n)
{
  __CPROVER_assert(n >= 0 && (size_t)n <= self->boundary_n && SAME(s, self->boundary_p) && OFF(s) == OFF(self->boundary_p), "sputn re-emits a prefix of the boundary");
  if(snk_failed) snk_put_after_fail = 1;
  long acc = (size_t)n <= snk_budget ? n : (long)snk_budget;
  snk_len += (size_t)acc; snk_budget -= (size_t)acc; if(acc < n) snk_failed = 1;
  return acc;
}
static int snk_sputc(char c)
{
  if(snk_failed) snk_put_after_fail = 1;
  if(snk_budget == 0) { snk_failed = 1; return EOF; }
  snk_budget--; snk_len++; return (unsigned char)c;
}
static void hdr_put(char c) { g_hdr_len++; }
static void hdr_clear(void) { g_hdr_len = 0; }
static bool process_header_stub(void) { bool r; return r; }
static void file_finish_stub(void) { g_files = 1; }
'''

CONSUME_OUTER = r'''
__CPROVER_assigns(*buffer, self->state_, self->position_, self->file_is_ready_, snk_len, snk_budget, snk_failed, g_hdr_len, g_files)
__CPROVER_loop_invariant(IN_RANGE(*buffer, __CPROVER_loop_entry(*buffer), buffer_end) && MP_INV(self) && !snk_failed && !snk_put_after_fail)
__CPROVER_loop_invariant(g_hdr_len <= __CPROVER_loop_entry(g_hdr_len) + (OFF(*buffer) - OFF(__CPROVER_loop_entry(*buffer))))
/* the file sink is only touched by the separator-boundary loop, which always returns */
__CPROVER_loop_invariant(snk_len == __CPROVER_loop_entry(snk_len) && snk_budget == __CPROVER_loop_entry(snk_budget))
__CPROVER_decreases(OFF(buffer_end) - OFF(*buffer))
'''
CONSUME_INNER = r'''
__CPROVER_assigns(*buffer, self->position_, snk_len, snk_budget, snk_failed)
__CPROVER_loop_invariant(IN_RANGE(*buffer, __CPROVER_loop_entry(*buffer), buffer_end) && self->position_ < boundary_size && !snk_failed && !snk_put_after_fail)
/* conservation: every byte consumed in this state is in the file or pending in the partial boundary match */
__CPROVER_loop_invariant(__CPROVER_loop_entry(snk_len) <= BUF_CAP && __CPROVER_loop_entry(self->position_) < boundary_size && snk_len <= BUF_CAP + BUF_CAP + 1024 && snk_len + self->position_ == __CPROVER_loop_entry(snk_len) + __CPROVER_loop_entry(self->position_) + (OFF(*buffer) - OFF(__CPROVER_loop_entry(*buffer))))
__CPROVER_loop_invariant(snk_budget <= __CPROVER_loop_entry(snk_budget))
__CPROVER_decreases(OFF(buffer_end) - OFF(*buffer))
'''

functions = [
    dict(cname='mp_consume', file=MP, locate=lit('parsing_result_type consume(char const *&buffer,char const *buffer_end)'),
         sig='parsing_result_type mp_consume(struct mparser *self, char const **buffer, char const *buffer_end)', refs=['buffer'],
         members=['state_', 'position_', 'file_is_ready_'],
         rewrites=[(r'boundary_\[([^\]]*)\]', r'self->boundary_p[\1]', 2), (r'crlfcrlf_\[([^\]]*)\]', r'self->crlfcrlf_p[\1]', 1),
                   (r'boundary_\.size\(\)', 'self->boundary_n', 2), (r'crlfcrlf_\.size\(\)', 'self->crlfcrlf_n', 1), (r'boundary_\.c_str\(\)', 'self->boundary_p', 1),
                   (r'header_\+=\*buffer;', 'hdr_put(*buffer);', 1), (r'process_header\(header_\)', 'process_header_stub()', 1), (r'header_\.clear\(\);', 'hdr_clear();', 1),
                   (r'std::streambuf \*out=file_->write_data\(\)\.rdbuf\(\);', '', 1), (r'out->sputn\(', 'snk_write(self, ', 1), (r'out->sputc\(', 'snk_sputc(', 1),
                   (r'std::streamsize', 'long', 2),
                   (r'file_->data\(\)\.seekg\(\w\);\s*files_\.push_back\(file_\);\s*file_\.reset\(new http::file\(\)\);\s*file_->set_temporary_directory\(temp_dir_\);\s*if\([^()]*\) \{\s*file_->set_memory_limit\(memory_limit_\);\s*\}',
                    'file_finish_stub();', 1)],
         loops={0: CONSUME_OUTER, 1: CONSUME_INNER},
         contract=r'''
__CPROVER_requires(MP_INV(self) && __CPROVER_rw_ok(buffer, sizeof(*buffer)) && VALID_RANGE(*buffer, buffer_end) && OFF(buffer_end) - OFF(*buffer) <= BUF_CAP &&
                   snk_len <= BUF_CAP && snk_budget <= 4 * BUF_CAP && g_hdr_len <= BUF_CAP && !snk_failed && !snk_put_after_fail)
__CPROVER_assigns(*buffer, self->state_, self->position_, self->file_is_ready_, snk_len, snk_budget, snk_failed, snk_put_after_fail, g_hdr_len, g_files)
/* the cursor stays inside the chunk; the parser state stays well-formed for the next chunk (chunking independence rests on
   (state_, position_) being the whole carried state) */
__CPROVER_ensures(IN_RANGE(*buffer, __CPROVER_old(*buffer), buffer_end))
__CPROVER_ensures(__CPROVER_return_value != parsing_error ==> MP_INV(self))
__CPROVER_ensures(__CPROVER_return_value >= parsing_error && __CPROVER_return_value <= no_room_left)
/* the file sink refusing data is reported as no_room_left, and nothing is written after a refusal */
__CPROVER_ensures(snk_failed ==> __CPROVER_return_value == no_room_left)
__CPROVER_ensures(!snk_put_after_fail)
/* results that ask for more input consumed the whole chunk */
__CPROVER_ensures((__CPROVER_return_value == continue_input || __CPROVER_return_value == content_partial) ==> OFF(*buffer) == OFF(buffer_end))
'''),
]

jobs = [
    dict(name='mp_consume', props=P, enforce='mp_consume', timeout=600, cost=10, harness=r'''
    struct mparser m; size_t bn; __CPROVER_assume(bn >= 5 && bn <= 1024);
    char *bd = malloc(bn + 1); char cr[5] = {'\r', '\n', '\r', '\n', 0}; __CPROVER_assume(bd != NULL);
    m.boundary_p = bd; m.boundary_n = bn; m.crlfcrlf_p = cr; m.crlfcrlf_n = 4;
    SYM_BUF(char, buf, n, BUF_CAP); char const *p = buf;
    size_t l0, bud, h0; __CPROVER_assume(l0 <= BUF_CAP && h0 <= BUF_CAP && bud <= 4 * BUF_CAP); snk_len = l0; snk_budget = bud; g_hdr_len = h0; snk_failed = 0; snk_put_after_fail = 0; g_files = 0;
    mp_consume(&m, &p, buf + n); VERIF_REACH;'''),
    # bounded stand-in for exact reconstruction / first-occurrence detection / chunking independence on the real body
    dict(name='mp_consume_bounded', props=P, kind='plain', bounded=True, unwind=9, timeout=600, cost=10,
         bound_note='boundary "\\r\\n--" + 1 or 2 parameter bytes without CR, body of <= 7 bytes, all contents, split into two chunks at an arbitrary point; '
                    'asserts that data before the first boundary occurrence reaches the file sink exactly (count) and that the boundary is detected at its first occurrence',
         harness=r'''
    struct mparser m; char bd[7]; size_t bn; __CPROVER_assume(bn >= 5 && bn <= 6);
    bd[0] = '\r'; bd[1] = '\n'; bd[2] = '-'; bd[3] = '-'; __CPROVER_assume(bd[4] != '\r' && bd[5] != '\r');
    char cr[5] = {'\r', '\n', '\r', '\n', 0};
    m.boundary_p = bd; m.boundary_n = bn; m.crlfcrlf_p = cr; m.crlfcrlf_n = 4;
    m.state_ = expecting_separator_boundary; m.position_ = 0; m.file_is_ready_ = 1;
    char body[7]; size_t n, cut; __CPROVER_assume(n <= 7 && cut <= n);
    snk_len = 0; snk_budget = 100; snk_failed = 0; snk_put_after_fail = 0; g_files = 0; g_hdr_len = 0;
    /* first occurrence of the boundary in body[0..n), computed by the harness */
    size_t first = n; 
    for(size_t i = 0; i + bn <= n; i++) { bool eq = 1; for(size_t j = 0; j < bn; j++) if(body[i + j] != bd[j]) eq = 0; if(eq && first == n) first = i; }
    char const *p = body; parsing_result_type r = mp_consume(&m, &p, body + cut);
    if(r == content_partial && p == body + cut) r = mp_consume(&m, &p, body + n);
    if(first < n) {
      __CPROVER_assert(r == content_ready, "a boundary present in the body is detected");
      __CPROVER_assert(r != content_ready || (size_t)(p - body) == first + bn, "... at its FIRST occurrence, however the body is cut into chunks");
      __CPROVER_assert(r != content_ready || snk_len == first, "exactly the bytes before the boundary reach the file");
    } else {
      __CPROVER_assert(r == content_partial, "no boundary in the body: all of it is content so far");
      __CPROVER_assert(r != content_partial || snk_len + m.position_ == n, "every consumed byte is in the file or pending in the partial match");
    }
    VERIF_REACH;'''),
]

UNIT = dict(
    name='multipart', pre=PRE, functions=functions, jobs=jobs,
    regions=[dict(name='mp_results', file=MP, start=r'typedef enum \{\s*parsing_error', end=r'\} parsing_result_type;'),
             dict(name='mp_states', file=MP, start=r'typedef enum \{\s*expecting_first_boundary', end=r'\} states_type;')],
    trusted=['multipart: std::string boundary_/crlfcrlf_ are (pointer,length) fields with the values set_content_type() assigns (boundary_ = CRLF "--" parameter); header_ is a length counter; '
             'process_header() and the http::file bookkeeping are stubs (R10); the file streambuf is a sink with an arbitrary byte budget (R7)'],
    not_covered={'C12': ['process_header / parse_content_disposition / parse_pair (std::string iterator code), temp-file spill, content filters, limits in request::on_content_progress',
                         'byte-exact reconstruction for bodies longer than the bounded stand-in: only the conservation law (bytes in file + pending match == bytes consumed) is proved unbounded']},
)
