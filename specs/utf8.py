# Unit utf8: the framework's UTF-8 decoder (private/utf_iterator.h) and the
# support library's (booster/booster/locale/utf.h).  Serves C14 (and is the
# callee contract used by C04 / C11 units).
import sys, os
sys.path.insert(0, os.path.join(os.path.dirname(os.path.abspath(__file__)), '..', 'tools'))
from cxx2c import lit

H = 'private/utf_iterator.h'
B = 'booster/booster/locale/utf.h'
P = ['C14']

NEXT_CONTRACT = r'''
__CPROVER_requires(__CPROVER_rw_ok(p, sizeof(*p)) && VALID_RANGE(*p, e))
__CPROVER_assigns(*p)
/* the cursor never leaves [old,e], moves at most 4, and makes progress on non-empty input */
__CPROVER_ensures(IN_RANGE(*p, __CPROVER_old(*p), e) && OFF(*p) - OFF(__CPROVER_old(*p)) <= 4)
__CPROVER_ensures(OFF(e) > OFF(__CPROVER_old(*p)) ==> OFF(*p) > OFF(__CPROVER_old(*p)))
/* accepted  <=>  RFC 3629 well-formed sequence at *p (and HTML-safe when html) */
__CPROVER_ensures((__CPROVER_return_value != UTF_ILLEGAL) ==
                  spec_u8_seq_ok(REBASE(__CPROVER_old(*p), e), OFF(e) - OFF(__CPROVER_old(*p)), html))
/* value and advance are exactly those of that sequence */
__CPROVER_ensures(__CPROVER_return_value != UTF_ILLEGAL ==>
                  __CPROVER_return_value == spec_u8_cp(REBASE(__CPROVER_old(*p), e), spec_u8_len(REBASE(__CPROVER_old(*p), e), OFF(e) - OFF(__CPROVER_old(*p)))))
__CPROVER_ensures(__CPROVER_return_value != UTF_ILLEGAL ==>
                  OFF(*p) == OFF(__CPROVER_old(*p)) + spec_u8_len(REBASE(__CPROVER_old(*p), e), OFF(e) - OFF(__CPROVER_old(*p))))
'''

DECODE_CONTRACT = r'''
__CPROVER_requires(__CPROVER_rw_ok(p, sizeof(*p)) && VALID_RANGE(*p, e))
__CPROVER_assigns(*p)
__CPROVER_ensures(IN_RANGE(*p, __CPROVER_old(*p), e) && OFF(*p) - OFF(__CPROVER_old(*p)) <= 4)
__CPROVER_ensures((__CPROVER_return_value != UTF_ILLEGAL && __CPROVER_return_value != UTF_INCOMPLETE) ==
                  (spec_u8_len(REBASE(__CPROVER_old(*p), e), OFF(e) - OFF(__CPROVER_old(*p))) != 0))
__CPROVER_ensures((__CPROVER_return_value != UTF_ILLEGAL && __CPROVER_return_value != UTF_INCOMPLETE) ==>
                  __CPROVER_return_value == spec_u8_cp(REBASE(__CPROVER_old(*p), e), spec_u8_len(REBASE(__CPROVER_old(*p), e), OFF(e) - OFF(__CPROVER_old(*p)))))
__CPROVER_ensures((__CPROVER_return_value != UTF_ILLEGAL && __CPROVER_return_value != UTF_INCOMPLETE) ==>
                  OFF(*p) == OFF(__CPROVER_old(*p)) + spec_u8_len(REBASE(__CPROVER_old(*p), e), OFF(e) - OFF(__CPROVER_old(*p))))
/* incomplete only when fewer than 4 bytes were available (a truncated sequence) */
__CPROVER_ensures(__CPROVER_return_value == UTF_INCOMPLETE ==> OFF(e) - OFF(__CPROVER_old(*p)) < 4)
'''

TRAIL_LENGTH_CONTRACT = r'''
__CPROVER_assigns()
/* RFC 3629: lead byte classes 00-7F / C2-DF / E0-EF / F0-F4, everything else is no lead byte */
__CPROVER_ensures(__CPROVER_return_value == (LEADBYTE <= 0x7F ? 0 : (LEADBYTE >= 0xC2 && LEADBYTE <= 0xDF) ? 1 :
                  (LEADBYTE >= 0xE0 && LEADBYTE <= 0xEF) ? 2 : (LEADBYTE >= 0xF0 && LEADBYTE <= 0xF4) ? 3 : -1))
'''
WIDTH_CONTRACT = r'''
__CPROVER_assigns()
__CPROVER_ensures(__CPROVER_return_value == (value <= 0x7F ? 1 : value <= 0x7FF ? 2 : value <= 0xFFFF ? 3 : 4))
'''
VALID_CONTRACT = r'''
__CPROVER_assigns()
__CPROVER_ensures(__CPROVER_return_value == (v <= 0x10FFFF && !(v >= 0xD800 && v <= 0xDFFF)))
'''
IS_TRAIL_CONTRACT = r'''
__CPROVER_assigns()
__CPROVER_ensures(__CPROVER_return_value == U8TAIL((uint32_t)(unsigned char)ci))
'''

# validate(): ghosts (all g_u8_*; written only by R12 ghost statements):
#   g_u8_k     arbitrary byte index relative to the start, chosen by the caller
#   g_u8_base  offset of the start;  g_u8_tiles  iterations = accepted sequences
#   g_u8_prev  offset where the last iteration started
#   g_u8_plen  RFC length of the sequence at g_u8_prev (computed by the spec function, not by the code)
#   g_u8_found/g_u8_s/g_u8_slen  the accepted sequence [s,s+slen) that covers byte k
VALIDATE_GHOSTS = 'g_u8_base, g_u8_tiles, g_u8_prev, g_u8_plen, g_u8_found, g_u8_s, g_u8_slen'
VALIDATE_INV = r'''
__CPROVER_assigns(p, COUNT_TARGET g_u8_tiles, g_u8_prev, g_u8_plen, g_u8_found, g_u8_s, g_u8_slen)
__CPROVER_loop_invariant(IN_RANGE(p, __CPROVER_loop_entry(p), e))
__CPROVER_loop_invariant(g_u8_base == OFF(__CPROVER_loop_entry(p)))
__CPROVER_loop_invariant(g_u8_tiles <= OFF(p) - g_u8_base)
COUNT_INV
__CPROVER_loop_invariant(g_u8_k < OFF(p) - g_u8_base ==> g_u8_found)
__CPROVER_loop_invariant(g_u8_found ==> (g_u8_slen <= 4 && g_u8_k <= BUF_CAP && g_u8_base <= g_u8_s && g_u8_s <= OFF(p) && g_u8_s <= g_u8_base + g_u8_k && g_u8_base + g_u8_k < g_u8_s + g_u8_slen &&
    g_u8_s + g_u8_slen <= OFF(p) &&
    SPEC_U8_SEQ_OK_M(__CPROVER_loop_entry(p) + (g_u8_s - g_u8_base), OFF(e) - g_u8_s, html) &&
    SPEC_U8_LEN_M(__CPROVER_loop_entry(p) + (g_u8_s - g_u8_base), OFF(e) - g_u8_s) == g_u8_slen))
__CPROVER_decreases(OFF(e) - OFF(p))
'''
VALIDATE_ENS = r'''
/* soundness: accepted => every byte (arbitrary ghost index k) lies inside an accepted sequence [s,s+slen) within the buffer */
__CPROVER_ensures(__CPROVER_return_value ==> (g_u8_k < OFF(e) - OFF(p) ==> (g_u8_found && g_u8_slen <= 4 && g_u8_s <= OFF(e) &&
    OFF(p) <= g_u8_s && g_u8_s <= OFF(p) + g_u8_k && OFF(p) + g_u8_k < g_u8_s + g_u8_slen && g_u8_s + g_u8_slen <= OFF(e) &&
    spec_u8_seq_ok(p + (g_u8_s - OFF(p)), OFF(e) - g_u8_s, html) && spec_u8_len(p + (g_u8_s - OFF(p)), OFF(e) - g_u8_s) == g_u8_slen)))
/* completeness: rejected => [p, prev) is tiled by accepted sequences and no accepted sequence starts at prev */
__CPROVER_ensures(!__CPROVER_return_value ==> OFF(p) <= g_u8_prev && g_u8_prev < OFF(e) &&
    !spec_u8_seq_ok(p + (g_u8_prev - OFF(p)), OFF(e) - g_u8_prev, html) &&
    (g_u8_k < g_u8_prev - OFF(p) ==> (g_u8_found && g_u8_slen <= 4 && g_u8_s <= OFF(e) && OFF(p) <= g_u8_s && g_u8_s <= OFF(p) + g_u8_k && OFF(p) + g_u8_k < g_u8_s + g_u8_slen &&
       g_u8_s + g_u8_slen <= g_u8_prev &&
       spec_u8_seq_ok(p + (g_u8_s - OFF(p)), OFF(e) - g_u8_s, html) && spec_u8_len(p + (g_u8_s - OFF(p)), OFF(e) - g_u8_s) == g_u8_slen)))
'''

def validate_fn(cname, sigsrc, sig, with_count):
    inv = VALIDATE_INV.replace('COUNT_TARGET', '*count,' if with_count else '') \
        .replace('COUNT_INV', '__CPROVER_loop_invariant(*count == __CPROVER_loop_entry(*count) + g_u8_tiles)' if with_count else '')
    contract = '__CPROVER_requires(VALID_RANGE(p, e) && OFF(e) - OFF(p) <= BUF_CAP)\n'
    if with_count:
        contract += '__CPROVER_requires(__CPROVER_rw_ok(count, sizeof(*count)) && *count <= SIZE_MAX - BUF_CAP)\n'
        contract += '__CPROVER_assigns(*count, %s)\n' % VALIDATE_GHOSTS
        # reported character count == number of accepted sequences (code points)
        contract += '__CPROVER_ensures(__CPROVER_return_value ==> *count == __CPROVER_old(*count) + g_u8_tiles)\n'
    else:
        contract += '__CPROVER_assigns(%s)\n' % VALIDATE_GHOSTS
    contract += VALIDATE_ENS
    d = dict(cname=cname, file=H, locate=lit(sigsrc), sig=sig,
             defaults=['false'], contract=contract, loops={0: inv},
             body_ghost='g_u8_base = OFF(p); g_u8_tiles = 0; g_u8_prev = OFF(p); g_u8_plen = 0; g_u8_found = 0; g_u8_s = 0; g_u8_slen = 0;',
             loop_ghost={0: 'g_u8_prev = OFF(p); g_u8_tiles++; g_u8_plen = SPEC_U8_LEN_M(REBASE(p, e), OFF(e) - OFF(p)); '
                            'if(!g_u8_found && g_u8_prev <= g_u8_base + g_u8_k && g_u8_base + g_u8_k < g_u8_prev + g_u8_plen) '
                            '{ g_u8_found = 1; g_u8_s = g_u8_prev; g_u8_slen = g_u8_plen; }'})
    if with_count: d['refs'] = ['count']
    return d

NEXT_HARNESS = r'''
    SYM_BUF(char, buf, n, BUF_CAP);
    size_t off; __CPROVER_assume(off <= n);
    char const *p = buf + off; char const *e = buf + n;
    bool html, dec;
    WIT_BUF(0, buf + off, n - off); WIT(0, html);
    %s(&p, e%s);
    VERIF_REACH;
'''

UNIT = dict(
    name='utf8',
    includes=['utf8_spec.h'],
    pre=r'''
typedef uint32_t code_point;
@@REGION:utf_illegal@@
@@REGION:bl_illegal@@
@@REGION:bl_incomplete@@
struct utf8_seq { char c[4]; unsigned len; };
size_t g_u8_k, g_u8_base, g_u8_tiles, g_u8_prev, g_u8_plen, g_u8_s, g_u8_slen; bool g_u8_found;   /* ghosts of validate() */
''',
    regions=[
        dict(name='utf_illegal', file=H, start=r'static const uint32_t illegal', end=';', rewrites=[(r'\billegal\b', 'utf_illegal', 1)]),
        dict(name='bl_illegal', file=B, start=r'static const code_point illegal', end=';', rewrites=[(r'\billegal\b', 'bl_illegal', 1)]),
        dict(name='bl_incomplete', file=B, start=r'static const code_point incomplete', end=';', rewrites=[(r'\bincomplete\b', 'bl_incomplete', 1)]),
    ],
    rename={'illegal': 'utf_illegal', 'next': 'utf8_next', 'trail_length': 'utf8_trail_length', 'is_trail': 'utf8_is_trail',
            'width': 'utf8_width', 'valid': 'utf_valid'},
    functions=[
        dict(cname='utf_valid', file=H, locate=lit('inline bool valid(uint32_t v)'), sig='bool utf_valid(uint32_t v)', contract=VALID_CONTRACT),
        dict(cname='utf8_is_trail', file=H, locate=lit('inline bool is_trail(char ci)'), sig='bool utf8_is_trail(char ci)', contract=IS_TRAIL_CONTRACT),
        dict(cname='utf8_trail_length', file=H, locate=lit('inline int trail_length(unsigned char c)'), sig='int utf8_trail_length(unsigned char c)',
             contract=TRAIL_LENGTH_CONTRACT.replace('LEADBYTE', 'c')),
        dict(cname='utf8_width', file=H, locate=lit('inline int width(uint32_t value)'),
             sig='int utf8_width(uint32_t value)', contract=WIDTH_CONTRACT),
        dict(cname='utf8_next', file=H, locate=lit('uint32_t next(Iterator &p,Iterator e,bool html=false,bool') + r'\s*=\s*false\)',
             sig='uint32_t utf8_next(char const **p, char const *e, bool html, bool decode_unused)',
             refs=['p'], defaults=['false', 'false'], contract=NEXT_CONTRACT),
        validate_fn('utf8_validate_count', 'bool validate(Iterator p,Iterator e,size_t &count,bool html=false)',
                    'bool utf8_validate_count(char const *p, char const *e, size_t *count, bool html)', True),
        dict(cname='utf8_encode', file=H, locate=lit('inline seq encode(uint32_t value)'),
             sig='struct utf8_seq utf8_encode(uint32_t value)',
             rewrites=[(r'seq out=seq\(\);', 'struct utf8_seq out={{0,0,0,0},0};', 1)],
             contract=r'''
__CPROVER_requires(value <= 0x10FFFF && !(value >= 0xD800 && value <= 0xDFFF))
__CPROVER_assigns()
/* encode is a right inverse of the RFC decoder: the bytes are the well-formed sequence of `value` */
__CPROVER_ensures(__CPROVER_return_value.len >= 1 && __CPROVER_return_value.len <= 4)
__CPROVER_ensures(SPEC_U8_LEN_M(__CPROVER_return_value.c, __CPROVER_return_value.len) == __CPROVER_return_value.len)
__CPROVER_ensures(SPEC_U8_CP_M(__CPROVER_return_value.c, __CPROVER_return_value.len) == value)
'''),
        # ---- booster::locale::utf::utf_traits<char,1>
        dict(cname='bl_trail_length', file=B, locate=lit('static int trail_length(char_type ci)'), sig='int bl_trail_length(char ci)',
             contract=TRAIL_LENGTH_CONTRACT.replace('LEADBYTE', '((uint32_t)(unsigned char)ci)')),
        dict(cname='bl_width', file=B, locate=r'static const int max_width = 4;\s*static int width\(code_point value\)', sig='int bl_width(code_point value)',
             contract=WIDTH_CONTRACT),
        dict(cname='bl_is_trail', file=B, locate=r'static bool is_trail\(char_type ci\)\s*(?=\{\s*unsigned char c=ci;)', sig='bool bl_is_trail(char ci)',
             contract=IS_TRAIL_CONTRACT),
        dict(cname='bl_is_valid_codepoint', file=B, locate=lit('inline bool is_valid_codepoint(code_point v)'), sig='bool bl_is_valid_codepoint(code_point v)',
             contract=VALID_CONTRACT),
        dict(cname='bl_decode', file=B, locate=r'static code_point decode\(Iterator &p,Iterator e\)\s*(?=\{\s*if\(BOOSTER_LOCALE_UNLIKELY\(p==e\)\)\s*return incomplete;\s*unsigned char lead)',
             sig='code_point bl_decode(char const **p, char const *e)', refs=['p'],
             rename={'illegal': 'bl_illegal', 'incomplete': 'bl_incomplete', 'trail_length': 'bl_trail_length', 'is_trail': 'bl_is_trail',
                     'width': 'bl_width', 'is_valid_codepoint': 'bl_is_valid_codepoint'},
             contract=DECODE_CONTRACT),
    ],
    jobs=[
        dict(name='utf_valid', props=P, enforce='utf_valid', harness='uint32_t v; WIT(0, v); utf_valid(v); VERIF_REACH;',
             witness=dict(vals=['v']), replay='c14:utf_valid'),
        dict(name='utf8_is_trail', props=P, enforce='utf8_is_trail', harness='char c; utf8_is_trail(c); VERIF_REACH;'),
        dict(name='utf8_trail_length', props=P, enforce='utf8_trail_length', harness='unsigned char c; WIT(0, c); utf8_trail_length(c); VERIF_REACH;',
             witness=dict(vals=['c']), replay='c14:utf8_trail_length'),
        dict(name='utf8_width', props=P, enforce='utf8_width', harness='uint32_t v; WIT(0, v); utf8_width(v); VERIF_REACH;',
             witness=dict(vals=['v']), replay='c14:utf8_width'),
        dict(name='utf8_next', props=P, enforce='utf8_next', replace=['utf_valid', 'utf8_is_trail', 'utf8_trail_length', 'utf8_width'],
             harness=NEXT_HARNESS % ('utf8_next', ', html, dec'), witness=dict(bufs=['in'], vals=['html']), replay='c14:utf8_next'),
        dict(name='utf8_validate_count', props=P, enforce='utf8_validate_count', replace=['utf8_next'],
             harness=r'''
    SYM_BUF(char, buf, n, BUF_CAP);
    size_t cnt; bool html; size_t k; g_u8_k = k;
    __CPROVER_assume(cnt <= SIZE_MAX - BUF_CAP);
    WIT_BUF(0, buf, n); WIT(0, html); WIT(1, g_u8_k);
    utf8_validate_count(buf, buf + n, &cnt, html);
    VERIF_REACH;
''', witness=dict(bufs=['in'], vals=['html', 'k']), replay='c14:utf8_validate'),
        dict(name='utf8_encode', props=P, enforce='utf8_encode', harness='uint32_t v; WIT(0, v); utf8_encode(v); VERIF_REACH;',
             witness=dict(vals=['v']), replay='c14:utf8_encode'),
        dict(name='bl_trail_length', props=P, enforce='bl_trail_length', harness='char c; bl_trail_length(c); VERIF_REACH;'),
        dict(name='bl_width', props=P, enforce='bl_width', harness='uint32_t v; bl_width(v); VERIF_REACH;'),
        dict(name='bl_is_trail', props=P, enforce='bl_is_trail', harness='char c; bl_is_trail(c); VERIF_REACH;'),
        dict(name='bl_is_valid_codepoint', props=P, enforce='bl_is_valid_codepoint', harness='uint32_t v; bl_is_valid_codepoint(v); VERIF_REACH;'),
        dict(name='bl_decode', props=P, enforce='bl_decode', replace=['bl_is_valid_codepoint', 'bl_is_trail', 'bl_trail_length', 'bl_width'],
             harness=NEXT_HARNESS % ('bl_decode', ''), witness=dict(bufs=['in'], vals=['html']), replay='c14:bl_decode'),
        # the two decoders agree: corollary of the two contracts
        dict(name='decoders_agree', props=P, kind='lemma', replace=['utf8_next', 'bl_decode'], harness=r'''
    SYM_BUF(char, buf, n, BUF_CAP);
    size_t off; __CPROVER_assume(off <= n);
    char const *p1 = buf + off; char const *p2 = buf + off; char const *e = buf + n;
    uint32_t a = utf8_next(&p1, e, false, false);
    uint32_t b = bl_decode(&p2, e);
    __CPROVER_assert((a != UTF_ILLEGAL) == (b != UTF_ILLEGAL && b != UTF_INCOMPLETE), "decoders accept the same sequences");
    __CPROVER_assert(a != UTF_ILLEGAL ==> (a == b && p1 == p2), "decoders agree on value and length");
    VERIF_REACH;
'''),
        dict(name='utf8_spec_forms_agree', props=P, kind='plain', harness=r'''
    char w[4]; size_t av; bool html; __CPROVER_assume(av <= 4);
    __CPROVER_assert(spec_u8_len(w, av) == SPEC_U8_LEN_M(w, av), "macro and function form of the RFC 3629 length agree");
    __CPROVER_assert(spec_u8_seq_ok(w, av, html) == SPEC_U8_SEQ_OK_M(w, av, html), "macro and function form of accepted-sequence agree");
    __CPROVER_assert(spec_u8_len(w, av) != 0 ==> spec_u8_cp(w, spec_u8_len(w, av)) == SPEC_U8_CP_M(w, spec_u8_len(w, av)), "macro and function form of the scalar value agree");
    VERIF_REACH;
'''),
        dict(name='utf_consts', props=P, kind='plain', harness=r'''
    __CPROVER_assert(utf_illegal == UTF_ILLEGAL && bl_illegal == UTF_ILLEGAL && bl_incomplete == UTF_INCOMPLETE, "sentinel constants");
    VERIF_REACH;
'''),
    ],
    trusted=['utf8: the only instantiation of the Iterator template parameter is char const* / std::string::const_iterator (R2)',
             'utf8: sentinel values utf::illegal, booster illegal/incomplete are re-declared in the unit prelude (0xFFFFFFFF / 0xFFFFFFFE)'],
    not_covered={'C14': ['iconv/ICU conversion fallback in encoding::valid (not compiled into this build)',
                         'form.cpp widgets (call-site fact only: they call encoding::valid / utf8::validate)']},
)
